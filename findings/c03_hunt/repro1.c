// repro1: mi_realloc_aligned / mi_rezalloc_aligned / mi_recalloc_aligned (and mi_heap_ variants) return a pointer
// that is NOT aligned to the requested alignment when the old block does not happen to be aligned to it already.
//
// build: gcc -O2 -DNDEBUG -I/tmp/wt5/C03/include repro1.c /tmp/wt5/C03/src/static.c -o repro1 -lpthread
// exit 0 = property holds, 1 = violated
#include <stdio.h>
#include <stdint.h>
#include <string.h>
#include "mimalloc.h"

static int bad = 0;

static void check(const char* what, void* p, size_t align) {
  if (p == NULL) { printf("%-44s -> NULL (allocation failed)\n", what); bad++; return; }
  const size_t rem = (uintptr_t)p % align;
  printf("%-44s -> %p  (p %% %zu = %zu) %s\n", what, p, align, rem, rem == 0 ? "ok" : "MISALIGNED");
  if (rem != 0) bad++;
}

int main(void) {
  // 1. grow a plain block into an aligned one (typical: a buffer that starts to need SIMD alignment)
  for (size_t align = 32; align <= 4096; align *= 4) {
    // get a block whose address is not a multiple of `align`
    void* keep[64]; int n = 0;
    void* p = NULL;
    while (n < 64) {
      void* q = mi_malloc(40);   // 48-byte size class in all builds
      if (((uintptr_t)q % align) != 0) { p = q; break; }
      keep[n++] = q;
    }
    if (p == NULL) { printf("could not get an unaligned block\n"); return 2; }
    memset(p, 0x5A, 40);
    printf("old block %p (p %% %zu = %zu)\n", p, align, (size_t)((uintptr_t)p % align));
    void* r = mi_realloc_aligned(p, 1000, align);    // must move: 40 -> 1000 bytes
    char what[64]; snprintf(what, sizeof(what), "mi_realloc_aligned(p, 1000, %zu)", align);
    check(what, r, align);
    // re-allocating once more with the same alignment must keep the alignment as well
    void* r2 = mi_realloc_aligned(r, 5000, align);
    snprintf(what, sizeof(what), "mi_realloc_aligned(r, 5000, %zu)", align);
    check(what, r2, align);
    mi_free(r2);
    for (int i = 0; i < n; i++) mi_free(keep[i]);
  }

  // 2. same through the zero-initialising variants
  for (int variant = 0; variant < 2; variant++) {
    void* keep[64]; int n = 0; void* p = NULL;
    while (n < 64) {
      void* q = mi_calloc(1, 40);
      if (((uintptr_t)q % 64) != 0) { p = q; break; }
      keep[n++] = q;
    }
    if (p == NULL) { printf("could not get an unaligned block\n"); return 2; }
    if (variant == 0) { void* r = mi_rezalloc_aligned(p, 777, 64);    check("mi_rezalloc_aligned(p, 777, 64)", r, 64); mi_free(r); }
                 else { void* r = mi_recalloc_aligned(p, 100, 8, 64); check("mi_recalloc_aligned(p, 100, 8, 64)", r, 64); mi_free(r); }
    for (int i = 0; i < n; i++) mi_free(keep[i]);
  }

  // 3. no move at all: the block is returned as-is although it is not aligned (residue == alignment/2)
  {
    void* keep[256]; int n = 0; void* p = NULL;
    while (n < 256) {
      void* q = mi_malloc(96);
      if (((uintptr_t)q % 64) == 32) { p = q; break; }
      keep[n++] = q;
    }
    if (p != NULL) {
      void* r = mi_realloc_aligned(p, 90, 64);   // still fits -> returned in place
      check("mi_realloc_aligned(p, 90, 64) [in place]", r, 64);
      mi_free(r);
    }
    for (int i = 0; i < n; i++) mi_free(keep[i]);
  }

  printf(bad ? "FAILED: %d misaligned results\n" : "ok\n", bad);
  return bad ? 1 : 0;
}
