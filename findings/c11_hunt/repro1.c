// repro1: every mi_reserve_os_memory() call that fails because the arena table is full
// leaks the OS page(s) it obtained for the arena meta-data (the arena area itself is unmapped again).
// build: gcc -O2 -DNDEBUG -Dmmap=my_mmap -Dmunmap=my_munmap -Dmadvise=my_madvise -Dmprotect=my_mprotect \
//        -I../include repro1.c ../src/static.c -o repro1 -lpthread
#include "track.h"
#include <mimalloc.h>
#define MiB (1024UL*1024UL)
int main(void) {
  mi_option_set(mi_option_show_errors, 0); mi_option_set(mi_option_verbose, 0);
  // fill the arena table (MI_MAX_ARENAS == 132) with small uncommitted arenas
  int ok = 0;
  for (int i = 0; i < 200; i++) { if (mi_reserve_os_memory(32*MiB, false, false) == 0) ok++; else break; }
  printf("arenas created: %d\n", ok);
  void* p = mi_malloc(100); mi_free(p); mi_collect(true);
  size_t before = trk_mapped();
  int fails = 0;
  for (int i = 0; i < 1000; i++) { if (mi_reserve_os_memory(32*MiB, false, false) != 0) fails++; }   // all refused (ENOMEM)
  mi_collect(true);
  size_t after = trk_mapped();
  printf("failed reserve calls: %d, mapped before %zu KiB, after %zu KiB (growth %zu KiB)\n", fails, before/1024, after/1024, (after-before)/1024);
  if (after > before) { printf("FAIL: failed mi_reserve_os_memory calls leak OS memory\n"); return 1; }
  printf("ok\n"); return 0;
}
