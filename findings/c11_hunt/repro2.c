// repro2: a 1GiB huge-OS-page reservation that cannot be added as an arena is never unmapped:
// _mi_os_alloc_huge_os_pages() does not record base/size in the memid, so _mi_os_free_ex() computes base=NULL
// and mi_os_free_huge_os_pages(NULL,..) returns without calling munmap.
// (the machine has no hugetlb pool, so the reproducer's mmap serves MAP_HUGETLB requests with normal pages)
// build: gcc -O2 -DNDEBUG -Dmmap=my_mmap -Dmunmap=my_munmap -Dmadvise=my_madvise -Dmprotect=my_mprotect \
//        -I../include repro2.c ../src/static.c -o repro2 -lpthread
#include "track.h"
#include <mimalloc.h>
#define MiB (1024UL*1024UL)
int main(void) {
  mi_option_set(mi_option_show_errors, 0); mi_option_set(mi_option_verbose, 0);
  trk_emulate_hugetlb = 1;
  int ok = 0;
  for (int i = 0; i < 200; i++) { if (mi_reserve_os_memory(32*MiB, false, false) == 0) ok++; else break; }  // arena table full
  printf("arenas created: %d\n", ok);
  size_t before = trk_mapped();
  int err = 0, fails = 0;
  for (int i = 0; i < 3; i++) { err = mi_reserve_huge_os_pages_at(1, -1, 0); if (err != 0) fails++; }
  mi_collect(true);
  size_t after = trk_mapped();
  printf("failed huge page reservations: %d (last err %d), mapped before %zu MiB, after %zu MiB (growth %zu MiB)\n", fails, err, before/MiB, after/MiB, (after-before)/MiB);
  if (fails > 0 && after >= before + 1024*MiB) { printf("FAIL: refused huge page reservation is not unmapped\n"); return 1; }
  printf("ok\n"); return 0;
}
