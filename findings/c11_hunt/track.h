// OS call tracker for the C11 reproducers.
// Build with: -Dmmap=my_mmap -Dmunmap=my_munmap -Dmadvise=my_madvise -Dmprotect=my_mprotect
// This header must be included FIRST in the reproducer (it undoes the renaming for itself).
#ifndef TRACK_H
#define TRACK_H
#undef mmap
#undef munmap
#undef madvise
#undef mprotect
#define _GNU_SOURCE 1
#include <sys/mman.h>
#include <stdint.h>
#include <stddef.h>
#include <stdio.h>
#include <stdlib.h>
#include <string.h>
#include <errno.h>
#include <unistd.h>
#include <pthread.h>

#define TRK_MAX 4096
typedef struct { uintptr_t s, e; } trk_rg_t;      // [s,e)
static trk_rg_t trk_rg[TRK_MAX];
static int trk_n;
static pthread_mutex_t trk_mu = PTHREAD_MUTEX_INITIALIZER;
static long trk_mmap_calls, trk_munmap_calls, trk_munmap_fail;
// failure injection: if >0 counts down and the call that reaches 0 fails
static volatile long trk_fail_mmap_at = 0;       // n-th next mmap fails with ENOMEM
static volatile long trk_fail_munmap = 0;
static volatile int  trk_verbose = 0;
static volatile int  trk_emulate_hugetlb = 0;  // if set, MAP_HUGETLB requests are served with normal pages (machine has no huge page pool)

static void trk_add(uintptr_t s, uintptr_t e) {
  if (trk_n >= TRK_MAX) { fprintf(stderr, "trk: table full\n"); abort(); }
  trk_rg[trk_n].s = s; trk_rg[trk_n].e = e; trk_n++;
}
static void trk_remove(uintptr_t s, uintptr_t e) {
  for (int i = 0; i < trk_n; i++) {
    trk_rg_t r = trk_rg[i];
    if (r.e <= s || r.s >= e) continue;
    // overlap
    trk_rg[i] = trk_rg[--trk_n]; i--;
    if (r.s < s) trk_add(r.s, s);
    if (r.e > e) trk_add(e, r.e);
  }
}

void* my_mmap(void* addr, size_t len, int prot, int flags, int fd, off_t off) {
  if (trk_fail_mmap_at > 0) { if (--trk_fail_mmap_at == 0) { errno = ENOMEM; return MAP_FAILED; } }
  if (trk_emulate_hugetlb && (flags & MAP_HUGETLB)) { flags &= ~(MAP_HUGETLB | (0x3f << 26)); flags |= MAP_NORESERVE; }
  void* p = mmap(addr, len, prot, flags, fd, off);
  if (p != MAP_FAILED) {
    pthread_mutex_lock(&trk_mu);
    trk_mmap_calls++;
    uintptr_t s = (uintptr_t)p, e = s + ((len + 4095) & ~(size_t)4095);
    trk_remove(s, e);
    trk_add(s, e);
    pthread_mutex_unlock(&trk_mu);
    if (trk_verbose) fprintf(stderr, "  mmap(%p,%zu KiB,prot=%d) = %p\n", addr, len/1024, prot, p);
  }
  return p;
}
int my_munmap(void* addr, size_t len) {
  int r = munmap(addr, len);
  pthread_mutex_lock(&trk_mu);
  trk_munmap_calls++;
  if (r == 0) { uintptr_t s = (uintptr_t)addr; trk_remove(s, s + ((len + 4095) & ~(size_t)4095)); }
  else trk_munmap_fail++;
  pthread_mutex_unlock(&trk_mu);
  if (trk_verbose) fprintf(stderr, "  munmap(%p,%zu KiB) = %d\n", addr, len/1024, r);
  return r;
}
int my_madvise(void* addr, size_t len, int advice) {
  int r = madvise(addr, len, advice);
  if (trk_verbose>1) fprintf(stderr, "  madvise(%p,%zu KiB,%d) = %d\n", addr, len/1024, advice, r);
  return r;
}
int my_mprotect(void* addr, size_t len, int prot) {
  int r = mprotect(addr, len, prot);
  if (trk_verbose>1) fprintf(stderr, "  mprotect(%p,%zu KiB,%d) = %d\n", addr, len/1024, prot, r);
  return r;
}

// total bytes mapped through the allocator's mmap calls and not unmapped
static size_t trk_mapped(void) {
  size_t t = 0;
  pthread_mutex_lock(&trk_mu);
  for (int i = 0; i < trk_n; i++) t += trk_rg[i].e - trk_rg[i].s;
  pthread_mutex_unlock(&trk_mu);
  return t;
}
// mapped bytes outside [xs,xe) ranges given (e.g. arenas)
static size_t trk_mapped_outside(const uintptr_t* xs, const uintptr_t* xe, int nx) {
  size_t t = 0;
  pthread_mutex_lock(&trk_mu);
  for (int i = 0; i < trk_n; i++) {
    uintptr_t s = trk_rg[i].s, e = trk_rg[i].e;
    size_t len = e - s;
    for (int k = 0; k < nx; k++) {
      uintptr_t a = s > xs[k] ? s : xs[k], b = e < xe[k] ? e : xe[k];
      if (a < b) len -= (b - a);
    }
    t += len;
  }
  pthread_mutex_unlock(&trk_mu);
  return t;
}
// resident bytes (mincore) in all tracked regions
static size_t trk_resident(void) {
  static unsigned char vec[(1UL<<30)/4096];
  size_t t = 0;
  pthread_mutex_lock(&trk_mu);
  for (int i = 0; i < trk_n; i++) {
    uintptr_t s = trk_rg[i].s;
    while (s < trk_rg[i].e) {
      size_t len = trk_rg[i].e - s; if (len > (1UL<<30)) len = (1UL<<30);
      if (mincore((void*)s, len, vec) == 0) {
        size_t np = len/4096; for (size_t k = 0; k < np; k++) if (vec[k]&1) t += 4096;
      }
      s += len;
    }
  }
  pthread_mutex_unlock(&trk_mu);
  return t;
}
static void trk_dump(const char* msg) {
  pthread_mutex_lock(&trk_mu);
  fprintf(stderr, "%s: %d regions\n", msg, trk_n);
  for (int i = 0; i < trk_n; i++) fprintf(stderr, "   %p .. %p  (%zu KiB)\n", (void*)trk_rg[i].s, (void*)trk_rg[i].e, (trk_rg[i].e-trk_rg[i].s)/1024);
  pthread_mutex_unlock(&trk_mu);
}
#endif
