// C17 repro4 (debug builds only, minor): a second free through the sized free functions aborts on an assertion
//            *before* any double-free detection, although an error callback is registered (nothing is reported to it).
//
// build:  gcc -O1 -g -DMI_DEBUG=3 -I/tmp/wt6/C17/include repro4.c /tmp/wt6/C17/src/static.c -o repro4 -lpthread
//         (same with -DMI_DEBUG=1 or -DMI_DEBUG=2; the secure build -DMI_SECURE=4 -DNDEBUG passes)
//
//   keep = mi_malloc(100); p = mi_malloc(100);      // same page, keep stays live
//   mi_free_size(p,100);                            // first free; debug builds fill the whole block (incl. its padding
//                                                   // canary) with MI_DEBUG_FREED           [free.c:37-41]
//   mi_free_size(p,100);                            // second free: expected EAGAIN via the callback, free ignored
//
// Observed: mi_free_size first evaluates  mi_assert(size <= _mi_usable_size(p))  [free.c:351].  For the freed block the
//   padding no longer decodes, so MI_DEBUG>=2 dies in mi_page_usable_size_of: mi_assert_internal(ok) [free.c:443] and
//   MI_DEBUG=1 gets usable size 0 and dies on the mi_free_size assertion itself.  mi_free (which would report EAGAIN)
//   is never reached.  The same holds for mi_free_size_aligned and for the C++ sized operator delete wrappers that
//   call mi_free_size.
//
// exit 0 = property holds; abort (SIGABRT) = violated.
#include <mimalloc.h>
#include <stdio.h>
#include <errno.h>

static int n_eagain, n_other;
static void on_err(int err, void* arg) { (void)arg; if (err == EAGAIN) n_eagain++; else n_other++; }

int main(void) {
  mi_register_error(on_err, NULL);
  void* keep = mi_malloc(100);
  void* p = mi_malloc(100);
  mi_free_size(p, 100);
  mi_free_size(p, 100);      // second free
  printf("EAGAIN=%d other=%d\n", n_eagain, n_other);
  mi_free(keep);
  if (n_eagain == 1) { printf("ok\n"); return 0; }
  printf("VIOLATION: double free not reported\n");
  return 1;
}
