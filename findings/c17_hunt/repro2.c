// C17 repro2: second free of an over-aligned block is not recognised as a double free (no EAGAIN) and is NOT ignored:
//             the interior pointer is pushed on the page's free list and later handed out, overlapping two other blocks.
//
// build (secure):  gcc -O2 -DNDEBUG -DMI_SECURE=4 -I/tmp/wt6/C17/include repro2.c /tmp/wt6/C17/src/static.c -o repro2 -lpthread
// (also shows with -O1 -g -DMI_DEBUG=1; with MI_DEBUG>=2 internal assertions fire instead)
//
// Sequence (single thread, default options):
//   a = mi_malloc_aligned(100,256)  -> over-allocated block B (size class 384), a = B + adjust, page flag has_aligned := 1
//   mi_free(a)                      -> first (legal) free; the page becomes empty, _mi_page_retire() clears has_aligned but
//                                      keeps the page (it is the only page of its size class)            [page.c:463-491]
//   c = mi_malloc(370)              -> a live block in the same page (B itself stays on the local free list)
//   mi_free(a)                      -> SECOND free of a, its page holds the live block c.
//
// Expected by C17: EAGAIN reported, free ignored, no block handed out twice.
// Observed: mi_free() takes the fast path (flags.full_aligned==0) and treats the *interior* pointer `a` as a block start
//   [free.c:160-163]; mi_check_is_double_free() decodes the word at `a` instead of the link at B, so nothing is found;
//   the padding check looks at a+376 (inside the neighbour block) and reports a bogus EFAULT "buffer overflow";
//   then `a` is linked into page->local_free and page->used is decremented.  Later allocations return `a`,
//   which overlaps B (also returned) and the block after B.
//
// exit 0 = property holds, non-zero = violated.
#include <mimalloc.h>
#include <stdio.h>
#include <stdlib.h>
#include <stdint.h>
#include <string.h>
#include <errno.h>

static int n_eagain, n_efault, n_other;
static void on_err(int err, void* arg) { (void)arg; if (err == EAGAIN) n_eagain++; else if (err == EFAULT) n_efault++; else n_other++; }

#define SIZE   100
#define ALIGN  256
#define OVER   (SIZE + ALIGN - 1)   // what mi_heap_malloc_zero_aligned_at_overalloc requests (355 -> size class 384, which is not a multiple of 256)
#define CLS    370                  // plain size in the same size class (370+8 -> 384)
#define NB     400

int main(void) {
  mi_register_error(on_err, NULL);

  // get an over-aligned block whose pointer is not the block start (adjust > 0)
  void* tmp[64]; int nt = 0; uint8_t* a = NULL; size_t adjust = 0;
  for (int i = 0; i < 64 && a == NULL; i++) {
    uint8_t* p = mi_malloc_aligned(SIZE, ALIGN);
    size_t us = mi_usable_size(p);          // with padding: OVER - adjust
    if (us < OVER) { a = p; adjust = OVER - us; } else tmp[nt++] = p;
  }
  if (a == NULL) { printf("could not get an interior aligned pointer; inconclusive\n"); return 0; }
  for (int i = 0; i < nt; i++) mi_free(tmp[i]);
  printf("a=%p adjust=%zu (block start %p)\n", (void*)a, adjust, (void*)(a - adjust));

  mi_free(a);                               // first free: page is now completely free (and retired, not released)
  uint8_t* c = mi_malloc(CLS);              // live block in the same page
  memset(c, 0xCC, CLS);
  if (((uintptr_t)c >> 16) != ((uintptr_t)a >> 16)) { printf("note: c=%p not in the page of a\n", (void*)c); }
  if (c == a - adjust) { printf("block was reused; inconclusive\n"); return 0; }

  int e0 = n_eagain, f0 = n_efault;
  mi_free(a);                               // SECOND free of a
  printf("second free: EAGAIN=%d EFAULT=%d other=%d\n", n_eagain - e0, n_efault - f0, n_other);
  int bad = 0;
  if (n_eagain - e0 != 1) { printf("VIOLATION: double free not reported as EAGAIN\n"); bad = 1; }

  // the heap must stay usable: no overlapping blocks
  uint8_t* b[NB];
  for (int i = 0; i < NB; i++) { b[i] = mi_malloc(CLS); }
  for (int i = 0; i < NB; i++) {
    if (b[i] < c + CLS && c < b[i] + CLS) { printf("VIOLATION: block %p overlaps live block c=%p\n", (void*)b[i], (void*)c); bad = 1; }
    for (int j = i+1; j < NB; j++) {
      if (b[i] < b[j] + CLS && b[j] < b[i] + CLS) {
        printf("VIOLATION: live blocks overlap: %p and %p (size %d)%s\n", (void*)b[i], (void*)b[j], CLS,
               (b[i]==a || b[j]==a ? "  <- the doubly freed interior pointer was handed out" : ""));
        bad = 1;
      }
    }
  }
  if (!bad) printf("ok\n");
  return bad;
}
