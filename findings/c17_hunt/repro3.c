// C17 repro3: a thread-local second free of a block whose FIRST free came from another thread (and is still parked on
//             the heap's delayed-free list) is not detected (no EAGAIN) and not ignored; afterwards the heap is unusable:
//             draining the delayed list follows a garbage link (SIGSEGV/SIGBUS).
//
// build (secure):  gcc -O2 -DNDEBUG -DMI_SECURE=4 -I/tmp/wt6/C17/include repro3.c /tmp/wt6/C17/src/static.c -o repro3 -lpthread
// (same result with -O1 -g -DMI_DEBUG=1 and -DMI_DEBUG=3)
//
// Sequence:
//   main: allocates 16 blocks of 64 bytes in page P (15 stay live);  X = one of them
//   T2  : mi_free(X)       -> first free.  It is the first remote free in P (state MI_USE_DELAYED_FREE), so X is parked on
//                             heap->thread_delayed_free, link encoded with heap->keys; X is in NONE of P's three free lists.
//   main: mi_free(X)       -> SECOND free, thread local, P holds 15 live blocks.
//                             mi_check_is_double_free [free.c:383-409] only searches P->free / local_free / thread_free:
//                             not found -> X is pushed on P->local_free (link re-encoded with the page keys), P->used--.
//                             (expected by C17: EAGAIN reported and the free ignored)
//   main: mi_malloc(64)... -> X is handed out again (as Y) and the program stores its data in Y
//   main: mi_collect(false) (or the 100th generic malloc) drains the delayed list [page.c:321-344]: the first word of X
//                             no longer holds the heap-encoded link; it is decoded unchecked and followed -> SIGSEGV/SIGBUS.
//                             (If that word happened to decode to NULL, the live block Y would be freed silently and
//                              handed out a second time.)
//   With any argument the collect is done directly after the second free (no re-allocation): the double free is then
//   reported late (EAGAIN from inside the collect) but the garbage link is still followed right afterwards -> same crash.
//
// exit 0 = property holds, non-zero = violated.
#include <mimalloc.h>
#include <stdio.h>
#include <stdlib.h>
#include <stdint.h>
#include <string.h>
#include <errno.h>
#include <pthread.h>
#include <signal.h>
#include <unistd.h>

static void on_segv(int sig) {
  (void)sig;
  static const char msg[] = "VIOLATION: SIGSEGV/SIGBUS inside the allocator after the undetected double free (heap not usable)\n";
  if (write(1, msg, sizeof(msg)-1)) {}
  _exit(2);
}

static int n_eagain, n_efault, n_other;
static void on_err(int err, void* arg) { (void)arg; if (err == EAGAIN) n_eagain++; else if (err == EFAULT) n_efault++; else n_other++; }
static void* remote_free(void* p) { mi_free(p); return NULL; }

#define M 20000
static void* more[M];

int main(int argc, char** argv) {
  (void)argv;
  const int direct = (argc > 1);
  mi_register_error(on_err, NULL);
  setvbuf(stdout, NULL, _IONBF, 0);
  signal(SIGSEGV, on_segv); signal(SIGBUS, on_segv);

  void* blocks[16];
  for (int i = 0; i < 16; i++) { blocks[i] = mi_malloc(64); memset(blocks[i], 1, 64); }
  void* X = blocks[5];

  pthread_t t; pthread_create(&t, NULL, remote_free, X); pthread_join(t, NULL);   // first free (remote, parked)

  mi_free(X);                                                                     // second free (thread local)
  printf("after second free: EAGAIN=%d EFAULT=%d other=%d\n", n_eagain, n_efault, n_other);
  int bad = 0;
  if (n_eagain != 1) { printf("VIOLATION: second free not reported (EAGAIN=%d)\n", n_eagain); bad = 1; }

  if (direct) { mi_collect(false); printf("after collect: EAGAIN=%d EFAULT=%d other=%d\n", n_eagain, n_efault, n_other); }

  // allocate until X comes back
  int m = 0, first = -1;
  for (; m < M/2; m++) { more[m] = mi_malloc(64); memset(more[m], 2, 64); if (more[m] == X) { first = m; m++; break; } }
  if (first < 0) { printf("X not handed out again (second free was ignored)\n"); }
  else {
    printf("X handed out again as more[%d] (now a live block)\n", first);
    mi_collect(false);                 // drains heap->thread_delayed_free
    printf("after collect: EAGAIN=%d EFAULT=%d other=%d\n", n_eagain, n_efault, n_other);
    for (int k = 0; k < M/2 && m < M; k++, m++) {
      more[m] = mi_malloc(64);
      if (more[m] == X) { printf("VIOLATION: block %p handed out twice (more[%d] and more[%d] are both live)\n", X, first, m); bad = 1; break; }
    }
  }
  if (!bad) printf("ok\n");
  return bad;
}
