// C17 repro1: an overwritten link of the heap's *delayed free* list is followed, not reported.
//
// build (secure):  gcc -O2 -DNDEBUG -DMI_SECURE=4 -I/tmp/wt6/C17/include repro1.c /tmp/wt6/C17/src/static.c -o repro1 -lpthread
// build (debug):   gcc -O1 -g -DMI_DEBUG=1       -I/tmp/wt6/C17/include repro1.c /tmp/wt6/C17/src/static.c -o repro1d -lpthread
//
// Sequence:
//   main thread allocates a few 64-byte blocks (all stay live except one);
//   a second thread frees ONE of them.  The first remote free in a page finds the page in state MI_USE_DELAYED_FREE
//   (the initial state, and the state after every _mi_free_delayed_block), so the block is linked into
//   heap->thread_delayed_free with a link encoded with heap->keys   [free.c: mi_free_block_delayed_mt, line 229-240];
//   the program then overwrites the first word of that (freed) block -- the classic use-after-free write that
//   the encoded free lists are meant to catch;
//   the main thread then keeps allocating (the delayed list is drained on every 100th generic malloc and by every collect).
//
// Expected by property C17: the error callback is called with EFAULT, the link is not followed, the heap stays usable.
// Observed: page.c:_mi_heap_delayed_free_partial (line 329) decodes the forged link with mi_block_nextx -- no validation
//   at all -- and continues with the decoded garbage pointer: mi_block_nextx(garbage) / _mi_free_delayed_block(garbage)
//   -> wild read -> SIGSEGV.  No EFAULT is ever reported.
//
// usage: repro1            forged value 0x4141414141414141
//        repro1 <value>    other forged value (0 works as well)
//        repro1 control    same run without the overwrite (must exit 0)
// exit 0 = property holds, non-zero / signal = violated.
#include <mimalloc.h>
#include <stdio.h>
#include <stdlib.h>
#include <stdint.h>
#include <string.h>
#include <errno.h>
#include <signal.h>
#include <unistd.h>
#include <pthread.h>

static volatile int n_efault, n_other;
static void on_err(int err, void* arg) { (void)arg; if (err == EFAULT) n_efault++; else n_other++; }

static void on_segv(int sig) {
  (void)sig;
  static const char msg[] = "VIOLATION: SIGSEGV while the allocator followed the forged delayed-free link (no EFAULT reported)\n";
  if (write(2, msg, sizeof(msg)-1)) {}
  _exit(2);
}

static void* remote_free(void* p) { mi_free(p); return NULL; }

int main(int argc, char** argv) {
  const int control = (argc > 1 && strcmp(argv[1], "control") == 0);
  uintptr_t forged = (argc > 1 && !control ? (uintptr_t)strtoull(argv[1], NULL, 0) : (uintptr_t)0x4141414141414141ULL);
  signal(SIGSEGV, on_segv); signal(SIGBUS, on_segv);
  mi_register_error(on_err, NULL);

  void* blocks[16];
  for (int i = 0; i < 16; i++) { blocks[i] = mi_malloc(64); memset(blocks[i], 1, 64); }

  // another thread frees one block -> it is parked on heap->thread_delayed_free of the main heap
  void* victim = blocks[5];
  pthread_t t; pthread_create(&t, NULL, remote_free, victim); pthread_join(t, NULL);

  // the program writes through the dangling pointer: overwrite the link
  if (!control) { *(uintptr_t*)victim = forged; }

  // allocate again on the owning thread
  for (int i = 0; i < 3000; i++) {
    void* p = mi_malloc(i % 2 ? 64 : 70000);   // 70000: one block per page, so every such call takes the generic path
    if (p == NULL) { printf("alloc failed\n"); return 3; }
  }
  mi_collect(false);

  if (control) { printf("control run fine (efault=%d other=%d)\n", n_efault, n_other); return (n_efault + n_other == 0 ? 0 : 4); }
  if (n_efault >= 1) { printf("ok: corrupted link reported (EFAULT x%d), heap still usable\n", n_efault); return 0; }
  printf("VIOLATION: forged link neither reported nor crashed (efault=%d other=%d)\n", n_efault, n_other);
  return 1;
}
