// repro2: SECURE (-DMI_SECURE=4) and DEBUG (-DMI_DEBUG=3) builds abort on a legitimate mi_free of a block
// that was allocated by a (meanwhile terminated) thread in a heap with a non-zero heap tag.
//
//   gcc -O1 -g -DMI_SECURE=4 -I../include repro2.c ../src/static.c -o repro2 -lpthread     (or -DMI_DEBUG=3)
//
// exit 0: ok;  killed by SIGABRT (or non-zero): defect.
// (a release build (-O2 -DNDEBUG) does not abort: it silently adopts the tag-7 page into the tag-0 default heap.)
#include <mimalloc.h>
#include <pthread.h>
#include <stdio.h>
#define N 1000
static void* blocks[N];
static void* worker(void* arg) {
  (void)arg;
  mi_heap_t* h = mi_heap_new_ex(7 /* heap tag */, false /* allow_destroy */, 0 /* no arena */);
  for (int i = 0; i < N; i++) { blocks[i] = mi_heap_malloc(h, 200); }
  return NULL;    // the thread terminates; its blocks stay valid and are freed by the main thread
}
int main(void) {
  void* p = mi_malloc(10);        // (the main thread uses mimalloc itself)
  pthread_t t; pthread_create(&t, NULL, worker, NULL); pthread_join(t, NULL);
  for (int i = 0; i < N; i++) mi_free(blocks[i]);    // <- aborts in the first mi_free
  mi_free(p);
  mi_collect(true);
  printf("ok\n");
  return 0;
}
