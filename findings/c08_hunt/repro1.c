// repro1: blocks of a deleted tagged (or arena-bound) heap that are freed by another thread are lost
// for as long as the owning thread lives (here: the main thread, i.e. forever).
//
//   gcc -O2 -DNDEBUG -I../include repro1.c ../src/static.c -o repro1 -lpthread
//   ./repro1        -> heap created with mi_heap_new_ex(tag=1, allow_destroy=false, no arena)
//   ./repro1 arena  -> heap created with mi_heap_new_in_arena(<non exclusive arena>)
//   ./repro1 control-> heap created with mi_heap_new_ex(tag=0,...): same program, memory stays bounded (exit 0)
//
// Each round: create the heap, allocate 8 MB in it, allocate ONE long lived 150 KB block in the default heap,
// mi_heap_delete the heap (its blocks stay valid, as documented), let another thread free all 8 MB, mi_collect(true).
// Live memory grows by 150 KB per round (15 MB after 100 rounds) -- the process should stay far below 100 MB.
// exit 0: memory stays bounded;  exit 1: the remotely freed memory was not given back / reused.
#include <mimalloc.h>
#include <pthread.h>
#include <stdio.h>
#include <stdlib.h>
#include <string.h>

static long rss_kb(void) {
  FILE* f = fopen("/proc/self/statm", "r"); long vsz = 0, rss = 0;
  if (f) { if (fscanf(f, "%ld %ld", &vsz, &rss) != 2) rss = 0; fclose(f); }
  return rss * 4;
}

#define N  2000
#define SZ 4000
static void* blocks[N];
static void* freer(void* arg) { (void)arg; for (int i = 0; i < N; i++) mi_free(blocks[i]); return NULL; }

int main(int argc, char** argv) {
  const int rounds = 100;
  const int use_arena = (argc > 1 && strcmp(argv[1], "arena") == 0);
  const int tag = (argc > 1 && strcmp(argv[1], "control") == 0 ? 0 : 1);
  mi_arena_id_t arena = 0;
  if (use_arena && mi_reserve_os_memory_ex(1024UL*1024*1024, false, false, false /* not exclusive */, &arena) != 0) { printf("cannot reserve arena\n"); return 2; }
  static void* keep[100];
  for (int rd = 0; rd < rounds; rd++) {
    mi_heap_t* h = (use_arena ? mi_heap_new_in_arena(arena) : mi_heap_new_ex(tag /* 1, or 0 for the control run */, false /* allow_destroy */, 0 /* no arena */));
    if (h == NULL) { printf("cannot create heap\n"); return 2; }
    for (int i = 0; i < N; i++) { blocks[i] = mi_heap_malloc(h, SZ); if (!blocks[i]) { printf("out of memory in round %d\n", rd); return 1; } memset(blocks[i], 1, SZ); }
    keep[rd] = mi_malloc(150000); memset(keep[rd], 1, 150000);    // long lived block of the default heap
    mi_heap_delete(h);                                            // blocks stay valid
    pthread_t t; pthread_create(&t, NULL, freer, NULL); pthread_join(t, NULL);   // another thread frees all blocks of the heap
    mi_collect(true);                                             // the owner collects
    if (rd % 20 == 0 || rd == rounds-1) printf("round %3d: live = %5d KB, rss = %7ld KB\n", rd, (rd+1)*150, rss_kb());
  }
  long rss = rss_kb();
  if (rss > 200*1024) { printf("FAIL: rss is %ld MB for 15 MB of live blocks: the remotely freed blocks are lost\n", rss/1024); return 1; }
  printf("ok\n");
  return 0;
}
