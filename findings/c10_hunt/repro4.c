// C10 repro4: mi_heap_check_owned() rejects every pointer that is not 8-byte aligned ("only aligned pointers"), but
// mi_heap_malloc_aligned_at(heap, size, alignment, offset) with an offset that is not a multiple of 8 legitimately
// returns such pointers. For those live blocks mi_heap_check_owned(owner) is false (mi_heap_contains_block is true).
// exit 0 = property holds, 1 = violated.   (release build; debug builds abort earlier on such offsets: known)
#include <mimalloc.h>
#include <stdio.h>
#include <stdint.h>
#include <string.h>
int main(void) {
  mi_heap_t* H = mi_heap_new();
  int bad = 0, n = 0;
  size_t offs[] = { 1, 2, 4, 12, 20 };
  for (int k = 0; k < 5; k++) {
    void* p = mi_heap_malloc_aligned_at(H, 100, 16, offs[k]);
    if (p == NULL) continue;
    if (((uintptr_t)p + offs[k]) % 16 != 0) { printf("alignment contract broken\n"); return 2; }
    memset(p, 1, 100);
    bool c = mi_heap_contains_block(H, p), o = mi_heap_check_owned(H, p);
    printf("offset %2zu: p=%p contains_block=%d check_owned=%d\n", offs[k], p, c, o);
    n++; if (!c || !o) bad++;
    // after migration to the backing heap the same holds
  }
  void* q = mi_heap_malloc_aligned_at(H, 100, 16, 4);
  mi_heap_delete(H);
  if (q != NULL && !mi_heap_check_owned(mi_heap_get_backing(), q)) { printf("after delete: check_owned(backing)=0 contains_block(backing)=%d\n", mi_heap_contains_block(mi_heap_get_backing(), q)); bad++; }
  mi_free(q);
  if (bad) { printf("FAIL (%d of %d)\n", bad, n+1); return 1; }
  printf("ok\n"); return 0;
}
