// C10 repro1: with the option target_segments_per_thread set (MIMALLOC_TARGET_SEGMENTS_PER_THREAD / mi_option_set),
// a plain allocation can "force abandon" a segment. That abandons the pages of *every* heap of the thread that
// live in that segment, including pages of a destroyable heap created with mi_heap_new():
//  - mi_heap_contains_block / mi_heap_check_owned no longer attribute the (live, never migrated) block to its heap,
//  - mi_heap_destroy no longer releases those blocks (they stay allocated in an abandoned segment forever).
// exit 0 = property holds, 1 = violated.
#include <mimalloc.h>
#include <stdio.h>
#include <stdlib.h>
#include <string.h>

#define N   60000
#define SZ  1024

static size_t abandoned_blocks;
static bool visitor(const mi_heap_t* heap, const mi_heap_area_t* area, void* block, size_t bsize, void* arg) {
  (void)heap; (void)area; (void)bsize; (void)arg;
  if (block != NULL) abandoned_blocks++;
  return true;
}

int main(int argc, char** argv) {
  const int reduce  = (argc > 1 && argv[1][0]=='r');  // "reduce": use the public mi_collect_reduce() instead of the option
  const int control = (argc > 1 && !reduce);          // any other argument: do not set the option (control run, must pass)
  mi_option_set(mi_option_visit_abandoned, 1);   // only used to count what is left behind at the end
  mi_heap_t* H = mi_heap_new();
  static void* hp[N];
  static void* dp[N];
  // blocks of H and of the default heap, interleaved so both heaps have (full) pages in the same segments
  for (int i = 0; i < N; i++) {
    hp[i] = mi_heap_malloc(H, SZ);  memset(hp[i], 0x11, SZ);
    dp[i] = mi_malloc(SZ);          memset(dp[i], 0x22, SZ);
  }
  int bad0 = 0;
  for (int i = 0; i < N; i++) { if (!mi_heap_contains_block(H, hp[i]) || !mi_heap_check_owned(H, hp[i])) bad0++; }
  printf("before: %d of %d blocks of H not attributed to H\n", bad0, N);

  // now limit the number of segments per thread (a run-time option) and keep allocating from the default heap
  if (reduce) mi_collect_reduce(64*1024*1024);
  else if (!control) mi_option_set(mi_option_target_segments_per_thread, 2);
  static void* ep[N];
  for (int i = 0; i < N; i++) { ep[i] = mi_malloc(SZ); }

  int bad1 = 0, bad2 = 0;
  for (int i = 0; i < N; i++) {
    if (!mi_heap_contains_block(H, hp[i])) bad1++;
    if (!mi_heap_check_owned(H, hp[i])) bad2++;
  }
  printf("after : %d (contains_block) / %d (check_owned) of %d live blocks of H are no longer attributed to H\n", bad1, bad2, N);
  int corrupt = 0;
  for (int i = 0; i < N; i++) { if (((unsigned char*)hp[i])[SZ-1] != 0x11) corrupt++; }

  // free everything that is not in H; then destroy H: afterwards nothing should be left allocated by this program.
  for (int i = 0; i < N; i++) { mi_free(dp[i]); mi_free(ep[i]); }
  mi_heap_destroy(H);
  mi_collect(true);
  abandoned_blocks = 0;
  mi_abandoned_visit_blocks(mi_subproc_main(), -1, true, &visitor, NULL);
  size_t in_abandoned = abandoned_blocks;
  abandoned_blocks = 0;
  mi_heap_visit_blocks(mi_heap_get_backing(), true, &visitor, NULL);
  size_t in_backing = abandoned_blocks;
  // (the program itself holds no mimalloc block any more; the backing heap may hold a handful of internal blocks)
  printf("after mi_heap_destroy(H): %zu blocks of %d bytes still allocated in abandoned segments, %zu in the backing heap (leaked)\n", in_abandoned, SZ, in_backing);
  abandoned_blocks = (in_abandoned + in_backing > 100 ? in_abandoned + in_backing : 0);
  if (bad0 == 0 && (bad1 > 0 || bad2 > 0 || abandoned_blocks > 0 || corrupt > 0)) { printf("FAIL\n"); return 1; }
  printf("ok\n");
  return 0;
}
