// C10 repro3 (OS failure): mi_heap_new() in a thread whose thread-local metadata cannot be allocated (mmap fails)
// crashes with a NULL dereference instead of returning NULL.
// build: gcc -O2 -DNDEBUG -Dmmap=my_mmap -I../include repro3.c ../src/static.c -o repro3 -lpthread
// exit 0 = mi_heap_new returned NULL (or a usable heap); crash = violated.
#undef mmap
#include <sys/mman.h>
#include <errno.h>
#include <stddef.h>
#include <sys/types.h>
static __thread int fail_mmap;
void* my_mmap(void* addr, size_t len, int prot, int flags, int fd, off_t off) {
  if (fail_mmap) { errno = ENOMEM; return MAP_FAILED; }
  return mmap(addr, len, prot, flags, fd, off);
}
#include <mimalloc.h>
#include <stdio.h>
#include <pthread.h>
static void* worker(void* a) { (void)a;
  fail_mmap = 1;                    // the OS is out of memory while this thread starts using mimalloc
  mi_heap_t* h = mi_heap_new();     // must return NULL (documented: heaps are allocated with mi_malloc semantics)
  fail_mmap = 0;
  printf("mi_heap_new returned %p\n", (void*)h);
  if (h != NULL) { void* p = mi_heap_malloc(h, 10); mi_free(p); mi_heap_delete(h); }
  return NULL;
}
int main(void) {
  void* p = mi_malloc(10); mi_free(p);  // process is initialized
  pthread_t t; pthread_create(&t, NULL, worker, NULL); pthread_join(t, NULL);
  printf("ok\n"); return 0;
}
