// C10/C09: a heap created with mi_heap_new() (destroyable) adopts abandoned pages of a terminated thread when it needs a fresh
// segment; mi_heap_destroy then frees the still-live blocks of that terminated thread (they get overwritten by later allocations).
// build: gcc -O2 -DNDEBUG -I/repo/include c10_destroy_frees_adopted_blocks.c /repo/src/static.c -o c10 -lpthread ; exit 1 = defect present
#include <mimalloc.h>
#include <pthread.h>
#include <stdio.h>
#include <string.h>
#define N 2000
static void* blocks[N];
static void* worker(void* arg) { (void)arg; for (int i = 0; i < N; i++) { blocks[i] = mi_malloc(600); memset(blocks[i], 0x11, 600); } return NULL; }
int main(void) {
  mi_heap_t* h = mi_heap_new();
  pthread_t t; pthread_create(&t, NULL, worker, NULL); pthread_join(t, NULL);
  for (int i = 0; i < 3000; i++) { void* p = mi_heap_malloc(h, 20000); if (i%500==0) printf("i=%d contains=%d backing contains=%d\n", i, mi_heap_contains_block(h, blocks[0]), mi_heap_contains_block(mi_heap_get_backing(), blocks[0])); }
  mi_heap_destroy(h);
  void* q[4000]; for (int i = 0; i < 4000; i++) { q[i] = mi_malloc(600); memset(q[i], 0xFF, 600); }
  int bad=0; for (int i = 0; i < N; i++) { unsigned char* b = blocks[i]; for (int k=0;k<600;k++) if (b[k]!=0x11) { bad++; break; } }
  printf("overwritten live blocks of the terminated thread: %d\n", bad);
  return bad != 0;
}
