// C14 repro1: an arena whose block count is not a multiple of 64 cannot be allocated completely
// with requests of 3 or more blocks -- not even when it is completely free.
//
//   gcc -O2 -DNDEBUG -I/tmp/wt6/C14/include repro1.c /tmp/wt6/C14/src/static.c -o repro1 -lpthread
//
// exit 0: property holds; exit 1: violated. Deterministic (single threaded).
#include <stdio.h>
#include <stdlib.h>
#include <stdint.h>
#include <mimalloc.h>

#define BLOCK ((size_t)32 << 20)   // MI_ARENA_BLOCK_SIZE on 64-bit

// size that makes a huge segment of exactly `k` arena blocks
// (_mi_os_good_alloc_size rounds sizes >= 32MiB up to 4MiB, and the segment info takes another 64KiB)
static size_t size_of_blocks(size_t k) { return k * BLOCK - 4608 * 1024; }

static int failures = 0;

// allocate requests of `k` blocks from a heap bound to the arena until that fails; return the number of blocks obtained
static size_t fill(mi_heap_t* heap, size_t k, uint8_t* astart, size_t asize, void** ps, size_t* n) {
  *n = 0;
  for (;;) {
    uint8_t* p = (uint8_t*)mi_heap_malloc(heap, size_of_blocks(k));
    if (p == NULL) break;
    if (p < astart || p + size_of_blocks(k) > astart + asize) { printf("  block outside the arena: %p\n", (void*)p); failures++; }
    ps[(*n)++] = p;
  }
  return (*n) * k;
}

static void test_arena(size_t gib, size_t k) {
  mi_arena_id_t id;
  if (mi_reserve_os_memory_ex(gib << 30, false /* commit */, false /* large */, true /* exclusive */, &id) != 0) {
    printf("cannot reserve %zu GiB (skipped)\n", gib); return;
  }
  size_t asize; uint8_t* astart = (uint8_t*)mi_arena_area(id, &asize);
  const size_t nblocks = asize / BLOCK;
  mi_heap_t* heap = mi_heap_new_in_arena(id);
  static void* ps[1024]; size_t n;

  // 1. the arena is fine with single block requests: all blocks can be allocated
  size_t got1 = fill(heap, 1, astart, asize, ps, &n);
  for (size_t i = 0; i < n; i++) mi_free(ps[i]);
  mi_collect(true);

  // 2. everything is free again; now use requests of k blocks
  size_t gotk = fill(heap, k, astart, asize, ps, &n);
  const size_t expect = (nblocks / k) * k;
  printf("arena of %zu GiB (%zu blocks): single-block requests got %zu blocks; after freeing everything, %zu-block requests got %zu blocks (expected %zu)\n",
         gib, nblocks, got1, k, gotk, expect);
  if (got1 != nblocks) failures++;
  if (gotk != expect) {
    failures++;
    printf("  -> %zu blocks of a completely free arena cannot be allocated\n", expect - gotk);
  }
  for (size_t i = 0; i < n; i++) mi_free(ps[i]);
  mi_collect(true);
  // and a single block request still works (so it is not a leak, the free blocks are just not found)
  void* q = mi_heap_malloc(heap, size_of_blocks(1));
  if (q == NULL) { printf("  single block request fails too\n"); failures++; }
  mi_free(q);
}

int main(void) {
  mi_option_set(mi_option_purge_delay, 0);   // (not essential; keeps the memory use low)
  test_arena(1, 3);   // 32 blocks, 1 bitmap field : nothing can be allocated at all with 3-block requests
  test_arena(3, 3);   // 96 blocks, 2 bitmap fields: 22*3 = 66 of 96 blocks
  test_arena(3, 8);   // 96 blocks                 : 8 of 12 requests
  test_arena(4, 3);   // 128 blocks, 2 full fields : control, works (42*3 = 126 blocks)
  if (failures) { printf("FAIL: property C14 violated (%d)\n", failures); return 1; }
  printf("ok\n");
  return 0;
}
