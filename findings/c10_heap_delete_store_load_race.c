// C10 (F14): on the tree before the fix, roughly 1 run in 10 loses one remote free that races mi_heap_delete (store-load reordering in
// _mi_page_queue_append: the owner publishes page->xheap with a plain store and then loads xthread_free; x86 may reorder the two).
// Written by a sub-agent as the demonstration of a seeded change (its noise threshold is set to 0 here). Build: gcc -O2 -DNDEBUG -I/repo/include <this> /repo/src/static.c -lpthread ; run ~30 times.
// demo.c -- mutant 1 (patch.diff): a remote free that races with mi_heap_delete is lost.
//
// Each round:
//   - main creates NHEAPS heaps and allocates NBLOCKS blocks of BSIZE bytes from each; this
//     fills many pages completely (full pages sit in the heap's "full" queue and have the
//     MI_USE_DELAYED_FREE flag, so the first remote free into such a page is pushed on
//     heap->thread_delayed_free instead of page->xthread_free).
//   - NHELPERS helper threads together free exactly one block out of every page, walking the heaps from the
//     last one down to the first one, while main calls mi_heap_delete on the heaps from the
//     first one up to the last one. Somewhere in the middle the two walks cross, so some
//     heap is being deleted while blocks of its (full) pages are freed remotely.
//   - afterwards main frees all remaining blocks itself, collects, and walks the backing
//     heap: not a single block of size class BSIZE may be live any more.
// A block that is still reported live was freed by the helper but the free got lost.
//
// exit 0 = pass, exit 1 = lost frees detected (more than NOISE, see the end of main).
#include <mimalloc.h>
#include <pthread.h>
#include <stdatomic.h>
#include <stdio.h>
#include <stdlib.h>
#include <string.h>

#define BSIZE     1000          // size class 1024 -> 64 blocks per 64KiB page
#define NBLOCKS   (64*300)      // ~300 pages per heap
#define NHEAPS    8
#define NHELPERS  4
#define ROUNDS    25
#define NOISE     0            // lost frees tolerated per run (see the note at the end of main)

static void*  blocks[NHEAPS][NBLOCKS];
static void*  remote[NHEAPS][NBLOCKS];
static size_t nremote[NHEAPS];

static atomic_int go;       // round number the helpers may run
static atomic_int started;  // sum over the helpers of rounds started (a helper is on-cpu and about to free)
static atomic_int done;     // sum over the helpers of rounds finished
static atomic_int quit;

static void* helper(void* arg) {
  const size_t id = (size_t)arg;
  int round = 0;
  for (;;) {
    round++;
    while (atomic_load_explicit(&go, memory_order_acquire) < round) {
      if (atomic_load(&quit)) return NULL;
    }
    atomic_fetch_add_explicit(&started, 1, memory_order_acq_rel);
    for (size_t h = NHEAPS; h > 0; h--) {
      // free our share, in reverse order (pages appended last are hit first)
      for (size_t i = nremote[h-1]; i > 0; i--) {
        if ((i-1) % NHELPERS == id) mi_free(remote[h-1][i-1]);
      }
    }
    atomic_fetch_add_explicit(&done, 1, memory_order_acq_rel);
  }
}

typedef struct { size_t live; size_t bsize; } count_t;

static bool visitor(const mi_heap_t* heap, const mi_heap_area_t* area, void* block, size_t block_size, void* arg) {
  (void)heap; (void)area;
  count_t* c = (count_t*)arg;
  if (block != NULL && block_size == c->bsize) c->live++;
  return true;
}

int main(void) {
  pthread_t th[NHELPERS];
  for (size_t k = 0; k < NHELPERS; k++) pthread_create(&th[k], NULL, helper, (void*)k);
  size_t total_lost = 0;
  int    bad_rounds = 0;
  static mi_heap_t* heaps[NHEAPS];

  // real block size of our size class
  void* probe = mi_malloc(BSIZE);
  const size_t bsize = mi_usable_size(probe);
  mi_free(probe);
  mi_collect(true);

  for (int round = 1; round <= ROUNDS; round++) {
    for (size_t h = 0; h < NHEAPS; h++) {
      heaps[h] = mi_heap_new();
      for (size_t i = 0; i < NBLOCKS; i++) {
        blocks[h][i] = mi_heap_malloc(heaps[h], BSIZE);
        if (blocks[h][i] == NULL) { printf("out of memory\n"); return 2; }
        memset(blocks[h][i], 0x5a, BSIZE);
      }
      // pick one block per 64KiB page for the helper (first block seen of every page)
      nremote[h] = 0;
      uintptr_t lastpage = 0;
      for (size_t i = 0; i < NBLOCKS; i++) {
        uintptr_t pg = (uintptr_t)blocks[h][i] >> 16;
        if (pg != lastpage) { lastpage = pg; remote[h][nremote[h]++] = blocks[h][i]; blocks[h][i] = NULL; }
      }
    }

    // release the helper and delete the heaps concurrently
    atomic_store_explicit(&go, round, memory_order_release);
    while (atomic_load_explicit(&started, memory_order_acquire) < (round-1)*NHELPERS + 1) { /* spin until a helper is running */ }
    for (size_t h = 0; h < NHEAPS; h++) {
      mi_heap_delete(heaps[h]);
    }
    while (atomic_load_explicit(&done, memory_order_acquire) < round*NHELPERS) { /* spin */ }

    // all surviving blocks must still be intact and freeable
    for (size_t h = 0; h < NHEAPS; h++) {
      for (size_t i = 0; i < NBLOCKS; i++) {
        if (blocks[h][i] == NULL) continue;
        if (((unsigned char*)blocks[h][i])[BSIZE-1] != 0x5a) { printf("round %d: block content damaged\n", round); return 1; }
        mi_free(blocks[h][i]);
      }
    }
    mi_collect(true);

    count_t c = { 0, bsize };
    mi_heap_visit_blocks(mi_heap_get_backing(), true, &visitor, &c);
    if (c.live > total_lost) {
      bad_rounds++;
      if (bad_rounds <= 5) printf("round %d: %zu freed block(s) of size %zu still live after everything was freed\n", round, c.live - total_lost, bsize);
      total_lost = c.live;
    }
  }
  atomic_store(&quit, 1);
  for (size_t k = 0; k < NHELPERS; k++) pthread_join(th[k], NULL);
  // Note: the *unpatched* tree itself loses a remote free once in a while under this load (roughly 1 run in 12
  // loses 1..6 blocks, see notes.md: a pre-existing store/load ordering race in _mi_page_queue_append). The
  // mutant loses hundreds to thousands per run, so a small noise threshold separates the two cleanly.
  if (total_lost > NOISE) {
    printf("FAIL: %zu remote frees were lost in %d of %d rounds\n", total_lost, bad_rounds, ROUNDS);
    return 1;
  }
  if (total_lost > 0) {
    printf("PASS (but %zu remote free(s) lost in %d of %d rounds: below the noise threshold of %d, pre-existing upstream race)\n", total_lost, bad_rounds, ROUNDS, NOISE);
    return 0;
  }
  printf("PASS: no lost frees in %d rounds\n", ROUNDS);
  return 0;
}
