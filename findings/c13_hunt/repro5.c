// repro5: with `target_segments_per_thread > 0`, mi_heap_destroy does not free the blocks of the heap any more:
// when the thread is over its segment target, `mi_segments_try_abandon_to_target` force-abandons whole segments, i.e. it
// takes pages with live blocks away from the (destroyable) heap. A later mi_heap_destroy only frees the pages the heap
// still has, the abandoned pages (and their blocks) stay allocated forever: the memory of the "destroyed" heap leaks
// (about 190 MiB per round below, without bound).
//
// build: gcc -O2 -DNDEBUG -I/tmp/wt5/C13/include repro5.c /tmp/wt5/C13/src/static.c -o repro5 -lpthread
// run:   ./repro5        (target_segments_per_thread=2: fails)       ./repro5 0   (no target: passes)
// exit code 0 = all blocks of the destroyed heaps are gone, 1 = blocks of destroyed heaps are still allocated
#include <stdio.h>
#include <stdlib.h>
#include <string.h>
#include <mimalloc.h>

static size_t rss_mib(void) {
  FILE* f = fopen("/proc/self/statm", "r"); long a = 0, b = 0;
  if (f == NULL) return 0;
  if (fscanf(f, "%ld %ld", &a, &b) != 2) b = 0;
  fclose(f);
  return (size_t)b * 4096 / (1024*1024);
}

static size_t leaked_blocks = 0;
static bool visitor(const mi_heap_t* heap, const mi_heap_area_t* area, void* block, size_t block_size, void* arg) {
  (void)heap; (void)area; (void)arg; (void)block_size;
  if (block != NULL) leaked_blocks++;     // a block that is still allocated (the program itself holds no block at all at this point)
  return true;
}

int main(int argc, char** argv) {
  const long target = (argc > 1 ? atol(argv[1]) : 2);
  mi_option_set(mi_option_visit_abandoned, 1);           // (only to be able to count the leaked blocks below)
  mi_option_set(mi_option_target_segments_per_thread, target);
  mi_option_set(mi_option_purge_delay, 0);                // purge at once so the rss shows what is still in use
  for (int round = 0; round < 4; round++) {
    mi_heap_t* h = mi_heap_new();
    for (int i = 0; i < 200000; i++) {                    // ~200 MiB in blocks of 1 KiB, all in heap `h`
      void* p = mi_heap_malloc(h, 1024);
      if (p == NULL) return 2;
      memset(p, 1, 1024);
    }
    mi_heap_destroy(h);                                   // "frees all its still allocated blocks"
    mi_collect(true);
    leaked_blocks = 0;
    mi_abandoned_visit_blocks(mi_subproc_main(), -1, true, &visitor, NULL);   // blocks in abandoned segments..
    mi_heap_visit_blocks(mi_heap_get_backing(), true, &visitor, NULL);        // ..or re-adopted by the backing heap (by mi_collect(true) in the main thread)
    printf("target_segments_per_thread=%ld, round %d: after mi_heap_destroy: %zu blocks are still allocated, rss %zu MiB\n", target, round, leaked_blocks, rss_mib());
  }
  return (leaked_blocks == 0 ? 0 : 1);
}
