// repro2: with `disallow_arena_alloc=1` a heap that is bound to a specific arena (mi_heap_new_in_arena) cannot allocate
// anything (mi_heap_malloc returns NULL although its 256 MiB arena is empty). The option is documented as
// "1 = do not use arena's for allocation (except if using specific arena id's)" (mimalloc.h, options.c, doc/mimalloc-doc.h).
//
// build: gcc -O2 -DNDEBUG -I/tmp/wt5/C13/include repro2.c /tmp/wt5/C13/src/static.c -o repro2 -lpthread
// run:   ./repro2      (fails: exit code 1)      ./repro2 0   (arena allocation allowed: passes)
#include <stdio.h>
#include <stdlib.h>
#include <string.h>
#include <mimalloc.h>

int main(int argc, char** argv) {
  int failures = 0;
  mi_arena_id_t arena_id = 0;
  mi_option_set(mi_option_disallow_arena_alloc, (argc > 1 ? atol(argv[1]) : 1));
  if (mi_reserve_os_memory_ex(256*1024*1024, false /* commit */, false /* large */, true /* exclusive */, &arena_id) != 0) return 2;
  mi_heap_t* h = mi_heap_new_in_arena(arena_id);
  if (h == NULL) return 3;
  for (int i = 0; i < 3; i++) {
    void* p = mi_heap_malloc(h, 1000);
    printf("mi_heap_malloc(heap in arena %d, 1000) = %p\n", (int)arena_id, p);
    if (p == NULL) failures++; else { memset(p, 1, 1000); }
  }
  // the regular heap still works (from OS memory)
  void* q = mi_malloc(1000);
  printf("mi_malloc(1000) = %p\n", q);
  if (q == NULL) failures++;
  printf("%d failed allocations\n", failures);
  return (failures == 0 ? 0 : 1);
}
