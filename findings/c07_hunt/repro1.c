// C07 repro1: a thread whose thread-local mimalloc data could not be allocated (the OS refuses the
// `mmap`) crashes with a NULL dereference in mi_heap_new() (and mi_heap_get_backing(), mi_stats_merge(),
// mi_stats_reset(), mi_stats_print(), mi_thread_stats_print_out(), mi_collect_reduce(),
// mi_subproc_add_current_thread()) instead of reporting failure.
//
// build:  gcc -O2 -DNDEBUG -I/tmp/wt5/C07/include -Dmmap=my_mmap repro1.c /tmp/wt5/C07/src/static.c -o repro1 -lpthread
//         (same result with -O1 -g -DMI_DEBUG=3 and with -DMI_SECURE=4 instead of -DNDEBUG)
// usage:  ./repro1            tests mi_heap_new (exit 0 = property holds, signal/non-zero = violated)
//         ./repro1 <n>        n=0 mi_heap_new, 1 mi_heap_get_backing, 2 mi_stats_merge, 3 mi_stats_reset,
//                             4 mi_collect_reduce, 5 mi_subproc_add_current_thread, 6 mi_thread_stats_print_out
#define _GNU_SOURCE
#include <stdio.h>
#include <stdlib.h>
#include <string.h>
#include <errno.h>
#include <pthread.h>
#include <unistd.h>
#include <sys/mman.h>       // with -Dmmap=my_mmap this declares `my_mmap`
#include <sys/syscall.h>
#include "mimalloc.h"

static volatile int refuse_mmap = 0;   // while set, every mmap of mimalloc is refused with ENOMEM
static volatile long refused = 0;

void* my_mmap(void* addr, size_t len, int prot, int flags, int fd, off_t off) {
  if (refuse_mmap) { refused++; errno = ENOMEM; return MAP_FAILED; }
  return (void*)syscall(SYS_mmap, addr, len, prot, flags, fd, off);
}

static int which = 0;
static int norefuse = 0;               // ./repro1 <n> norefuse : control run without refusals (must exit 0)
static void noout(const char* msg, void* arg) { (void)msg; (void)arg; }

static void* worker(void* arg) {
  (void)arg;
  // first use of mimalloc in this thread while the OS refuses to map memory
  void* p = mi_malloc(100);
  if (p != NULL && norefuse) { mi_free(p); p = NULL; }
  if (p != NULL) { fprintf(stderr, "unexpected: mi_malloc succeeded while mmap is refused\n"); mi_free(p); return (void*)2; }
  // each of the following is a legitimate call; none may crash. mi_heap_new must return NULL (or a usable heap).
  mi_heap_t* h = NULL;
  switch (which) {
    case 0: h = mi_heap_new(); break;
    case 1: h = mi_heap_get_backing(); h = NULL; break;
    case 2: mi_stats_merge(); break;
    case 3: mi_stats_reset(); break;
    case 4: mi_collect_reduce(64*1024*1024UL*8); break;
    case 5: mi_subproc_add_current_thread(mi_subproc_main()); break;
    case 6: mi_thread_stats_print_out(&noout, NULL); break;
  }
  if (h != NULL) {   // if a heap is handed out it has to work once the OS grants again
    refuse_mmap = 0;
    void* q = mi_heap_malloc(h, 100);
    if (q == NULL) return (void*)3;
    memset(q, 1, 100); mi_free(q); mi_heap_delete(h);
  }
  // the OS grants requests again: the thread must be fully usable
  refuse_mmap = 0;
  void* q = mi_malloc(100);
  if (q == NULL) { fprintf(stderr, "mi_malloc still fails although the OS grants again\n"); return (void*)4; }
  memset(q, 2, 100); mi_free(q);
  return NULL;
}

int main(int argc, char** argv) {
  if (argc > 1) which = atoi(argv[1]);
  void* p = mi_malloc(1000); mi_free(p);   // main thread is up and running
  if (argc > 2 && strcmp(argv[2],"norefuse")==0) norefuse = 1;
  refuse_mmap = !norefuse;
  pthread_t t; void* res = NULL;
  pthread_create(&t, NULL, &worker, NULL);   // (glibc maps the thread stack itself; that call is not intercepted)
  pthread_join(t, &res);
  refuse_mmap = 0;
  if (res != NULL) { printf("FAIL (%ld)\n", (long)res); return 1; }
  printf("ok (refused %ld mmap calls)\n", refused);
  return 0;
}
