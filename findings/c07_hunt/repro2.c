// C07 repro2 (debug builds only): when the OS refuses the `madvise(MADV_DONTNEED)` of a decommit (purge),
// a debug build aborts on `mi_assert_internal(err == 0)` in mi_os_decommit_ex (src/os.c:466) instead of
// proceeding without the purge (which is what the release build does, and what the code right below the
// assertion -- `return (err == 0)` -- is written for).
// (A real-world source of such refusals: MADV_DONTNEED fails with EINVAL on mlock'ed memory, e.g. after mlockall.)
//
// build:  gcc -O1 -g -DMI_DEBUG=3 -I/tmp/wt5/C07/include -Dmadvise=my_madvise repro2.c /tmp/wt5/C07/src/static.c -o repro2 -lpthread
//         (the release build `-O2 -DNDEBUG` passes; any build without NDEBUG, e.g. plain -DMI_SECURE=4, has MI_DEBUG=2 and aborts too)
// usage:  ./repro2 [k]     refuse the k-th madvise(MADV_DONTNEED) call (k=0,1,..; default 0); exit 0 = property holds
//         ./repro2 -1      control run without refusal (must exit 0)
#define _GNU_SOURCE
#include <stdio.h>
#include <stdlib.h>
#include <string.h>
#include <errno.h>
#include <unistd.h>
#include <sys/mman.h>        // with -Dmadvise=my_madvise this declares `my_madvise`
#include <sys/syscall.h>
#include "mimalloc.h"

static long fail_at = 0, calls = 0, refused = 0;

int my_madvise(void* addr, size_t len, int advice) {
  if (advice == MADV_DONTNEED && calls++ == fail_at) { refused++; errno = ENOMEM; return -1; }
  return (int)syscall(SYS_madvise, addr, len, advice);
}

int main(int argc, char** argv) {
  if (argc > 1) fail_at = atol(argv[1]);
  mi_option_set(mi_option_purge_delay, 0);        // purge immediately (the default delay of 10ms only postpones the same call)
  enum { N = 64 };
  unsigned char* p[N];
  for (int round = 0; round < 3; round++) {
    for (int i = 0; i < N; i++) { p[i] = (unsigned char*)mi_malloc(200000); if (p[i]) memset(p[i], i, 200000); }
    for (int i = 0; i < N; i++) {
      if (p[i] && (p[i][0] != (unsigned char)i || p[i][199999] != (unsigned char)i)) { printf("FAIL: block corrupted\n"); return 1; }
      mi_free(p[i]);                               // freeing the pages decommits their memory
    }
    mi_collect(true);
  }
  // the allocator must still be usable
  void* q = mi_malloc(300000);
  if (q == NULL) { printf("FAIL: allocation failed although the OS grants again\n"); return 1; }
  memset(q, 1, 300000); mi_free(q);
  printf("ok (%ld madvise(MADV_DONTNEED) calls, %ld refused)\n", calls, refused);
  return 0;
}
