// C07 repro3 (guarded build, -DMI_GUARDED=1): if the OS refuses the `mprotect` that removes the guard page of a
// guarded object when it is freed, mi_free ignores the refusal and puts the block back on the free list. The next
// allocation that gets this block is handed memory whose last OS page is still PROT_NONE: it faults as soon as the
// program (or mimalloc itself, for mi_zalloc) touches it -- although the OS grants every request again by then.
//
// build:  gcc -O2 -DNDEBUG -DMI_GUARDED=1 -I/tmp/wt5/C07/include -Dmprotect=my_mprotect repro3.c /tmp/wt5/C07/src/static.c -o repro3 -lpthread
// usage:  ./repro3         refuse the guard-page removals of one batch of frees; exit 0 = property holds, SIGSEGV = violated
//         ./repro3 zalloc  same, but the faulting access is inside mimalloc (mi_zalloc zeroes the reused block)
//         ./repro3 none    control run without refusals (must exit 0)
#define _GNU_SOURCE
#include <stdio.h>
#include <stdlib.h>
#include <string.h>
#include <errno.h>
#include <unistd.h>
#include <sys/mman.h>        // with -Dmprotect=my_mprotect this declares `my_mprotect`
#include <sys/syscall.h>
#include "mimalloc.h"

static volatile int refuse = 0;
static long refused = 0;

int my_mprotect(void* addr, size_t len, int prot) {
  if (refuse) { refused++; errno = ENOMEM; return -1; }
  return (int)syscall(SYS_mprotect, addr, len, prot);
}

int main(int argc, char** argv) {
  const int use_zalloc = (argc > 1 && strcmp(argv[1], "zalloc") == 0);
  const int control    = (argc > 1 && strcmp(argv[1], "none") == 0);
  mi_heap_t* heap = mi_heap_get_default();
  mi_heap_guarded_set_size_bound(heap, 0, 1 << 20);
  mi_heap_guarded_set_sample_rate(heap, 2, 1);       // every second object gets a guard page (a rate of 1 never samples in this version)

  enum { N = 16 };
  const size_t size = 5000;                          // -> blocks of 12 KiB whose last 4 KiB page is the guard page
  unsigned char* p[N];
  for (int i = 0; i < N; i++) { p[i] = (unsigned char*)mi_malloc(size); if (!p[i]) { printf("setup failed\n"); return 2; } memset(p[i], i, size); }

  // the OS refuses to change protections while these blocks are freed
  refuse = !control;
  for (int i = 0; i < N; i++) { mi_free(p[i]); }
  refuse = 0;

  // from here on the OS grants everything again; the allocator must be fully usable
  if (use_zalloc) {
    for (int i = 0; i < N; i++) {
      p[i] = (unsigned char*)mi_zalloc(size);       // (guarded again) mimalloc zeroes the whole reused block: faults
      if (p[i]) { memset(p[i], 1, size); }
    }
  }
  else {
    mi_heap_guarded_set_sample_rate(heap, 0, 0);    // no more guard pages: plain blocks of the same size class
    const size_t bsize = 12288;                    // = the block size used for the guarded objects above (5000 -> 5024 + guard page, page aligned)
    for (int i = 0; i < N; i++) {
      p[i] = (unsigned char*)mi_malloc(bsize);
      if (p[i]) { memset(p[i], 1, mi_usable_size(p[i])); }   // faults on the stale guard page at the end of the block
    }
  }
  for (int i = 0; i < N; i++) mi_free(p[i]);
  printf("ok (%ld mprotect calls refused)\n", refused);
  return 0;
}
