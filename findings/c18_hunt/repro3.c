// build: gcc -O2 -DNDEBUG -I/tmp/wt5/C18/include -Dclock_gettime=my_clock_gettime -Dmadvise=my_madvise repro3.c /tmp/wt5/C18/src/static.c -o repro3 -lpthread   (needs harness.h next to it; exits 0 = property holds, 1 = violated)
// C18 repro3: lowering purge_delay to 0 at run time (mi_option_set) strands all arena purges that were
// scheduled under the previous (positive) delay: they are never executed any more, not by later frees,
// not by mi_collect(false) and not even by mi_collect(true).
#include "harness.h"
#define N 700
static void* ps[N];
#define SEG(p) ((uintptr_t)(p) & ~(((uintptr_t)32<<20)-1))
int main(void) {
  const size_t bsize = 100*1024;
  mi_option_set(mi_option_purge_delay, 10);
  void* keep = mi_malloc(bsize);                        // keeps the first segment alive
  for (int i = 0; i < N; i++) { ps[i] = mi_malloc(bsize); memset(ps[i], 1, bsize); }
  for (int i = 0; i < N; i++) { mi_free(ps[i]); }       // free everything else
  mi_collect(false);                                    // whole segments go back to the arena; their purge is scheduled at now+100ms
  // only look at the blocks that were in segments that are now entirely free
  size_t total = 0, r0 = 0; for (int i = 0; i < N; i++) if (SEG(ps[i]) != SEG(keep)) { r0 += resident(ps[i], bsize); total += bsize; }
  mi_option_set(mi_option_purge_delay, 0);              // from now on: purge immediately
  for (int round = 0; round < 10; round++) {
    advance(1000);
    for (int k = 0; k < 1000; k++) { void* q = mi_malloc(16 + (k%40)*8); mi_free(q); }
    void* q = mi_malloc(bsize); mi_free(q);
    mi_collect(false);
  }
  size_t r1 = 0; for (int i = 0; i < N; i++) if (SEG(ps[i]) != SEG(keep)) r1 += resident(ps[i], bsize);
  mi_collect(true);
  size_t r2 = 0; for (int i = 0; i < N; i++) if (SEG(ps[i]) != SEG(keep)) r2 += resident(ps[i], bsize);
  printf("%zu KiB in whole free segments; resident after free %zu KiB; after 10s with purge_delay=0, activity and non-forced collects: %zu KiB; after mi_collect(true): %zu KiB\n",
         total/1024, r0/1024, r1/1024, r2/1024);
  mi_free(keep);
  if (r1 > total/10) { printf("FAIL\n"); return 1; }
  printf("ok\n"); return 0;
}
