// build: gcc -O2 -DNDEBUG -I/tmp/wt5/C18/include -Dclock_gettime=my_clock_gettime -Dmadvise=my_madvise2 repro5.c /tmp/wt5/C18/src/static.c -o repro5 -lpthread   (needs harness.h next to it; exits 0 = property holds, 1 = violated)
// C18 repro5 (two threads, two arenas): a purge that is scheduled in arena A while another thread is busy
// purging arena B (a later arena) is stranded: mi_arenas_try_purge resets the global `mi_arenas_purge_expire` to 0
// at the end of its walk, based on a stale look at A, and mi_arena_schedule_purge only arms the global expire
// when the arena's own expire was unset. Afterwards A has purge_expire != 0 but the global expire is 0, so every
// non-forced mi_arenas_try_purge returns early: the memory is only returned by mi_collect(true).
// The interleaving is made deterministic by pausing the purging thread inside its madvise call.
#include "harness.h"
#include <pthread.h>
#include <semaphore.h>
static sem_t sem_ready, sem_go, sem_done, sem_go2, sem_done2;
static volatile int pause_in_madvise = 0;
static pthread_t main_thread;
static mi_arena_id_t idA, idB;
static void* a; static const size_t asize = 4*1024*1024;

static void* worker(void* arg) {
  (void)arg;
  mi_heap_t* heapA = mi_heap_new_in_arena(idA);
  a = mi_heap_malloc(heapA, asize); memset(a, 1, asize);
  sem_post(&sem_ready);
  sem_wait(&sem_go);
  mi_free(a);                        // the only block: its page and segment become unused
  mi_heap_collect(heapA, false);     // segment goes back to arena A; purge scheduled in A
  sem_post(&sem_done);
  for (int round = 0; round < 10; round++) {
    sem_wait(&sem_go2);
    mi_heap_collect(heapA, false); mi_collect(false);
    sem_post(&sem_done2);
  }
  sem_wait(&sem_go);
  mi_heap_delete(heapA);
  return NULL;
}

// called from my_madvise (see harness.h) through the weak hook below
static void on_purge(void) {
  if (pause_in_madvise && pthread_equal(pthread_self(), main_thread)) {
    pause_in_madvise = 0;
    sem_post(&sem_go);      // let the worker free into arena A now
    sem_wait(&sem_done);
  }
}

#undef madvise
int my_madvise2(void* addr, size_t size, int advice) {
  if (advice == MADV_DONTNEED || advice == MADV_FREE) on_purge();
  return my_madvise(addr, size, advice);
}

int main(int argc, char** argv) {
  const bool control = (argc > 1);   // any argument: control run without the interleaving (worker frees after the purge finished)
  main_thread = pthread_self();
  sem_init(&sem_ready,0,0); sem_init(&sem_go,0,0); sem_init(&sem_done,0,0); sem_init(&sem_go2,0,0); sem_init(&sem_done2,0,0);
  mi_option_set(mi_option_purge_delay, 10);   // default; arena delay = 10*10 = 100ms
  if (mi_reserve_os_memory_ex(256*1024*1024, false, false, true, &idA) != 0) return 2;   // arena A (lower index)
  if (mi_reserve_os_memory_ex(256*1024*1024, false, false, true, &idB) != 0) return 2;   // arena B
  mi_heap_t* heapB = mi_heap_new_in_arena(idB);
  pthread_t t; pthread_create(&t, NULL, worker, NULL);
  sem_wait(&sem_ready);

  void* b = mi_heap_malloc(heapB, asize); memset(b, 1, asize);
  mi_free(b);
  mi_heap_collect(heapB, false);      // segment goes back to arena B; purge scheduled at now+100
  advance(150);                       // B's purge has expired
  pause_in_madvise = (control ? 0 : 1);
  mi_heap_collect(heapB, false);      // purges B; while it is in madvise the worker frees into A
  if (control) { sem_post(&sem_go); sem_wait(&sem_done); }
  if (pause_in_madvise) { printf("unexpected: no purge happened in the main thread\n"); return 2; }
  size_t rb = resident(b, asize);

  // now let a lot of time pass with non-forced collects in both threads
  for (int round = 0; round < 10; round++) {
    advance(1000);
    mi_collect(false); mi_heap_collect(heapB, false);
    sem_post(&sem_go2); sem_wait(&sem_done2);
  }
  size_t r1 = resident(a, asize);
  mi_collect(true);
  size_t r2 = resident(a, asize);
  printf("block b (arena B): resident after its purge: %zu KiB;  block a (arena A, %zu KiB): resident 10s after it was freed: %zu KiB; after mi_collect(true): %zu KiB\n",
         rb/1024, asize/1024, r1/1024, r2/1024);
  sem_post(&sem_go); pthread_join(t, NULL);
  if (r1 > asize/10) { printf("FAIL\n"); return 1; }
  printf("ok\n"); return 0;
}
