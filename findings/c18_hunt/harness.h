// Common test harness: virtual clock + OS call logging. Include ONCE in the reproducer.
// Build with: -Dclock_gettime=my_clock_gettime -Dmadvise=my_madvise
#define _GNU_SOURCE
#include <stdio.h>
#include <stdlib.h>
#include <string.h>
#include <stdint.h>
#include <stdbool.h>
#include <unistd.h>
#include <sys/syscall.h>
#include <sys/mman.h>
#include <time.h>
#include <mimalloc.h>

#undef clock_gettime
#undef madvise

static volatile long long vclock_ms = 1000000;   // virtual time in milliseconds
static volatile size_t n_madvise = 0;            // number of purge-like madvise calls
static volatile size_t bytes_madvise = 0;
static int h_verbose = 0;

int my_clock_gettime(clockid_t id, struct timespec* t) {
  (void)id;
  t->tv_sec  = vclock_ms / 1000;
  t->tv_nsec = (vclock_ms % 1000) * 1000000;
  return 0;
}

int my_madvise(void* addr, size_t size, int advice) {
  if (advice == MADV_DONTNEED || advice == MADV_FREE) {
    n_madvise++; bytes_madvise += size;
    if (h_verbose) fprintf(stderr, "  [t=%lld] madvise(%p, %zu KiB, %s)\n", vclock_ms, addr, size/1024, advice==MADV_DONTNEED?"DONTNEED":"FREE");
    // always really drop the pages so that mincore() shows the effect, also for MADV_FREE
    return (int)syscall(SYS_madvise, addr, size, MADV_DONTNEED);
  }
  return (int)syscall(SYS_madvise, addr, size, advice);
}

static void advance(long ms) { vclock_ms += ms; }

// resident bytes in the OS pages fully inside [p,p+size)
static size_t resident(void* p, size_t size) {
  const size_t ps = 4096;
  uintptr_t s = ((uintptr_t)p + ps - 1) & ~(ps-1);
  uintptr_t e = ((uintptr_t)p + size) & ~(ps-1);
  if (e <= s) return 0;
  size_t n = (e - s)/ps;
  unsigned char* vec = (unsigned char*)mmap(NULL, n, PROT_READ|PROT_WRITE, MAP_PRIVATE|MAP_ANONYMOUS, -1, 0);
  size_t r = 0;
  if (mincore((void*)s, e - s, vec) == 0) { for (size_t i = 0; i < n; i++) if (vec[i] & 1) r += ps; }
  else { // range may contain unmapped parts: go page by page
    for (size_t i = 0; i < n; i++) { unsigned char v; if (mincore((void*)(s+i*ps), ps, &v)==0 && (v&1)) r += ps; }
  }
  munmap(vec, n);
  return r;
}
