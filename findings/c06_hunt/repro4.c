// C06 repro4 (debug build only): sizes in (MI_MAX_ALLOC_SIZE - ~4 MiB, MI_MAX_ALLOC_SIZE] pass the size check in
// mi_find_page (req_size <= MI_MAX_ALLOC_SIZE) but, after _mi_os_good_alloc_size rounds them up and the segment info
// slices are added, need more than UINT32_MAX slices -- the very thing MI_MAX_ALLOC_SIZE was introduced to prevent
// (issue #877).  A -DMI_DEBUG=3 build aborts in mi_segment_alloc (assertion `segment_slices <= UINT32_MAX`) instead of
// returning NULL; a release build carries on with a slice count that no longer fits the 32-bit `slice_count` field and
// is only saved by the OS refusing a 256 TiB mapping.
//
// build: gcc -O1 -g -DMI_DEBUG=3 -I/tmp/wt6/C06/include repro4.c /tmp/wt6/C06/src/static.c -o repro4 -lpthread
// exit 0 = request failed cleanly, abort (SIGABRT) = violated
#include <mimalloc.h>
#include <stdio.h>
#include <stdint.h>
int main(void) {
  volatile size_t max_alloc = (size_t)65536 * ((size_t)UINT32_MAX - 1);   // MI_MAX_ALLOC_SIZE on 64-bit: 256 TiB - 128 KiB
  void* p = mi_malloc(max_alloc - 8);      // also: mi_zalloc, mi_realloc, mi_malloc_aligned(max_alloc - 8, 32 MiB) ...
  printf("mi_malloc(MI_MAX_ALLOC_SIZE - 8) -> %p\n", p);
  return (p != NULL);
}
