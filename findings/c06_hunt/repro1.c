// C06 repro1: a well-formed request of moderate size (100 MiB) fails although the OS refused nothing
// and the arena it must come from is almost empty.
//
// Any arena whose block count is not a multiple of 64 (i.e. whose size is not a multiple of 2 GiB -- this
// includes the default 1 GiB arena) cannot serve a request of 3 or more arena blocks (> ~64 MiB) from its
// last (partial) bitmap field.  For a heap that is bound to such an arena (mi_heap_new_in_arena), or when
// OS allocation is disallowed (mi_option_disallow_os_alloc / limit_os_alloc), the request fails with NULL.
//
// build: gcc -O2 -DNDEBUG -I/tmp/wt6/C06/include repro1.c /tmp/wt6/C06/src/static.c -o repro1 -lpthread
// exit 0 = property holds, 1 = violated
#include <mimalloc.h>
#include <stdio.h>
#include <stdint.h>
#include <string.h>

int main(void) {
  int bad = 0;
  // scenario A: heap bound to an exclusive 1 GiB arena
  mi_arena_id_t id;
  if (mi_reserve_os_memory_ex((size_t)1 << 30, false /*commit*/, false /*large*/, true /*exclusive*/, &id) != 0) {
    printf("could not reserve 1GiB of address space (OS refused) -- inconclusive\n"); return 0;
  }
  mi_heap_t* h = mi_heap_new_in_arena(id);
  void* p = mi_heap_malloc(h, (size_t)100 << 20);
  printf("A: mi_heap_malloc(arena heap, 100 MiB) in an empty 1 GiB arena -> %p\n", p);
  if (p == NULL) bad = 1; else { memset(p, 1, (size_t)100 << 20); }
  // show that the memory is there: the same arena serves 10 x 60 MiB (= 600 MiB) right away
  void* q[10]; int ok = 0;
  for (int i = 0; i < 10; i++) { q[i] = mi_heap_malloc(h, (size_t)60 << 20); if (q[i] != NULL) { ok++; ((char*)q[i])[0] = 1; } }
  printf("A: ... but %d of 10 requests of 60 MiB in the same heap succeeded\n", ok);
  for (int i = 0; i < 10; i++) mi_free(q[i]);
  void* p2 = mi_heap_malloc(h, (size_t)100 << 20);
  printf("A: mi_heap_malloc(arena heap, 100 MiB) again -> %p\n", p2);
  if (p2 == NULL) bad = 1;
  mi_free(p); mi_free(p2);
  mi_heap_delete(h);

  // scenario B: ordinary heap, memory reserved up front and further OS allocation disallowed
  if (mi_reserve_os_memory((size_t)1 << 30, false, false) == 0) {
    mi_option_set(mi_option_disallow_os_alloc, 1);
    void* r = mi_malloc((size_t)100 << 20);
    void* s = mi_malloc((size_t)60 << 20);
    printf("B: disallow_os_alloc with an empty 1 GiB reserved arena: mi_malloc(100 MiB) -> %p, mi_malloc(60 MiB) -> %p\n", r, s);
    if (r == NULL && s != NULL) bad = 1;
    mi_free(r); mi_free(s);
    mi_option_set(mi_option_disallow_os_alloc, 0);
  }
  printf(bad ? "VIOLATED\n" : "ok\n");
  return bad;
}
