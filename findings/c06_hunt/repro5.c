// C06 repro5: a well-formed, small request with an alignment above MI_BLOCK_ALIGNMENT_MAX (16 MiB), e.g.
// mi_heap_malloc_aligned(h, 1000, 32 MiB), always fails in a heap bound to an arena (mi_heap_new_in_arena) and in
// any heap once mi_option_disallow_os_alloc is set -- although the OS refused nothing and the arena is empty.
// _mi_arena_alloc_aligned never looks into the arenas when `alignment > MI_SEGMENT_ALIGN || align_offset > 0`
// (which is always the case for these "huge alignment" segments) and then returns NULL because OS allocation
// is not allowed for the heap.  An alignment of 16 MiB works, 32 MiB (== the arena block size and alignment) does not.
//
// build: gcc -O2 -DNDEBUG -I/tmp/wt6/C06/include repro5.c /tmp/wt6/C06/src/static.c -o repro5 -lpthread
// exit 0 = property holds, 1 = violated
#include <mimalloc.h>
#include <stdio.h>
#include <stdint.h>
int main(void) {
  mi_arena_id_t id;
  if (mi_reserve_os_memory_ex((size_t)4 << 30, false, false, true /*exclusive*/, &id) != 0) { printf("inconclusive: cannot reserve\n"); return 0; }
  mi_heap_t* h = mi_heap_new_in_arena(id);
  void* a = mi_heap_malloc_aligned(h, 1000, (size_t)16 << 20);
  void* b = mi_heap_malloc_aligned(h, 1000, (size_t)32 << 20);
  void* c = mi_heap_malloc_aligned(h, 1000, (size_t)64 << 20);
  void* d = mi_malloc_aligned(1000, (size_t)32 << 20);     // ordinary heap: fine
  printf("arena heap (empty 4 GiB arena): aligned 16MiB -> %p, 32MiB -> %p, 64MiB -> %p;  default heap 32MiB -> %p\n", a, b, c, d);
  int bad = (a != NULL && d != NULL && (b == NULL || c == NULL));
  mi_free(a); mi_free(b); mi_free(c); mi_free(d);
  mi_heap_delete(h);
  printf(bad ? "VIOLATED\n" : "ok\n");
  return bad;
}
