// C06 repro3: an over-sized request (size > PTRDIFF_MAX) to mi_malloc/mi_zalloc/mi_realloc/mi_new_nothrow ... does
// return NULL, but not "without any other effect on the heap": _mi_malloc_generic treats the rejected size like an
// out-of-memory condition, runs a *forced* mi_heap_collect and retries.  In the main thread the forced collect
// reclaims all abandoned segments into the main heap, so the set of blocks owned by the heap changes
// (mi_heap_visit_blocks / mi_heap_check_owned / mi_heap_contains_block give different answers before and after the
// failed call); the registered deferred-free function is run with force=true; and a registered error handler is
// invoked three times (EOVERFLOW, EOVERFLOW, ENOMEM) for the one request.
// (count*size overflow in mi_calloc/mi_mallocn/... and all mi_*_aligned functions return before any of this.)
//
// build: gcc -O2 -DNDEBUG -I/tmp/wt6/C06/include repro3.c /tmp/wt6/C06/src/static.c -o repro3 -lpthread
// exit 0 = property holds, 1 = violated
#include <mimalloc.h>
#include <stdio.h>
#include <stdint.h>
#include <string.h>
#include <pthread.h>

static void* keep[100];
static void* worker(void* a) { (void)a; for (int i = 0; i < 100; i++) { keep[i] = mi_malloc(200); memset(keep[i], i, 200); } return NULL; }

static size_t nblocks;
static bool visitor(const mi_heap_t* heap, const mi_heap_area_t* area, void* block, size_t block_size, void* arg) {
  (void)heap; (void)area; (void)block_size; (void)arg; if (block != NULL) nblocks++; return true;
}
static size_t count_blocks(void) { nblocks = 0; mi_heap_visit_blocks(mi_heap_get_default(), true, visitor, NULL); return nblocks; }

static int nerrors; static void on_error(int err, void* arg) { (void)arg; (void)err; nerrors++; }
static int nforced; static void deferred(bool force, unsigned long long hb, void* arg) { (void)hb; (void)arg; if (force) nforced++; }

int main(void) {
  void* mine = mi_malloc(200);
  pthread_t t; pthread_create(&t, NULL, worker, NULL); pthread_join(t, NULL);   // leaves 100 live blocks in abandoned pages
  mi_register_error(on_error, NULL);
  mi_register_deferred_free(deferred, NULL);

  size_t c0 = count_blocks(); bool own0 = mi_heap_check_owned(mi_heap_get_default(), keep[5]);
  volatile size_t big = (size_t)PTRDIFF_MAX + 1;
  void* p = mi_malloc(big);                                  // malformed: must fail and change nothing
  size_t c1 = count_blocks(); bool own1 = mi_heap_check_owned(mi_heap_get_default(), keep[5]);

  printf("mi_malloc(PTRDIFF_MAX+1) -> %p\n", p);
  printf("blocks in the main heap: before %zu, after %zu\n", c0, c1);
  printf("mi_heap_check_owned(main heap, block of the finished thread): before %d, after %d\n", own0, own1);
  printf("error handler calls for the one request: %d; deferred-free calls with force=true: %d\n", nerrors, nforced);
  int bad = (p != NULL || c0 != c1 || own0 != own1 || nforced != 0);
  for (int i = 0; i < 100; i++) mi_free(keep[i]);
  mi_free(mine);
  printf(bad ? "VIOLATED\n" : "ok\n");
  return bad;
}
