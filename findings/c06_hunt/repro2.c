// C06 repro2: the aligned re-allocation family accepts an alignment that is zero or not a power of two.
// Instead of failing cleanly (NULL, block untouched) it re-allocates (moves and frees) the block and returns a
// block that is not (and cannot be) aligned as requested.
//   mi_realloc_aligned / mi_rezalloc_aligned / mi_recalloc_aligned / mi_aligned_recalloc (+ _at / heap variants)
//   with alignment in {0, 3, 5, 6, 7}  (alignment <= sizeof(void*) is passed to plain realloc unchecked),
//   and with any non power of two (e.g. 24) when the new size still fits: the block is returned as "aligned".
// The allocating counterparts (mi_malloc_aligned, mi_zalloc_aligned, mi_calloc_aligned, mi_posix_memalign ...)
// reject the very same alignments.
//
// build: gcc -O2 -DNDEBUG -I/tmp/wt6/C06/include repro2.c /tmp/wt6/C06/src/static.c -o repro2 -lpthread
// (with -DMI_DEBUG=3: alignment 0 aborts on `mi_assert(alignment > 0)`, 3/5/6/7 behave as in release)
// exit 0 = property holds, 1 = violated
#include <mimalloc.h>
#include <stdio.h>
#include <stdint.h>
#include <string.h>

static volatile size_t vz = 0;
int main(void) {
  int bad = 0;
  size_t als[] = { 0, 3, 5, 6, 7, 24 };
  for (int i = 0; i < 6; i++) {
    size_t al = als[i] + vz;
#if defined(MI_DEBUG) && MI_DEBUG > 0
    if (al == 0) continue;  // aborts on mi_assert in debug builds
#endif
    // the allocation side refuses the alignment ...
    void* m = mi_malloc_aligned(100, al);
    if (m != NULL) { printf("mi_malloc_aligned(100,%zu) -> %p ??\n", al, m); bad = 1; mi_free(m); }
    // ... the re-allocation side does not
    void* p = mi_malloc(96); memset(p, 0x5a, 96);
    void* q = mi_realloc_aligned(p, 5000, al);
    printf("mi_realloc_aligned(p=%p (96 bytes), 5000, alignment=%zu) -> %p%s\n", p, al, q, (q != NULL ? "   (expected NULL)" : ""));
    if (q != NULL) { bad = 1; p = q; }
    void* r = mi_recalloc_aligned(p, 3, 4000, al);
    printf("mi_recalloc_aligned(p, 3, 4000, alignment=%zu) -> %p%s\n", al, r, (r != NULL ? "   (expected NULL)" : ""));
    if (r != NULL) { bad = 1; p = r; }
    void* s = mi_realloc_aligned(NULL, 64, al);
    printf("mi_realloc_aligned(NULL, 64, alignment=%zu) -> %p%s\n", al, s, (s != NULL ? "   (expected NULL)" : ""));
    if (s != NULL) { bad = 1; mi_free(s); }
    // a non power of two > 8: "succeeds" when the size still fits and the address happens to be a multiple
    if (al > 8) {
      void* t[6]; for (int k = 0; k < 6; k++) t[k] = mi_malloc(40);   // blocks are 40 apart (48 with padding): one of them is a multiple of 24
      for (int k = 0; k < 6; k++) {
        if ((uintptr_t)t[k] % al == 0) {
          void* u = mi_realloc_aligned(t[k], 36, al);
          printf("mi_realloc_aligned(t=%p (40 bytes), 36, alignment=%zu) -> %p%s\n", t[k], al, u, (u != NULL ? "   (expected NULL)" : ""));
          if (u != NULL) { bad = 1; t[k] = u; }
          break;
        }
      }
      for (int k = 0; k < 6; k++) mi_free(t[k]);
    }
    mi_free(p);
  }
  printf(bad ? "VIOLATED\n" : "ok\n");
  return bad;
}
