// C18: with more than one arena, memory freed into an arena whose purge is already pending is never purged without a forced collect
// once an earlier purge pass has reset the global expiry.   build: gcc -O2 -DNDEBUG -Dclock_gettime=my_clock_gettime -I include repro.c src/static.c -lpthread
// run with MIMALLOC_ARENA_RESERVE=64MiB
#define _GNU_SOURCE
#include <stdio.h>
#include <stdlib.h>
#include <string.h>
#include <time.h>
#include <sys/mman.h>
#include <unistd.h>
#include <mimalloc.h>
#undef clock_gettime
static long long g_off_ms = 0;
int my_clock_gettime(clockid_t id, struct timespec* ts) {
  int r = clock_gettime(id, ts);
  ts->tv_sec += g_off_ms / 1000; ts->tv_nsec += (g_off_ms % 1000) * 1000000L;
  if (ts->tv_nsec >= 1000000000L) { ts->tv_sec++; ts->tv_nsec -= 1000000000L; }
  return r;
}
static size_t resident(void* p, size_t n) {
  size_t ps = 4096; unsigned char* a = (unsigned char*)(((size_t)p + ps - 1) & ~(ps - 1)); size_t pages = (n - (a - (unsigned char*)p)) / ps;
  unsigned char* v = malloc(pages); if (mincore(a, pages * ps, v) != 0) { perror("mincore"); exit(2); }
  size_t c = 0; for (size_t i = 0; i < pages; i++) c += v[i] & 1; free(v); return c * ps;
}
static void activity(void) { for (int i = 0; i < 50; i++) { void* p = mi_malloc(100 + i * 37); void* q = mi_malloc(70000); mi_free(p); mi_free(q); } }
#define N 8
int main(void) {
  const size_t sz = 24u << 20;
  void* keep = mi_malloc(100); memset(keep, 7, 100);   // the program has long-lived data: its normal segment never becomes free
  void* h[N]; int ar[N];
  for (int i = 0; i < N; i++) { h[i] = mi_malloc(sz); memset(h[i], 1 + i, sz); }
  // which arena?
  for (int i = 0; i < N; i++) { ar[i] = -1; for (int id = 1; id < 16; id++) { size_t as = 0; char* a = mi_arena_area(id, &as); if (a && (char*)h[i] >= a && (char*)h[i] < a + as) ar[i] = id; } printf("h[%d]=%p arena %d\n", i, h[i], ar[i]); }
  // pick x in arena A, y and y2 in another arena B
  int x = -1, y = -1, y2 = -1, x2 = -1;
  for (int i = 0; i < N && y2 < 0; i++) for (int j = i + 1; j < N; j++) if (ar[i] == ar[j] && ar[i] > 0) { if (x < 0) { x = i; x2 = j; break; } else if (ar[i] != ar[x]) { y = i; y2 = j; break; } }
  if (y2 < 0) { printf("layout not as expected\n"); return 2; }
  printf("A: h[%d],h[%d]  B: h[%d],h[%d]\n", x, x2, y, y2);
  mi_free(h[x]);  g_off_ms += 60;        // t0:     A.expire = t0+100, global = t0+100
  mi_free(h[y]);  g_off_ms += 50;        // t0+60:  B.expire = t0+160
  mi_free(h[x2]); g_off_ms += 100;       // t0+110: pass purges A, B not yet expired, global expiry reset to 0
  mi_free(h[y2]);                        // t0+210: B.expire is still set -> global stays 0
  for (int k = 0; k < 20; k++) { g_off_ms += 1000; activity(); mi_collect(false); }
  size_t rx = resident(h[x], sz) + resident(h[x2], sz), ry = resident(h[y], sz) + resident(h[y2], sz);
  printf("20 s later, after ordinary activity and 20 non-forced collects: arena A blocks resident %zu KiB, arena B blocks resident %zu KiB\n", rx >> 10, ry >> 10);
  mi_collect(true);
  printf("after a forced collect: arena B blocks resident %zu KiB\n", (resident(h[y], sz) + resident(h[y2], sz)) >> 10);
  if (ry > (1u << 20)) { printf("FAIL: %zu MiB unused for 20 s (delay 100 ms) were only returned by a forced collect\n", ry >> 20); return 1; }
  printf("PASS\n"); return 0;
}
