// C15 side finding (variant of the already known defect (2), reached through arena-bound heaps instead of heap tags):
// two heaps bound to the same arena share a segment; deleting one of them with a live block and then freeing
// that block in the same thread crashes (NULL heap of the abandoned page in _mi_page_retire).
#include <stdio.h>
#include <mimalloc.h>
int main(void) {
  mi_arena_id_t aid;
  if (mi_reserve_os_memory_ex(128*1024*1024UL, false, false, true, &aid) != 0) return 2;
  mi_heap_t* h1 = mi_heap_new_in_arena(aid);
  mi_heap_t* h2 = mi_heap_new_in_arena(aid);
  void* p = mi_heap_malloc(h1, 100);
  void* q = mi_heap_malloc(h2, 100);
  mi_heap_delete(h1);       // documented: blocks of a deleted heap stay valid and can be freed later
  mi_free(p);               // crashes here
  mi_free(q);
  printf("ok\n");
  return 0;
}
