// C20 finding 5: MIMALLOC_GUARDED_MAX is ignored when MIMALLOC_GUARDED_MIN is larger than the built-in
// default of guarded_max (1GiB): initialising guarded_min calls mi_option_set(guarded_max, min) (options.c:279-280),
// which marks guarded_max as INITIALIZED before its own environment variable was ever looked at.
// Property clause: "Every option can be set through its MIMALLOC_<NAME> environment variable ... and read back".
// build: gcc -O2 -DNDEBUG -I/tmp/wt5/C20/include repro5.c /tmp/wt5/C20/src/static.c -o repro5 -lpthread
#include "repro_common.h"
int main(int argc, char** argv) {
  self_path = argv[0];
  if (argc >= 4 && strcmp(argv[1], "child") == 0) return child_main(argv);
  int bad = 0;
  bad += check_env("MIMALLOC_GUARDED_MAX", "3000000000", mi_option_guarded_max, 3000000000L, "alone: read back");
  setenv("MIMALLOC_GUARDED_MIN", "1000", 1);
  bad += check_env("MIMALLOC_GUARDED_MAX", "3000000000", mi_option_guarded_max, 3000000000L, "with GUARDED_MIN=1000 (consistent: min<=max)");
  setenv("MIMALLOC_GUARDED_MIN", "2000000000", 1);
  bad += check_env("MIMALLOC_GUARDED_MAX", "3000000000", mi_option_guarded_max, 3000000000L, "with GUARDED_MIN=2000000000 (consistent: min<=max)");
  printf("%d violation(s)\n", bad);
  return bad ? 1 : 0;
}
