// C20 finding 4: mi_stats_get(stats_size, stats) with 0 < stats_size < sizeof(int) writes 4 bytes
// (stats->version = MI_STAT_VERSION, stats.c:480) into a caller buffer of 1..3 bytes.
// Property clause: "no caller-supplied buffer size makes ... write outside its buffer".
// build: gcc -O2 -DNDEBUG -I/tmp/wt5/C20/include repro4.c /tmp/wt5/C20/src/static.c -o repro4 -lpthread
//   (with clang -fsanitize=address and a malloc(n) buffer the same call is reported as heap-buffer-overflow)
#include <mimalloc.h>
#include <mimalloc-stats.h>
#include <stdio.h>
#include <string.h>
int main(void) {
  int bad = 0;
  for (size_t n = 0; n <= 16; n++) {
    union { mi_stats_t s; unsigned char b[sizeof(mi_stats_t) + 64]; } u;   // suitably aligned
    memset(u.b, 0x55, sizeof(u.b));
    mi_stats_get(n, &u.s);
    size_t beyond = 0;
    for (size_t i = n; i < 64; i++) { if (u.b[i] != 0x55) beyond++; }
    if (beyond) { printf("VIOLATION mi_stats_get(%zu, buf) modified %zu byte(s) beyond the buffer\n", n, beyond); bad++; }
  }
  // the JSON variant honours every size
  for (size_t n = 1; n <= 20000; n++) {
    static char jb[20000 + 16];
    memset(jb, 0x55, sizeof(jb));
    char* r = mi_stats_get_json(n, jb);
    if (r != jb || memchr(jb, 0, n) == NULL) { printf("VIOLATION json n=%zu not terminated\n", n); bad++; break; }
    for (size_t i = n; i < n + 16; i++) if (jb[i] != 0x55) { printf("VIOLATION json n=%zu wrote beyond\n", n); bad++; n = 20000; break; }
  }
  printf("%d violation(s)\n", bad);
  return bad ? 1 : 0;
}
