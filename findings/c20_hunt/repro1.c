// C20 finding 1: malformed environment values are accepted as booleans because mi_option_init()
// tests  strstr("1;TRUE;YES;ON", value)  /  strstr("0;FALSE;NO;OFF", value)  (substring of the table,
// not membership), so "N", "E", ";", "S;O", "RUE", "A", "LSE;N" ... silently set the option to 1 or 0.
// Property clause: "a malformed value leaves the default in place".
// build: gcc -O2 -DNDEBUG -I/tmp/wt5/C20/include repro1.c /tmp/wt5/C20/src/static.c -o repro1 -lpthread
#include "repro_common.h"
int main(int argc, char** argv) {
  self_path = argv[0];
  if (argc >= 4 && strcmp(argv[1], "child") == 0) return child_main(argv);
  int bad = 0;
  // sanity: well-formed values work
  bad += check_env("MIMALLOC_PURGE_DELAY", "25",  mi_option_purge_delay, 25, "well-formed integer");
  bad += check_env("MIMALLOC_PURGE_DELAY", "off", mi_option_purge_delay, 0,  "well-formed boolean");
  bad += check_env("MIMALLOC_PURGE_DELAY", "maybe", mi_option_purge_delay, 10, "malformed -> default 10");
  // malformed values that must leave the default (purge_delay default = 10, eager_commit default = 1)
  bad += check_env("MIMALLOC_PURGE_DELAY", "N",    mi_option_purge_delay, 10, "malformed ('N' even means 'no') -> default 10");
  bad += check_env("MIMALLOC_PURGE_DELAY", "E",    mi_option_purge_delay, 10, "malformed -> default 10");
  bad += check_env("MIMALLOC_PURGE_DELAY", ";",    mi_option_purge_delay, 10, "malformed -> default 10");
  bad += check_env("MIMALLOC_PURGE_DELAY", "s;o",  mi_option_purge_delay, 10, "malformed -> default 10");
  bad += check_env("MIMALLOC_PURGE_DELAY", "rue;yes;on", mi_option_purge_delay, 10, "malformed -> default 10");
  bad += check_env("MIMALLOC_EAGER_COMMIT", "A",   mi_option_eager_commit, 1, "malformed -> default 1");
  bad += check_env("MIMALLOC_EAGER_COMMIT", "lse;n", mi_option_eager_commit, 1, "malformed -> default 1");
  bad += check_env("MIMALLOC_EAGER_COMMIT", "0;FALSE;NO;OFF", mi_option_eager_commit, 1, "malformed -> default 1");
  bad += check_env("MIMALLOC_ARENA_RESERVE", "E",  mi_option_arena_reserve, 1024L*1024L, "malformed size -> default 1GiB (in KiB)");
  // a size "suffix" without magnitude letter is accepted as well
  bad += check_env("MIMALLOC_ARENA_RESERVE", "1IB", mi_option_arena_reserve, 1024L*1024L, "malformed suffix -> default");
  printf("%d violation(s)\n", bad);
  return bad ? 1 : 0;
}
