// C20 finding 2: an environment value longer than 64 characters is silently cut to its first 64
// characters (char s[64+1] in mi_option_init + _mi_strlcpy in _mi_prim_getenv) and the *prefix* is parsed:
// a malformed long value is accepted, and a well-formed long value parses to a wrong number.
// Property clauses: "a malformed value leaves the default in place" / "parse to the documented value".
// build: gcc -O2 -DNDEBUG -I/tmp/wt5/C20/include repro2.c /tmp/wt5/C20/src/static.c -o repro2 -lpthread
#include "repro_common.h"
int main(int argc, char** argv) {
  self_path = argv[0];
  if (argc >= 4 && strcmp(argv[1], "child") == 0) return child_main(argv);
  int bad = 0;
  char v[256];
  // 64 zeros followed by garbage: malformed, purge_delay must stay at its default 10
  memset(v, '0', 64); strcpy(v + 64, "junk");
  bad += check_env("MIMALLOC_PURGE_DELAY", v, mi_option_purge_delay, 10, "malformed (digits then junk) -> default 10");
  // 64 digits followed by a size suffix on a non-size option: malformed (e.g. "5K" is rejected), must stay 10
  memset(v, '9', 64); strcpy(v + 64, "K");
  bad += check_env("MIMALLOC_PURGE_DELAY", v, mi_option_purge_delay, 10, "malformed (suffix on integer option) -> default 10");
  // short equivalents are (correctly) rejected:
  bad += check_env("MIMALLOC_PURGE_DELAY", "000junk", mi_option_purge_delay, 10, "short malformed -> default 10");
  bad += check_env("MIMALLOC_PURGE_DELAY", "999K", mi_option_purge_delay, 10, "short malformed -> default 10");
  // well-formed decimal with leading zeros: 64 zeros + "25" is 25 ("00025" parses as 25)
  bad += check_env("MIMALLOC_PURGE_DELAY", "00025", mi_option_purge_delay, 25, "well-formed short");
  memset(v, '0', 64); strcpy(v + 64, "25");
  bad += check_env("MIMALLOC_PURGE_DELAY", v, mi_option_purge_delay, 25, "well-formed long decimal = 25");
  // well-formed size whose suffix lies beyond the cut: 62 zeros + "1G" is fine, 63 zeros + "1G" becomes 1 byte (->1KiB)
  memset(v, '0', 62); strcpy(v + 62, "1G");
  bad += check_env("MIMALLOC_ARENA_RESERVE", v, mi_option_arena_reserve, 1024L*1024L, "1G (64 chars) = 1048576 KiB");
  memset(v, '0', 63); strcpy(v + 63, "1G");
  bad += check_env("MIMALLOC_ARENA_RESERVE", v, mi_option_arena_reserve, 1024L*1024L, "1G (65 chars) = 1048576 KiB");
  printf("%d violation(s)\n", bad);
  return bad ? 1 : 0;
}
