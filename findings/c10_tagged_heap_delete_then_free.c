// C10: mi_heap_delete of a heap that cannot be absorbed by the backing heap (different heap tag, or bound to an arena) abandons the heap's pages
// although the thread goes on living; a later mi_free of such a block BY THE SAME THREAD takes the local-free path and dereferences the page's heap, which is NULL.
// build: gcc -O2 -DNDEBUG -I include repro.c src/static.c -lpthread      run: ./a.out [tag|arena]
#include <stdio.h>
#include <string.h>
#include <mimalloc.h>
int main(int argc, char** argv) {
  int arena = (argc > 1 && strcmp(argv[1], "arena") == 0);
  mi_heap_t* h;
  if (arena) { mi_arena_id_t id; if (mi_reserve_os_memory_ex(64 * 1024 * 1024, 0, 0, 1, &id) != 0) { printf("no arena\n"); return 2; } h = mi_heap_new_in_arena(id); }
  else h = mi_heap_new_ex(3 /* tag */, 0 /* not destroyable */, 0 /* no arena */);
  enum { N = 2000 };
  static void* p[N];
  for (int i = 0; i < N; i++) { p[i] = mi_heap_malloc(h, 100); memset(p[i], i, 100); }
  mi_heap_delete(h);                      // the blocks must stay valid and individually freeable
  for (int i = 0; i < N; i++) { if (((unsigned char*)p[i])[7] != (unsigned char)i) { printf("FAIL: contents\n"); return 1; } }
  for (int i = 0; i < N; i++) mi_free(p[i]);
  void* q = mi_malloc(100); mi_free(q);
  printf("PASS\n");
  return 0;
}
