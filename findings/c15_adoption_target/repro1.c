// C15 repro1: an arena-bound heap that was created with allow_destroy=true
// (mi_heap_new_ex(tag, true, arena_id)) adopts abandoned segments of its exclusive arena,
// but hands the adopted pages to the thread's *backing* heap, which is not bound to the arena.
// The default heap (mi_malloc) then serves allocations from the exclusive arena.
// Single threaded. exit 0 = property holds, 1 = violated.
#include <stdio.h>
#include <stdlib.h>
#include <stdint.h>
#include <mimalloc.h>

static uint8_t* a_start; static size_t a_size;
static int in_arena(const void* p) { return ((uint8_t*)p >= a_start && (uint8_t*)p < a_start + a_size); }

int main(void) {
  mi_arena_id_t aid;
  if (mi_reserve_os_memory_ex(128*1024*1024UL, false, false, true /*exclusive*/, &aid) != 0) { printf("reserve failed\n"); return 2; }
  a_start = (uint8_t*)mi_arena_area(aid, &a_size);

  // sanity: default heap is outside the arena
  void* d0 = mi_malloc(100);
  if (in_arena(d0)) { printf("unexpected: first default block in arena\n"); return 2; }

  // 1. a heap bound to the exclusive arena allocates some blocks, and is deleted while the blocks are live:
  //    its pages (and so its segment) are abandoned (it is not compatible with the backing heap).
  mi_heap_t* h1 = mi_heap_new_in_arena(aid);
  void* keep[64];
  for (int i = 0; i < 64; i++) { keep[i] = mi_heap_malloc(h1, 100); if (!in_arena(keep[i])) { printf("bound heap outside arena?\n"); return 2; } }
  mi_heap_delete(h1);

  // 2. a second heap bound to the same exclusive arena, destroyable
  mi_heap_t* h2 = mi_heap_new_ex(0, true /* allow destroy */, aid);
  void* q = mi_heap_malloc(h2, 100);
  if (q != NULL && !in_arena(q)) { printf("VIOLATION: bound heap h2 returned %p outside its arena\n", q); return 1; }

  // 3. the default heap (not bound to any arena) must never get memory of the exclusive arena
  int bad = 0; void* first = NULL;
  for (int i = 0; i < 5000; i++) {
    void* p = mi_malloc(100);
    if (in_arena(p)) { if (!bad) first = p; bad++; }
  }
  if (bad) {
    printf("VIOLATION: %d blocks returned by mi_malloc (default heap) lie in the exclusive arena [%p,%p), first %p\n", bad, a_start, a_start + a_size, first);
    return 1;
  }
  printf("ok\n");
  (void)keep; (void)d0;
  return 0;
}
