// C15 repro3: a heap bound to an (exclusive) arena hands out memory OUTSIDE its arena.
//  A thread allocates from an unbound heap with tag 7 and terminates (its segment is abandoned, blocks still live).
//  The main thread owns a heap with tag 7 that is bound to an exclusive arena. When the main thread adopts the abandoned
//  segment (by mi_collect(true), by freeing one of the blocks, or simply by allocating in the default heap), the tag-7 pages are put into the
//  arena-bound heap because the receiving heap is chosen by tag only.
// exit 0 = property holds, 1 = violated.
#include <stdio.h>
#include <stdlib.h>
#include <stdint.h>
#include <pthread.h>
#include <mimalloc.h>

static uint8_t* a_start; static size_t a_size;
static int in_arena(const void* p) { return ((uint8_t*)p >= a_start && (uint8_t*)p < a_start + a_size); }

static void* blocks[64];
static void* worker(void* arg) {
  (void)arg;
  mi_heap_t* g7 = mi_heap_new_ex(7, false, 0 /* no arena */);
  for (int i = 0; i < 64; i++) blocks[i] = mi_heap_malloc(g7, 100);
  return NULL;  // thread exit: heap g7 is deleted, its pages are abandoned
}

int main(int argc, char** argv) {
  // mode 0 (default): adoption through mi_collect(true); mode 1: through mi_free of a block of the terminated thread
  // (option abandoned_reclaim_on_free enabled); mode 2: through ordinary allocation in the default heap that needs a fresh segment
  int mode = (argc > 1 ? atoi(argv[1]) : 0);
  if (mode == 1) mi_option_enable(mi_option_abandoned_reclaim_on_free);
  mi_arena_id_t aid;
  if (mi_reserve_os_memory_ex(128*1024*1024UL, false, false, true /*exclusive*/, &aid) != 0) { printf("reserve failed\n"); return 2; }
  a_start = (uint8_t*)mi_arena_area(aid, &a_size);

  mi_heap_t* t7 = mi_heap_new_ex(7, false, aid);   // tag 7, bound to the exclusive arena
  void* q = mi_heap_malloc(t7, 100);
  if (!in_arena(q)) { printf("VIOLATION(early): %p\n", q); return 1; }

  pthread_t th; pthread_create(&th, NULL, worker, NULL); pthread_join(th, NULL);
  for (int i = 0; i < 64; i++) if (in_arena(blocks[i])) { printf("VIOLATION: unbound heap of the worker got exclusive arena memory\n"); return 1; }

  if (mode == 0) mi_collect(true);
  else if (mode == 1) mi_free(blocks[0]);      // legit free of a block of a terminated thread
  else { for (int i = 0; i < 24; i++) { void* big = mi_malloc(3*1024*1024); if (in_arena(big)) { printf("VIOLATION: default heap got arena memory\n"); return 1; } } }

  int bad = 0; void* first = NULL;
  for (int i = 0; i < 5000; i++) {
    void* p = mi_heap_malloc(t7, 100);
    if (p != NULL && !in_arena(p)) { if (!bad) first = p; bad++; }
  }
  if (bad) {
    printf("VIOLATION: %d blocks returned by the arena-bound heap t7 lie outside its arena [%p,%p), first %p\n", bad, a_start, a_start + a_size, first);
    return 1;
  }
  printf("ok\n");
  return 0;
}
