// C15 repro2: adoption of abandoned pages picks the receiving heap by heap tag only and ignores the arena binding.
//  A segment of an exclusive arena that holds pages of a heap with tag 5 is adopted by a heap bound to that arena (tag 0);
//  the tag-5 pages are then put into the thread's other tag-5 heap, which is NOT bound to the arena, and that heap
//  starts to hand out memory of the exclusive arena.
// Single threaded. exit 0 = property holds, 1 = violated.
#include <stdio.h>
#include <stdlib.h>
#include <stdint.h>
#include <mimalloc.h>

static uint8_t* a_start; static size_t a_size;
static int in_arena(const void* p) { return ((uint8_t*)p >= a_start && (uint8_t*)p < a_start + a_size); }

int main(void) {
  mi_arena_id_t aid;
  if (mi_reserve_os_memory_ex(128*1024*1024UL, false, false, true /*exclusive*/, &aid) != 0) { printf("reserve failed\n"); return 2; }
  a_start = (uint8_t*)mi_arena_area(aid, &a_size);

  // heap with tag 5 bound to the exclusive arena; allocate and delete it while blocks are live => its segment is abandoned
  mi_heap_t* k = mi_heap_new_ex(5, false, aid);
  void* keep[64];
  for (int i = 0; i < 64; i++) { keep[i] = mi_heap_malloc(k, 100); if (!in_arena(keep[i])) { printf("bound heap outside arena?\n"); return 2; } }
  mi_heap_delete(k);

  // an unrelated heap with tag 5 that is not bound to any arena
  mi_heap_t* g = mi_heap_new_ex(5, false, 0 /* no arena */);
  void* g0 = mi_heap_malloc(g, 100);
  if (in_arena(g0)) { printf("VIOLATION(early): unbound heap got arena memory %p\n", g0); return 1; }

  // a heap with tag 0 bound to the exclusive arena: its first allocation adopts the abandoned segment
  mi_heap_t* h = mi_heap_new_in_arena(aid);
  void* q = mi_heap_malloc(h, 100);
  if (q != NULL && !in_arena(q)) { printf("VIOLATION: bound heap returned %p outside its arena\n", q); return 1; }

  int bad = 0; void* first = NULL;
  for (int i = 0; i < 5000; i++) {
    void* p = mi_heap_malloc(g, 100);
    if (in_arena(p)) { if (!bad) first = p; bad++; }
  }
  if (bad) {
    printf("VIOLATION: %d blocks returned by the unbound heap g (tag 5) lie in the exclusive arena [%p,%p), first %p\n", bad, a_start, a_start + a_size, first);
    return 1;
  }
  printf("ok\n");
  (void)keep;
  return 0;
}
