// C13: with purge-by-reset (purge_decommits=0), immediate purging (purge_delay=0) and lazily committed segments (eager_commit=0 on memory
// that is not committed yet: arena_eager_commit=0 or OS segments) a free in the debug build crashes: mi_segment_purge resets a whole free
// span when ANY part of it is committed, and the debug build's _mi_os_reset memsets the range -- including never committed slices.
// build: gcc -O1 -g -DMI_DEBUG=3 -I include repro.c src/static.c -lpthread
// run:   MIMALLOC_PURGE_DELAY=0 MIMALLOC_PURGE_DECOMMITS=0 MIMALLOC_EAGER_COMMIT=0 MIMALLOC_ARENA_EAGER_COMMIT=0 ./a.out
#include <stdio.h>
#include <string.h>
#include <mimalloc.h>
int main(void) {
  void* a = mi_malloc(100);            // keeps the segment alive
  void* p = mi_malloc(1 << 20);        // commits 1 MiB of the lazily committed segment
  memset(p, 1, 1 << 20);
  mi_free(p);                          // the freed span coalesces with the uncommitted rest of the segment and is purged (reset) at once
  mi_free(a);
  printf("PASS\n");
  return 0;
}
