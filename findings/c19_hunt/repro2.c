// C19 repro2: strndup(s, n) (forwarded to mi_strndup) reads s[n], one byte more than POSIX allows.
// A source array of exactly n readable bytes that ends at a page boundary makes the overriding strndup crash,
// while the libc strndup it replaces returns a copy.
//
// build (standard recipe; calls mi_strndup, which is what the `strndup` override forwards/aliases to):
//   gcc -O2 -DNDEBUG -I/tmp/wt6/C19/include repro2.c /tmp/wt6/C19/src/static.c -o repro2 -lpthread
// or, to go through the overridden standard name itself:
//   gcc -O2 -DNDEBUG -DMI_MALLOC_OVERRIDE -DUSE_STD_NAME -fno-builtin -I/tmp/wt6/C19/include repro2.c /tmp/wt6/C19/src/static.c -o repro2 -lpthread
// exit 0: property holds; exit 1: crash (SIGSEGV) inside strndup; exit 2: wrong result
#define _GNU_SOURCE
#include <stdio.h>
#include <stdlib.h>
#include <string.h>
#include <unistd.h>
#include <sys/mman.h>
#include <sys/wait.h>
#include <mimalloc.h>

#ifdef USE_STD_NAME
#define STRNDUP strndup
#define FREE    free
#else
#define STRNDUP mi_strndup
#define FREE    mi_free
#endif

int main(void) {
  const size_t ps = (size_t)sysconf(_SC_PAGESIZE);
  char* m = (char*)mmap(NULL, 2 * ps, PROT_READ | PROT_WRITE, MAP_PRIVATE | MAP_ANONYMOUS, -1, 0);
  if (m == MAP_FAILED) return 3;
  if (mprotect(m + ps, ps, PROT_NONE) != 0) return 3;   // the byte right after the array is not readable
  const size_t n = 16;
  char* s = m + ps - n;                                  // array of exactly n chars, not NUL terminated
  memcpy(s, "0123456789abcdef", n);

  void* warm = mi_malloc(8); mi_free(warm);              // initialise the allocator before forking
  fflush(stdout);
  pid_t pid = fork();
  if (pid == 0) {
    char* d = STRNDUP(s, n);                             // legal: reads at most n bytes
    if (d == NULL || strlen(d) != n || memcmp(d, s, n) != 0) _exit(2);
    FREE(d);
    d = STRNDUP(s + 4, n - 4);
    if (d == NULL || strlen(d) != n - 4 || memcmp(d, s + 4, n - 4) != 0) _exit(2);
    FREE(d);
    _exit(0);
  }
  int st = 0; waitpid(pid, &st, 0);
  if (WIFSIGNALED(st)) { printf("strndup(s,%zu) on an %zu-byte array at the end of a page: killed by signal %d -> C19 VIOLATED\n", n, n, WTERMSIG(st)); return 1; }
  if (WEXITSTATUS(st) != 0) { printf("strndup wrong result (%d)\n", WEXITSTATUS(st)); return 2; }
  printf("ok\n");
  return 0;
}
