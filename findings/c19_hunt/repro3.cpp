// C19 repro3: with the (C compiled) override the C++ new-handler protocol is broken:
//  (a) operator new never calls the handler installed with std::set_new_handler (it aborts instead), and
//  (b) with the static override object the program's own std::get_new_handler() is hijacked by mimalloc's
//      weak fallback definition of _ZSt15get_new_handlerv and returns NULL although a handler is installed.
//
// build (static override object, the way CMake builds mimalloc.o: C, -fvisibility=hidden):
//   gcc -O2 -DNDEBUG -DMI_MALLOC_OVERRIDE -fvisibility=hidden -I/tmp/wt6/C19/include -c /tmp/wt6/C19/src/static.c -o mi_override.o
//   g++ -O1 repro3.cpp mi_override.o -o repro3 -lpthread
// (same result without -fvisibility=hidden; and for (a) with LD_PRELOAD=libmimalloc.so on a plain `g++ repro3.cpp`)
// exit 0: ok; 1: get_new_handler() wrong; 2: handler not called by operator new (process aborted)
#include <new>
#include <cstdio>
#include <cstdlib>
#include <cstdint>
#include <unistd.h>
#include <sys/wait.h>

static void my_handler() {
  // a handler may terminate the program; tell the parent we were called
  _exit(42);
}

int main() {
  int rc = 0;
  std::set_new_handler(my_handler);
  std::new_handler cur = std::get_new_handler();
  printf("std::get_new_handler() after set_new_handler(my_handler): %p (expected %p)\n", (void*)cur, (void*)my_handler);
  if (cur != my_handler) rc = 1;
  fflush(stdout);

  pid_t pid = fork();
  if (pid == 0) {
    void* p = ::operator new(SIZE_MAX / 2 - 4096);   // cannot succeed: the standard requires the new-handler to be called
    _exit(p == nullptr ? 3 : 4);
  }
  int st = 0; waitpid(pid, &st, 0);
  if (WIFEXITED(st) && WEXITSTATUS(st) == 42) printf("operator new called the new-handler: ok\n");
  else {
    if (WIFSIGNALED(st)) printf("operator new did not call the installed new-handler: child killed by signal %d\n", WTERMSIG(st));
    else printf("operator new did not call the installed new-handler: child exit %d\n", WEXITSTATUS(st));
    if (rc == 0) rc = 2;
  }
  pid = fork();
  if (pid == 0) {
    void* p = ::operator new(SIZE_MAX / 2 - 4096, std::nothrow);   // nothrow form must also call the handler first
    _exit(p == nullptr ? 3 : 4);
  }
  st = 0; waitpid(pid, &st, 0);
  if (WIFEXITED(st) && WEXITSTATUS(st) == 42) printf("operator new(nothrow) called the new-handler: ok\n");
  else { printf("operator new(nothrow) did not call the installed new-handler (child status 0x%x)\n", st); if (rc == 0) rc = 2; }
  printf(rc ? "C19 VIOLATED\n" : "ok\n");
  return rc;
}
