// C19 repro1: static override object compiled as C99/gnu99 does not override aligned_alloc
// (while it does override memalign/posix_memalign/malloc/free/...). On glibc the program's
// aligned_alloc() is then served by glibc's own allocator, and free()/realloc()/malloc_usable_size()
// (all mimalloc) get a foreign pointer.
//
// build (note -std=gnu99 for the allocator; that is the only deviation from the standard recipe):
//   gcc -std=gnu99 -O2 -DNDEBUG -DMI_MALLOC_OVERRIDE -I/tmp/wt6/C19/include -c /tmp/wt6/C19/src/static.c -o mi_c99.o
//   gcc -O2 -I/tmp/wt6/C19/include repro1.c mi_c99.o -o repro1 -lpthread
// control (exits 0): same but compile static.c with -std=gnu11 (or no -std).
//
// exit 0: property holds.  exit 1: aligned_alloc memory is not mimalloc memory. exit 2/3: the children that
// free()/realloc() the block crashed or misbehaved.
#define _GNU_SOURCE
#include <stdio.h>
#include <stdlib.h>
#include <string.h>
#include <malloc.h>
#include <unistd.h>
#include <sys/wait.h>
#include <mimalloc.h>

int main(void) {
  int rc = 0;
  void* m = memalign(64, 200);
  void* a = aligned_alloc(64, 256);
  printf("memalign      -> %p in mimalloc heap: %d\n", m, (int)mi_is_in_heap_region(m));
  printf("aligned_alloc -> %p in mimalloc heap: %d\n", a, (int)mi_is_in_heap_region(a));
  if (!mi_is_in_heap_region(m)) { printf("memalign not served by mimalloc?\n"); return 4; }
  if (!mi_is_in_heap_region(a)) rc = 1;
  memset(a, 0x5A, 256);
  fflush(stdout);

  // query + release through the overridden entry points in a child (a crash is the expected symptom)
  pid_t pid = fork();
  if (pid == 0) {
    size_t us = malloc_usable_size(a);
    if (us < 256) { printf("child: malloc_usable_size(aligned_alloc block) = %zu < 256\n", us); fflush(stdout); _exit(9); }
    free(a);
    _exit(0);
  }
  int st = 0; waitpid(pid, &st, 0);
  if (WIFSIGNALED(st)) { printf("usable_size/free of aligned_alloc block: child killed by signal %d\n", WTERMSIG(st)); rc = (rc ? rc : 2); }
  else if (WEXITSTATUS(st) != 0) { printf("usable_size/free of aligned_alloc block: child exit %d\n", WEXITSTATUS(st)); rc = (rc ? rc : 2); }

  pid = fork();
  if (pid == 0) {
    unsigned char* q = (unsigned char*)realloc(a, 100000);
    if (q == NULL) _exit(8);
    for (int i = 0; i < 256; i++) if (q[i] != 0x5A) _exit(7);
    free(q);
    _exit(0);
  }
  st = 0; waitpid(pid, &st, 0);
  if (WIFSIGNALED(st)) { printf("realloc of aligned_alloc block: child killed by signal %d\n", WTERMSIG(st)); rc = (rc ? rc : 3); }
  else if (WEXITSTATUS(st) != 0) { printf("realloc of aligned_alloc block: child exit %d\n", WEXITSTATUS(st)); rc = (rc ? rc : 3); }

  free(m);
  printf(rc ? "C19 VIOLATED\n" : "ok\n");
  return rc;
}
