// C16 / finding 1: in builds with block padding (MI_PADDING: -DMI_DEBUG>=1 or -DMI_SECURE>=3) mi_good_size()
// returns the FULL block size including the internal padding instead of the size to request:
//   - it is not idempotent:  mi_good_size(mi_good_size(n)) > mi_good_size(n)   for every n
//   - it is not the size that `mi_malloc(n)` makes available, and requesting it is not "good" at all:
//     mi_malloc(mi_good_size(n)) lands in the NEXT size class (up to 25%..100% more memory than mi_malloc(n)).
// The release build (no padding) passes.
//
// build (fails):  gcc -O1 -g -DMI_DEBUG=3 -I../include repro1.c ../src/static.c -o repro1 -lpthread
//        (fails): gcc -O2 -DNDEBUG -DMI_SECURE=4 -I../include repro1.c ../src/static.c -o repro1 -lpthread
// build (passes): gcc -O2 -DNDEBUG -I../include repro1.c ../src/static.c -o repro1 -lpthread
#include <stdio.h>
#include <stdint.h>
#include <mimalloc.h>

static size_t full_block_size;
static bool visitor(const mi_heap_t* heap, const mi_heap_area_t* area, void* block, size_t bsize, void* arg) {
  (void)heap; (void)bsize; (void)arg;
  if (block != NULL) full_block_size = area->full_block_size;
  return true;
}
// the real size of the block that a request of `n` bytes occupies
static size_t block_size_of_request(size_t n) {
  mi_heap_t* h = mi_heap_new();
  void* p = mi_heap_malloc(h, n);
  full_block_size = 0;
  mi_heap_visit_blocks(h, true, &visitor, NULL);
  mi_free(p);
  mi_heap_delete(h);
  return full_block_size;
}

int main(void) {
  const size_t medium_max = 64*1024;   // MI_MEDIUM_OBJ_SIZE_MAX
  size_t not_idem = 0, too_small = 0, wasteful = 0, first = SIZE_MAX;
  for (size_t n = 0; n <= 2*medium_max; n++) {
    const size_t g = mi_good_size(n);
    if (g < n) too_small++;
    if (mi_good_size(g) != g) { not_idem++; if (first == SIZE_MAX) first = n; }
  }
  // requesting the "good" size must not cost more memory than requesting n (sample the size classes)
  for (size_t n = 1; n <= medium_max/2; n = mi_good_size(n) + 1) {
    const size_t g  = mi_good_size(n);
    const size_t b1 = block_size_of_request(n);
    const size_t b2 = block_size_of_request(g);
    if (b2 > b1) { if (wasteful++ < 5) printf("  mi_malloc(%zu) uses a %zu byte block, but mi_malloc(mi_good_size(%zu)=%zu) uses a %zu byte block\n", n, b1, n, g, b2); }
  }
  printf("sizes 0..%zu: mi_good_size(n) < n: %zu, not idempotent: %zu (first n=%zu: %zu -> %zu -> %zu), size classes where the good size wastes a class: %zu\n",
         2*medium_max, too_small, not_idem, first, first, first==SIZE_MAX?0:mi_good_size(first), first==SIZE_MAX?0:mi_good_size(mi_good_size(first)), wasteful);
  return (too_small || not_idem || wasteful) ? 1 : 0;
}
