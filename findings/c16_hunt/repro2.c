// C16 / finding 2: requests just below MI_MAX_ALLOC_SIZE overflow the 32-bit slice count of the huge page.
//
// MI_MAX_ALLOC_SIZE (= 64KiB * (UINT32_MAX-1) = 2^48 - 2^17 on 64-bit) is meant to guarantee that the slice
// count of a huge page fits `uint32_t slice_count` (issue #877), but the request is rounded up afterwards
// (`_mi_os_good_alloc_size`: to 4MiB; plus the alignment prefix of ~32MiB for alignments > 16MiB), so the
// page gets 2^32 (+k) slices which is truncated to 0 (k).
//
// No current x86-64 Linux gives out 2^48 bytes of address space (mmap just fails and mi_malloc returns NULL),
// so to show the arithmetic this program SIMULATES an OS with a larger address space (e.g. s390x, LA57 with
// high hints): mmap requests above 1TiB "succeed" and are backed by a real 256MiB mapping (the allocator only
// touches the segment header and the first word of the block).
//
// build: gcc -O2 -DNDEBUG -Dmmap=my_mmap -Dmunmap=my_munmap -Dmprotect=my_mprotect -Dmadvise=my_madvise \
//            -I../include repro2.c ../src/static.c -o repro2 -lpthread
// exit 0: property holds (NULL, or a block whose usable size covers the request); otherwise non-zero / crash.
#define _GNU_SOURCE
#include <stdio.h>
#include <stdint.h>
#include <signal.h>
#include <unistd.h>
#include <sys/syscall.h>
#include <sys/mman.h>
#include <mimalloc.h>

#define BIG   ((size_t)1 << 40)
#define REAL  ((size_t)256 << 20)
static uint8_t* fake_base; static size_t fake_size;

static int in_fake(void* a, size_t n) { return (fake_base != NULL && ((uint8_t*)a >= fake_base) && ((uint8_t*)a < fake_base + fake_size)) || n >= BIG; }

void* my_mmap(void* addr, size_t size, int prot, int flags, int fd, off_t ofs) {
  if (size >= BIG) {
    if (fake_base != NULL) return MAP_FAILED;
    uint8_t* p = (uint8_t*)syscall(SYS_mmap, NULL, REAL, PROT_READ|PROT_WRITE, MAP_PRIVATE|MAP_ANONYMOUS|MAP_NORESERVE, -1, 0);
    if (p == MAP_FAILED) return MAP_FAILED;
    // return an address that is aligned to 1GiB at offset 32MiB... keep it simple: 64MiB aligned start
    uint8_t* q = (uint8_t*)(((uintptr_t)p + ((size_t)64<<20) - 1) & ~(((uintptr_t)64<<20) - 1));
    fake_base = q; fake_size = size;
    return q;
  }
  return (void*)syscall(SYS_mmap, addr, size, prot, flags, fd, ofs);
}
int my_munmap(void* a, size_t n)            { if (in_fake(a,n)) { if ((uint8_t*)a==fake_base) fake_base=NULL; return 0; } return (int)syscall(SYS_munmap, a, n); }
int my_mprotect(void* a, size_t n, int p)   { if (in_fake(a,n)) return 0; return (int)syscall(SYS_mprotect, a, n, p); }
int my_madvise(void* a, size_t n, int adv)  { if (in_fake(a,n)) return 0; return (int)syscall(SYS_madvise, a, n, adv); }

static void on_fpe(int sig) { (void)sig; const char m[] = "FAIL: SIGFPE (division by a zero block size in mi_page_init)\n"; (void)!write(1, m, sizeof(m)-1); _exit(3); }

int main(int argc, char** argv) {
  signal(SIGFPE, on_fpe);
  setvbuf(stdout, NULL, _IONBF, 0);
  const size_t max_alloc = (size_t)65536 * ((size_t)UINT32_MAX - 1);   // MI_MAX_ALLOC_SIZE
  int bad = 0;
  // (a) aligned request: returns a pointer whose usable size is (far) below the request
  if (argc < 2 || argv[1][0]=='a') {
    size_t n = max_alloc - ((size_t)8 << 20);
    void* p = mi_malloc_aligned(n, (size_t)64 << 20);
    if (p != NULL) {
      size_t u = mi_usable_size(p);
      printf("mi_malloc_aligned(%zu, 64MiB) = %p, usable size = %zu\n", n, p, u);
      if (u < n) { printf("FAIL: usable size is smaller than the request\n"); return 2; }  // (mi_free(p) would loop forever in mi_segment_free)
      mi_free(p);
    } else printf("mi_malloc_aligned(%zu, 64MiB) = NULL (ok)\n", n);
  }
  // (b) plain request: block size becomes 0 -> division by zero
  if (argc < 2 || argv[1][0]=='b') {
    size_t n = max_alloc;
    void* p = mi_malloc(n);
    if (p != NULL) {
      size_t u = mi_usable_size(p);
      printf("mi_malloc(%zu) = %p, usable size = %zu\n", n, p, u);
      if (u < n) { printf("FAIL: usable size is smaller than the request\n"); bad = 1; }
    } else printf("mi_malloc(%zu) = NULL (ok)\n", n);
  }
  return bad;
}
