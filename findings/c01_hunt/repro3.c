// C01 (debug -DMI_DEBUG=3 and secure -DMI_SECURE=4 builds): minimal form of repro2 -- the main thread frees a live block that a
// terminated thread allocated in a heap with a tag; mi_free reclaims the abandoned segment, reports EFAULT and aborts.
// build: gcc -O1 -g -DMI_DEBUG=3 -I/tmp/wt6/C01/include repro3.c /tmp/wt6/C01/src/static.c -o repro3 -lpthread
//    or: gcc -O2 -DNDEBUG -DMI_SECURE=4 -I/tmp/wt6/C01/include repro3.c /tmp/wt6/C01/src/static.c -o repro3 -lpthread
#include <stdio.h>
#include <string.h>
#include <pthread.h>
#include <mimalloc.h>
static unsigned char* P;
static void* worker(void* a) { (void)a; mi_heap_t* h = mi_heap_new_ex(1, true, 0); P = (unsigned char*)mi_heap_malloc(h, 200); memset(P, 7, 200); return NULL; }
int main(void) {
  void* m = mi_malloc(100);
  pthread_t t; pthread_create(&t, NULL, worker, NULL); pthread_join(t, NULL);
  for (int j = 0; j < 200; j++) if (P[j] != 7) { printf("lost\n"); return 1; }
  mi_free(P);   // free of a live block
  mi_free(m);
  printf("ok\n"); return 0;
}
