// C01 (debug -DMI_DEBUG=3 and secure -DMI_SECURE=4 builds): a terminated thread leaves live blocks that it allocated in a
// heap with a tag (mi_heap_new_ex(tag=1,...)); when another thread that has no heap with that tag later needs a fresh
// segment, its mi_malloc reclaims the abandoned segment, reports EFAULT ("page with tag 1 cannot be reclaimed ...") and the
// process is aborted inside mi_malloc although nothing is corrupted.  (release build: exit 0)
// build: gcc -O1 -g -DMI_DEBUG=3 -I/tmp/wt6/C01/include repro2.c /tmp/wt6/C01/src/static.c -o repro2 -lpthread
//    or: gcc -O2 -DNDEBUG -DMI_SECURE=4 -I/tmp/wt6/C01/include repro2.c /tmp/wt6/C01/src/static.c -o repro2 -lpthread
#include <stdio.h>
#include <stdlib.h>
#include <string.h>
#include <pthread.h>
#include <mimalloc.h>
#define N 2000
static unsigned char* P[N];
static void* worker(void* a) {
  (void)a;
  mi_heap_t* h = mi_heap_new_ex(1 /* tag */, true, 0 /* no arena */);
  for (int i = 0; i < N; i++) { P[i] = (unsigned char*)mi_heap_malloc(h, 200); memset(P[i], i & 0xff, 200); }
  return NULL;   // the blocks stay live and are used/freed by the main thread (the heap is deleted by mi_thread_done)
}
int main(void) {
  pthread_t t; pthread_create(&t, NULL, worker, NULL); pthread_join(t, NULL);
  // the main thread allocates until it needs fresh segments (and then first looks at abandoned segments)
  enum { M = 400000 };
  void** q = (void**)malloc(sizeof(void*) * M); int n = 0;
  for (; n < M; n++) { q[n] = mi_malloc(200); if (!q[n]) break; memset(q[n], 0xEE, 200); }
  int bad = 0;
  for (int i = 0; i < N && !bad; i++) for (int j = 0; j < 200; j++) if (P[i][j] != (unsigned char)(i & 0xff)) { printf("block %d lost its contents\n", i); bad = 1; break; }
  for (int i = 0; i < N; i++) mi_free(P[i]);
  for (int i = 0; i < n; i++) mi_free(q[i]);
  printf(bad ? "FAIL\n" : "ok\n");
  return bad;
}
