// C01 / MI_GUARDED build: a zero-size aligned allocation that is the first allocation of a thread
// writes to the read-only `_mi_heap_empty` (sample counter) and crashes.
// build: gcc -O2 -DNDEBUG -DMI_GUARDED=1 -I/tmp/wt6/C01/include repro1.c /tmp/wt6/C01/src/static.c -o repro1 -lpthread
#include <stdio.h>
#include <stdlib.h>
#include <string.h>
#include <pthread.h>
#include <mimalloc.h>

static void* worker(void* arg) {
  (void)arg;
  // first allocation in this thread: zero-size request through an aligned entry point
  void* p = mi_malloc_aligned(0, 16);       // same for mi_posix_memalign/mi_memalign/mi_aligned_alloc/mi_zalloc_aligned/mi_calloc_aligned(0,..)
  void* q = mi_malloc_aligned(0, 16);
  if (p == NULL || q == NULL || p == q) { printf("zero-size blocks not unique: %p %p\n", p, q); return (void*)1; }
  mi_free(p); mi_free(q);
  return NULL;
}

int main(void) {
  void* m = mi_malloc(10); mi_free(m);   // main thread is fine
  pthread_t t; void* res = NULL;
  pthread_create(&t, NULL, &worker, NULL);
  pthread_join(t, &res);
  if (res != NULL) { printf("FAIL\n"); return 1; }
  printf("ok\n");
  return 0;
}
