// C03: mi_realloc_aligned_at(p, n, a, o) with a <= 8 and o % a != 0 falls back to plain realloc and loses (p+o) % a == 0.
// build: gcc -O2 -DNDEBUG -I/repo/include c03_realloc_aligned_small_align_offset.c /repo/src/static.c -o c03 -lpthread
#include <mimalloc.h>
#include <stdio.h>
#include <stdint.h>
int main(void) {
  int bad = 0;
  for (size_t a = 2; a <= 8; a *= 2) for (size_t o = 1; o < 16; o++) {
    void* p = mi_malloc_aligned_at(100, a, o);
    if (((uintptr_t)p + o) % a != 0) { printf("FAIL malloc_aligned_at a=%zu o=%zu\n", a, o); bad++; }
    void* q = mi_realloc_aligned_at(p, 5000, a, o);
    if (((uintptr_t)q + o) % a != 0) { printf("FAIL: realloc_aligned_at(a=%zu,o=%zu) -> %p: (q+o)%%a = %zu\n", a, o, q, (size_t)(((uintptr_t)q + o) % a)); bad++; }
    mi_free(q);
  }
  printf(bad ? "FAILED %d\n" : "ok\n", bad); return bad != 0;
}
