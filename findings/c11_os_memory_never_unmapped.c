// C11: memory obtained directly from the OS (huge blocks when arenas are disabled / too small, thread metadata) was never
// unmapped: _mi_os_free_ex computed a size of 0 (dropped assignment, base/size of the mapping not recorded).
// build: gcc -O2 -DNDEBUG -I/repo/include c11_os_memory_never_unmapped.c /repo/src/static.c -o c11 -lpthread
// run:   MIMALLOC_DISALLOW_ARENA_ALLOC=1 ./c11      exit 1 = virtual size grows by the block size per repetition
#include <mimalloc.h>
#include <stdio.h>
#include <string.h>
static long vsize_kb(void) { long pages = 0; FILE* f = fopen("/proc/self/statm", "r"); if (f) { if (fscanf(f, "%ld", &pages) != 1) pages = 0; fclose(f); } return pages * 4; }
int main(void) {
  long v[8];
  for (int i = 0; i < 8; i++) { void* p = mi_malloc(100u << 20); memset(p, 1, 4096); mi_free(p); mi_collect(true); v[i] = vsize_kb(); printf("rep %d: virtual size %ld KiB\n", i, v[i]); }
  if (v[7] > v[3] + 50 * 1024) { printf("FAIL: mapped memory keeps growing\n"); return 1; }
  printf("ok\n"); return 0;
}
