// C12 repro 1: mi_abandoned_visit_blocks misses live abandoned blocks while another
// thread merely calls mi_collect(false) (no frees, no allocations anywhere).
//
// build: gcc -O2 -DNDEBUG -I/tmp/wt5/C12/include repro1.c /tmp/wt5/C12/src/static.c -o repro1 -lpthread
// exit 0: every walk reported exactly the N abandoned live blocks; exit 1: some walk missed blocks.
#include <stdio.h>
#include <stdlib.h>
#include <stdint.h>
#include <stdbool.h>
#include <pthread.h>
#include <mimalloc.h>

#define NTHREADS 24          // each leaves one abandoned segment with BLOCKS_PER_THREAD live blocks
#define BLOCKS_PER_THREAD 4
#define NBLOCKS (NTHREADS*BLOCKS_PER_THREAD)

static void* blocks[NBLOCKS];
static pthread_barrier_t bar;
static volatile int stop;

static void* producer(void* arg) {
  int id = (int)(intptr_t)arg;
  for (int i = 0; i < BLOCKS_PER_THREAD; i++) blocks[id*BLOCKS_PER_THREAD + i] = mi_malloc(100 + 500*i);
  pthread_barrier_wait(&bar);   // nobody terminates before everybody has its own segment(s)
  return NULL;                  // thread terminates: its blocks are "left behind"
}

static void* collector(void* arg) {
  (void)arg;
  mi_heap_get_default();        // initialize this thread's heap; it never allocates or frees
  while (!stop) mi_collect(false);
  return NULL;
}

typedef struct { int nblocks; int unknown; int seen[NBLOCKS]; } walk_t;
static bool visitor(const mi_heap_t* heap, const mi_heap_area_t* area, void* block, size_t bsize, void* arg) {
  (void)heap; (void)area;
  walk_t* w = (walk_t*)arg;
  if (block == NULL) return true;
  w->nblocks++;
  int found = 0;
  for (int i = 0; i < NBLOCKS; i++) {
    if ((uintptr_t)blocks[i] >= (uintptr_t)block && (uintptr_t)blocks[i] < (uintptr_t)block + bsize) { w->seen[i]++; found = 1; }
  }
  if (!found) w->unknown++;
  return true;
}

int main(int argc, char** argv) {
  int rounds = (argc > 1 ? atoi(argv[1]) : 20000);
  mi_option_enable(mi_option_visit_abandoned);   // enabled from the start as required
  pthread_t th[NTHREADS];
  pthread_barrier_init(&bar, NULL, NTHREADS);
  for (int i = 0; i < NTHREADS; i++) pthread_create(&th[i], NULL, producer, (void*)(intptr_t)i);
  for (int i = 0; i < NTHREADS; i++) pthread_join(th[i], NULL);

  // sanity: quiescent walk sees everything exactly once
  walk_t w0 = {0};
  mi_abandoned_visit_blocks(mi_subproc_main(), -1, true, &visitor, &w0);
  for (int i = 0; i < NBLOCKS; i++) if (w0.seen[i] != 1) { printf("quiescent walk: block %d seen %d times\n", i, w0.seen[i]); return 2; }

  pthread_t ct;
  pthread_create(&ct, NULL, collector, NULL);
  int bad_walks = 0, missed_total = 0, dup_total = 0;
  for (int r = 0; r < rounds; r++) {
    walk_t w = {0};
    bool ok = mi_abandoned_visit_blocks(mi_subproc_main(), -1, true, &visitor, &w);
    int missed = 0, dup = 0;
    for (int i = 0; i < NBLOCKS; i++) { if (w.seen[i] == 0) missed++; else if (w.seen[i] > 1) dup++; }
    if (!ok || missed || dup || w.unknown) {
      if (bad_walks < 5) printf("walk %d: returned %d, visited %d blocks, %d of %d live blocks missed, %d duplicated, %d unknown\n", r, ok, w.nblocks, missed, NBLOCKS, dup, w.unknown);
      bad_walks++; missed_total += missed; dup_total += dup;
    }
  }
  stop = 1;
  pthread_join(ct, NULL);
  // nothing was ever freed or reclaimed: a final quiescent walk still sees all blocks
  walk_t w1 = {0};
  mi_abandoned_visit_blocks(mi_subproc_main(), -1, true, &visitor, &w1);
  int still = 0; for (int i = 0; i < NBLOCKS; i++) if (w1.seen[i] == 1) still++;
  printf("%d of %d walks wrong (missed %d, duplicated %d); final quiescent walk sees %d/%d blocks\n", bad_walks, rounds, missed_total, dup_total, still, NBLOCKS);
  return (bad_walks > 0 ? 1 : 0);
}
