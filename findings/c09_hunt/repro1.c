// C09 repro1: a thread that terminates while it owns a segment WITHOUT any page in it
// leaks that segment for ever (it is neither freed nor abandoned, so nobody can ever adopt/release it).
//
// build:  gcc -O2 -DNDEBUG -I/tmp/wt5/C09/include repro1.c /tmp/wt5/C09/src/static.c -o repro1 -lpthread
// exit 0: all arena blocks are released after every block was freed;  exit 1: segments leaked.
//
// Deterministic (no races: main and the worker strictly alternate through semaphores).
#include <mimalloc.h>
#include <pthread.h>
#include <semaphore.h>
#include <stdio.h>
#include <stdlib.h>
#include <string.h>

#define BLK   (8u*1024*1024)   // a "large" object: its own 128-slice page; 3 of them fill a 32MiB segment (127 slices stay free)
#define ROUNDS 12

static sem_t to_main, to_worker;
static void* a[8];

static void* worker(void* arg) {
  (void)arg;
  for (int i = 1; i <= 6; i++) { a[i] = mi_malloc(BLK); memset(a[i], i, 4096); }  // segment S1 = a1,a2,a3 ; segment S2 = a4,a5,a6
  sem_post(&to_main);        // let main free a4 (a remote free: ends up in our heap's thread_delayed_free list)
  sem_wait(&to_worker);
  // Now there is no free span of 128 slices in S1 or S2 -> mi_segment_reclaim_or_alloc():
  //  - we are at the target segment count, so S1 is force-abandoned; as part of that the delayed free of a4 is
  //    processed, which creates a fitting 128-slice span in S2
  //  - a fresh segment S3 is allocated nevertheless
  //  - the retry takes the best fitting span, which is the one in S2, so S3 stays empty
  a[7] = mi_malloc(BLK); memset(a[7], 7, 4096);
  return NULL;  // thread exit: S2 is abandoned (live blocks a5,a6,a7), but the empty S3 is simply forgotten
}

// capture the output of mi_debug_show_arenas
static char outbuf[1 << 16]; static size_t outlen;
static void out_fun(const char* msg, void* arg) { (void)arg; size_t n = strlen(msg); if (outlen + n < sizeof(outbuf)) { memcpy(outbuf + outlen, msg, n); outlen += n; outbuf[outlen] = 0; } }

static long arena_blocks_inuse(void) {
  outlen = 0; outbuf[0] = 0;
  mi_register_output(&out_fun, NULL);
  mi_debug_show_arenas();
  mi_register_output(NULL, NULL);
  const char* s = strstr(outbuf, "total inuse blocks");
  if (s == NULL) return -1;
  s = strchr(s, ':');
  return (s == NULL ? -1 : atol(s + 1));
}

int main(void) {
  mi_option_set(mi_option_target_segments_per_thread, 2);
  sem_init(&to_main, 0, 0); sem_init(&to_worker, 0, 0);
  void* warm = mi_malloc(100); mi_free(warm);
  int bad_content = 0;
  for (int r = 0; r < ROUNDS; r++) {
    pthread_t t;
    pthread_create(&t, NULL, &worker, NULL);
    sem_wait(&to_main);
    mi_free(a[4]);                 // remote free while the owner is blocked
    sem_post(&to_worker);
    pthread_join(t, NULL);         // worker has terminated
    // the live blocks of the terminated thread are still valid ...
    int idx[] = { 1, 2, 3, 5, 6, 7 };
    for (int k = 0; k < 6; k++) { unsigned char* p = (unsigned char*)a[idx[k]]; for (int j = 0; j < 4096; j++) if (p[j] != idx[k]) bad_content = 1; }
    // ... and are now all freed
    for (int k = 0; k < 6; k++) mi_free(a[idx[k]]);
    mi_collect(true);
  }
  for (int i = 0; i < 3; i++) mi_collect(true);
  long inuse = arena_blocks_inuse();
  printf("blocks valid: %s; arena blocks (32MiB each) still in use after everything was freed and collected: %ld (expected 0)\n", bad_content ? "NO" : "yes", inuse);
  if (bad_content) return 2;
  return (inuse == 0 ? 0 : 1);
}
