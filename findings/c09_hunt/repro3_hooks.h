// scheduling hooks for repro3.c (included by mimalloc/atomic.h through -DMI_VERIF_HOOKS='"repro3_hooks.h"')
// They do not change what the allocator does: every atomic operation is executed unchanged,
// we only get a call-out before atomic loads/stores so the reproducer can delay one thread at one point.
#if MI_VERIF_HOOKS_PART == 1
#ifndef C09_HOOKS_H
#define C09_HOOKS_H
#ifdef __cplusplus
extern "C" {
#endif
void c09_hook_load(const volatile void* p);
void c09_hook_store(const volatile void* p);
#ifdef __cplusplus
}
#endif
#undef  mi_atomic
#define mi_atomic(name)  c09_atomic_##name
#define c09_atomic_load_explicit(p,mo)                         (c09_hook_load(p),  atomic_load_explicit(p,mo))
#define c09_atomic_store_explicit(p,x,mo)                      (c09_hook_store(p), atomic_store_explicit(p,x,mo))
#define c09_atomic_exchange_explicit(p,x,mo)                   atomic_exchange_explicit(p,x,mo)
#define c09_atomic_fetch_add_explicit(p,x,mo)                  atomic_fetch_add_explicit(p,x,mo)
#define c09_atomic_fetch_sub_explicit(p,x,mo)                  atomic_fetch_sub_explicit(p,x,mo)
#define c09_atomic_fetch_and_explicit(p,x,mo)                  atomic_fetch_and_explicit(p,x,mo)
#define c09_atomic_fetch_or_explicit(p,x,mo)                   atomic_fetch_or_explicit(p,x,mo)
#define c09_atomic_compare_exchange_weak_explicit(p,e,d,m1,m2)   atomic_compare_exchange_weak_explicit(p,e,d,m1,m2)
#define c09_atomic_compare_exchange_strong_explicit(p,e,d,m1,m2) atomic_compare_exchange_strong_explicit(p,e,d,m1,m2)
#endif
#endif
