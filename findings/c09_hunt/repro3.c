// C09 repro3: forced abandonment (mi_option_target_segments_per_thread) reads the segment after it has been
// published as abandoned; another thread can adopt the segment, free its last block and release (unmap) the
// segment in between -> the abandoning thread crashes (SIGSEGV) on a use-after-free of the segment header.
//
// The window is only a few instructions wide, so this reproducer uses the verification hooks of the tree
// (include/mimalloc/atomic.h, MI_VERIF_HOOKS) to *delay* the abandoning thread at that point; the hooks execute
// every atomic operation unchanged, i.e. the schedule below is one the unmodified code can take by itself
// (pre-emption of the abandoning thread).
//
// build: gcc -O2 -DNDEBUG -I/tmp/wt5/C09/include -I/tmp/wt5/C09/FINDINGS '-DMI_VERIF_HOOKS="repro3_hooks.h"' \
//            repro3.c /tmp/wt5/C09/src/static.c -o repro3 -lpthread
// exit 0: property holds;  SIGSEGV (exit 139): violated.
#include <mimalloc.h>
#include <mimalloc/types.h>     // only for offsetof(mi_segment_t,thread_id) and MI_SEGMENT_SIZE (to compute the watched address)
#include <pthread.h>
#include <semaphore.h>
#include <stdio.h>
#include <string.h>

#define MB(n) ((size_t)(n) << 20)

static sem_t to_main, to_worker;
static void* b;                                   // the block that survives in segment S1
static const volatile void* volatile watch;       // address of S1->thread_id
static __thread int armed;                        // only the worker thread arms itself
static __thread int stored;

void c09_hook_store(const volatile void* p) {
  if (armed && p == watch) stored = 1;            // `_mi_arena_segment_mark_abandoned`: thread_id := 0 (segment gets published right after)
}
void c09_hook_load(const volatile void* p) {
  if (armed && stored && p == watch) {            // `mi_segment_force_abandon`: "if (segment->thread_id != _mi_thread_id()) return;"
    armed = 0;
    sem_post(&to_main);                           // let the main thread free the last block of the (now abandoned) segment
    sem_wait(&to_worker);                         // ... and continue afterwards (as if we had been pre-empted here)
  }
}

static void* worker(void* arg) {
  (void)arg;
  // S1:  x1 | b | x2 | 127 free slices          (8MiB "large" blocks: a page of 128 slices each)
  void* x1 = mi_malloc(MB(8));
  b        = mi_malloc(MB(8)); memset(b, 0xB, 4096);
  void* x2 = mi_malloc(MB(8));
  void* y1 = mi_malloc(MB(16));                   // does not fit in S1 -> second segment S2 (we now own 2 = target segments)
  mi_free(x1); mi_free(x2);                       // S1 holds only `b` now; its free spans (128 and 255 slices) cannot hold 16MiB (256 slices)
  watch = (uint8_t*)((uintptr_t)b & ~(MI_SEGMENT_SIZE - 1)) + offsetof(mi_segment_t, thread_id);
  armed = 1;
  void* z = mi_malloc(MB(16));                    // no fitting span, at the target count -> S1 is force-abandoned (with live block b)
  armed = 0;
  mi_free(z); mi_free(y1);
  return NULL;
}

int main(void) {
  mi_option_set(mi_option_disallow_arena_alloc, 1);          // segments come directly from the OS (mmap/munmap)
  mi_option_set(mi_option_abandoned_reclaim_on_free, 1);     // a free adopts an abandoned segment
  mi_option_set(mi_option_target_segments_per_thread, 2);    // forced abandonment
  sem_init(&to_main, 0, 0); sem_init(&to_worker, 0, 0);
  void* warm = mi_malloc(100);
  pthread_t t;
  pthread_create(&t, NULL, &worker, NULL);
  sem_wait(&to_main);
  // the worker has abandoned S1; b is a live block in abandoned memory: it must be valid and freeable by us
  for (int i = 0; i < 4096; i++) if (((unsigned char*)b)[i] != 0xB) { printf("content lost\n"); return 2; }
  mi_free(b);                                     // adopts S1, frees its last block, S1 is released to the OS
  sem_post(&to_worker);
  pthread_join(t, NULL);
  mi_free(warm);
  printf("ok\n");
  return 0;
}
