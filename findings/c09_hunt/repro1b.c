// C09 repro1b (same root cause as repro1, different trigger, default segment options):
// a thread whose page commit fails (OS refuses mprotect) is left with a fresh segment without pages;
// when the thread terminates that segment is neither freed nor abandoned -> leaked for ever.
//
// build: gcc -O2 -DNDEBUG -Dmprotect=my_mprotect -I/tmp/wt5/C09/include repro1b.c /tmp/wt5/C09/src/static.c -o repro1b -lpthread
// exit 0: no arena block stays in use;  exit 1: leaked segments.
#define _GNU_SOURCE
#include <mimalloc.h>
#include <pthread.h>
#include <stdio.h>
#include <stdlib.h>
#include <string.h>
#include <errno.h>
#include <unistd.h>
#include <sys/mman.h>
#include <sys/syscall.h>

static __thread int armed;      // only set in the worker threads
static __thread int commits;

int my_mprotect(void* addr, size_t len, int prot) {
  if (armed && prot == (PROT_READ | PROT_WRITE)) {        // a commit
    if (++commits > 1) { errno = ENOMEM; return -1; }      // 1st commit (segment meta data) succeeds, all later ones fail
  }
  return (int)syscall(SYS_mprotect, addr, len, prot);
}

static void* worker(void* arg) {
  (void)arg;
  armed = 1;
  void* p = mi_malloc(1000);     // needs a fresh segment; committing the first page fails -> NULL (out of memory)
  armed = 0;
  if (p != NULL) { mi_free(p); } // (not expected)
  return (void*)(p == NULL ? (intptr_t)0 : (intptr_t)1);
}

static char outbuf[1 << 16]; static size_t outlen;
static void out_fun(const char* msg, void* arg) { (void)arg; size_t n = strlen(msg); if (outlen + n < sizeof(outbuf)) { memcpy(outbuf + outlen, msg, n); outlen += n; outbuf[outlen] = 0; } }
static long arena_blocks_inuse(void) {
  outlen = 0; outbuf[0] = 0;
  mi_register_output(&out_fun, NULL);
  mi_debug_show_arenas();
  mi_register_output(NULL, NULL);
  const char* s = strstr(outbuf, "total inuse blocks");
  if (s == NULL) return -1;
  s = strchr(s, ':');
  return (s == NULL ? -1 : atol(s + 1));
}

int main(void) {
  mi_option_set(mi_option_arena_eager_commit, 0);   // arenas are reserved without commit (segments commit on demand)
  mi_option_set(mi_option_show_errors, 0); mi_option_set(mi_option_max_warnings, 0); mi_option_set(mi_option_max_errors, 0);
  // (note: main does not allocate itself, so the workers get arena blocks that were never committed before)
  long before = arena_blocks_inuse();
  int got = 0;
  for (int r = 0; r < 10; r++) {
    pthread_t t; void* res;
    pthread_create(&t, NULL, &worker, NULL);
    pthread_join(t, &res);
    got += (int)(intptr_t)res;
  }
  for (int i = 0; i < 3; i++) mi_collect(true);
  long after = arena_blocks_inuse();
  printf("allocations that unexpectedly succeeded: %d; arena blocks in use before: %ld, after 10 threads came and went: %ld\n", got, before, after);
  return (after <= before ? 0 : 1);
}
