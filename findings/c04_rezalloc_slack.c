// C04: growing a zero-initialised block with mi_rezalloc: after a *moving* step only [old usable-8, new size) of the new
// block is zeroed; the slack up to mi_usable_size stays dirty and the next *in-place* step exposes it.
// build: gcc -O2 -DNDEBUG -I/repo/include c04_rezalloc_slack.c /repo/src/static.c -o c04 -lpthread   (release: no padding)
#include <mimalloc.h>
#include <stdio.h>
#include <string.h>
int main(void) {
  // dirty some 224-byte blocks and free them so that the next 200-byte request reuses dirty memory
  void* d[64]; for (int i = 0; i < 64; i++) { d[i] = mi_malloc(224); memset(d[i], 0xAB, 224); }
  for (int i = 0; i < 64; i++) mi_free(d[i]);
  unsigned char* p = (unsigned char*)mi_zalloc(100);
  memset(p, 1, 100);
  p = (unsigned char*)mi_rezalloc(p, 200);   // moves into a (dirty) 224-byte block; zeroes [104,200) only
  for (int i = 100; i < 200; i++) if (p[i]) { printf("FAIL step 1 byte %d = 0x%02x\n", i, p[i]); return 1; }
  memset(p, 1, 200);
  p = (unsigned char*)mi_rezalloc(p, 220);   // in place (usable 224)
  for (int i = 200; i < 220; i++) if (p[i]) { printf("FAIL: after zalloc(100)->rezalloc(200)->rezalloc(220) byte %d = 0x%02x (must be 0)\n", i, p[i]); return 1; }
  // aligned twin
  for (int i = 0; i < 64; i++) { d[i] = mi_malloc(224); memset(d[i], 0xCD, 224); }
  for (int i = 0; i < 64; i++) mi_free(d[i]);
  p = (unsigned char*)mi_zalloc_aligned(100, 32);
  memset(p, 1, 100);
  p = (unsigned char*)mi_rezalloc_aligned(p, 200, 32);
  memset(p, 1, 200);
  size_t u = mi_usable_size(p);
  size_t n2 = (u > 200 ? u : 200);
  p = (unsigned char*)mi_rezalloc_aligned(p, n2, 32);
  for (size_t i = 200; i < n2; i++) if (p[i]) { printf("FAIL (aligned): byte %zu = 0x%02x (must be 0)\n", i, p[i]); return 1; }
  printf("ok\n"); return 0;
}
