// drv_forge.c -- C17, exact boundaries of the free-list link check: a freed block's link is overwritten with values that the allocator's OWN encoding
// decodes to addresses just outside the block's page area (one past its end, the next block position beyond it, just before its start, the next slice, another
// segment).  Random 64-bit values (seq_harden.cpp) decode to far-away garbage and never probe these boundaries; computing them needs the page's keys, so this
// driver includes the allocator as one translation unit (like drv_arith.c) and is built for the secure variant.
#include "static.c"      // from $REPO/src (-I on the command line)
#include "vf_common.h"

static unsigned long long n_forged = 0, n_reported = 0, n_allocs = 0, n_skipped = 0, n_kinds[6] = { 0, 0, 0, 0, 0, 0 };
static volatile int g_efault = 0, g_other = 0;
static void err_cb(int err, void* arg) { (void)arg; if (err == EFAULT) g_efault++; else { g_other++; vf_error_cb(err, NULL); } }
static void body(FILE* f) {
  fprintf(f, "\"forge\":{\"forged_links\":%llu,\"reported\":%llu,\"allocations_checked\":%llu,\"skipped\":%llu,\"one_past_end\":%llu,\"next_position\":%llu,\"before_start\":%llu,\"next_slice\":%llu,\"other_segment\":%llu,\"last_byte_of_area\":%llu}",
          n_forged, n_reported, n_allocs, n_skipped, n_kinds[0], n_kinds[1], n_kinds[2], n_kinds[3], n_kinds[4], n_kinds[5]);
}

int main(int argc, char** argv) {
  const unsigned long long seed = (unsigned long long)vf_getarg_ll(argc, argv, "--seed", 1);
  const int rounds = (int)vf_getarg_ll(argc, argv, "--rounds", 300);
  vf_result_body = &body;
  vf_crash_refutes = "C17";
  vf_install_crash_handler();
  mi_register_error(&err_cb, NULL);
  mi_register_output(&vf_output_cb, NULL);
#if !MI_ENCODE_FREELIST
  vf_trip("harness", "", "this driver needs a build with encoded free lists");
#else
  vf_rng_t r; vf_rng_seed(&r, seed);
  static const size_t classes[] = { 8, 24, 40, 56, 100, 120, 200, 248, 500, 1000, 2000, 4000, 8000, 20000, 60000 };
  void* other = mi_malloc(40 * 1024 * 1024);                 // a block in another segment
  void* keep[64]; int nkeep = 0;
  for (int round = 0; round < rounds; round++) {
    const size_t n = classes[vf_rng_below(&r, sizeof(classes) / sizeof(classes[0]))];
    mi_heap_t* heap = mi_heap_new();
    if (heap == NULL) vf_trip("harness", "", "mi_heap_new failed");
    // neighbours in the default heap now and then, so that the page is not the last one in use in its segment
    if (nkeep < 64 && vf_rng_chance(&r, 1, 2)) keep[nkeep++] = mi_malloc(100 + (size_t)vf_rng_below(&r, 30000));
    const int K = 3 + (int)vf_rng_below(&r, 30);
    void* p[40]; int np = 0;
    for (int i = 0; i < K; i++) { void* q = mi_heap_malloc(heap, n); if (q) { memset(q, 0x61, n); p[np++] = q; } }
    if (np < 3) { mi_heap_destroy(heap); n_skipped++; continue; }
    mi_segment_t* seg = _mi_ptr_segment(p[0]);
    mi_page_t* page = _mi_segment_page_of(seg, p[0]);
    int same = 1; for (int i = 1; i < np; i++) if (_mi_ptr_page(p[i]) != page) same = 0;
    if (!same) { mi_heap_destroy(heap); n_skipped++; continue; }
    size_t psize = 0; uint8_t* start = _mi_segment_page_start(seg, page, &psize);
    const size_t bsize = mi_page_block_size(page);
    uint8_t* victim = (uint8_t*)p[1 + vf_rng_below(&r, (uint64_t)(np - 1))];
    const int kind = (int)vf_rng_below(&r, 6);
    uint8_t* F;
    switch (kind) {
      case 0: F = start + psize; break;                                   // one past the end of the area
      case 1: F = start + (psize / bsize) * bsize + bsize; break;         // the block position after the last one, or beyond
      case 2: F = start - sizeof(void*); break;                           // just before the area
      case 3: F = start + psize + MI_SEGMENT_SLICE_SIZE; break;           // inside the slice after the page
      case 4: F = (uint8_t*)other + 4096; break;                          // another segment
      default: F = start + psize + (bsize > 8 ? 8 : 0); break;            // a few bytes past the end
    }
    if (F >= start && F < start + psize) { mi_heap_destroy(heap); n_skipped++; continue; }   // (inside the area: the statement's exception)
    vf_cur_what = "free";
    mi_free(victim);                                                       // legitimate free: the block is on the page's local free list
    // the program error: the link word of the freed block is overwritten -- with exactly the value that decodes to F
    ((mi_block_t*)victim)->next = mi_ptr_encode(page, F, page->keys);
    n_forged++; n_kinds[kind]++;
    g_efault = 0;
    vf_cur_what = "allocations reaching a forged link that decodes just outside the page area";
    const size_t limit = 2 * (psize / bsize) + 16;
    static uint8_t* got[4096]; size_t ngot = 0;
    for (size_t i = 0; i < limit; i++) {
      uint8_t* q = (uint8_t*)mi_heap_malloc(heap, n);
      n_allocs++;
      if (q == NULL) break;
      // (a fresh page of this heap may legitimately start exactly at F, so the address alone decides nothing: what is handed out must be a block position of a page
      //  that belongs to this heap, and must not be live already)
      mi_page_t* pg = _mi_ptr_page(q); size_t ps2 = 0; uint8_t* st2 = _mi_segment_page_start(_mi_ptr_segment(q), pg, &ps2);
      const size_t bs2 = mi_page_block_size(pg);
      if (mi_page_heap(pg) != heap || bs2 != bsize || q < st2 || q + bs2 > st2 + ps2 || ((size_t)(q - st2) % bs2) != 0)
        vf_trip("forged-link-followed", "C17", "after a link forged to decode to %p (%s the area [%p,+%zu) of its page, block size %zu) allocation %zu returned %p, which is not a block of a page of this heap "
                "(page area [%p,+%zu), block size %zu, page heap %p, this heap %p)", (void*)F, kind == 0 ? "one past the end of" : kind == 2 ? "just before" : "outside", (void*)start, psize, bsize, i, (void*)q,
                (void*)st2, ps2, bs2, (void*)mi_page_heap(pg), (void*)heap);
      for (int k = 0; k < np; k++) if ((uint8_t*)p[k] != victim && (uint8_t*)p[k] == q) vf_trip("forged-link-followed", "C17", "after a forged link an allocation returned the live block %p again", (void*)q);
      for (size_t k = 0; k < ngot; k++) if (got[k] == q) vf_trip("forged-link-followed", "C17", "after a forged link the block %p was handed out twice", (void*)q);
      if (ngot < 4096) got[ngot++] = q;
      if (g_efault > 0 && i > 8) break;
    }
    if (g_efault == 0) vf_trip("forged-link-unreported", "C17", "a link forged to decode to %p (outside the area [%p,+%zu) of its page) was never reported (EFAULT) although %zu allocations of its class followed", (void*)F, (void*)start, psize, limit);
    n_reported++;
    for (int i = 0; i < np; i++) if ((uint8_t*)p[i] != victim && (((uint8_t*)p[i])[0] != 0x61 || ((uint8_t*)p[i])[n - 1] != 0x61)) vf_trip("contents", "C17,C01", "live block %p changed after a reported forged link", p[i]);
    mi_heap_destroy(heap);
    vf_err_reset();
  }
  for (int i = 0; i < nkeep; i++) mi_free(keep[i]);
  mi_free(other);
#endif
  vf_finish_ok();
  return 0;
}
