#include "seq.hpp"
namespace seq {
void run_hardening(State&) {}
}
