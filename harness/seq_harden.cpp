// seq_harden.cpp -- C17: hardened builds (MI_SECURE>=4, MI_DEBUG) detect double free, overflow past the requested size and
// overwritten free-list links; the secure build stays consistent afterwards.
// sec: many attacks inside one ordinary history, all shadow-model oracles stay active afterwards.
// dbg: one attack per case; the case ends at the first *expected* report (debug assertions after a detected error are outside the claim).
#include "seq.hpp"
#include <thread>
#include <system_error>
#include <algorithm>

namespace seq {

static uint64_t g_att_forged_collect = 0, g_att_double_deep = 0, g_att_migrated = 0, g_att_remote_overflow = 0, g_att_forged_walk = 0, g_att_double = 0, g_att_overflow = 0, g_att_forged = 0, g_att_skipped = 0, g_forged_allocs_until_report = 0, g_att_classes_n = 0;
static std::set<size_t> g_att_classes;
static volatile int g_expect_code = 0;       // error code the running attack must produce
static volatile int g_expect_seen = 0;
static volatile int g_unexpected_code = 0;

static void harden_error_cb(int err, void* arg) {
  (void)arg;
  State& S = *G;
  if (g_expect_code != 0 && err == g_expect_code) {
    g_expect_seen++;
    if (S.cfg.debug) {
      // debug build: detection observed; internal assertions that may follow are outside the claim
      vf_finish_ok();
    }
    return;
  }
  if (g_unexpected_code == 0) g_unexpected_code = err;
  vf_error_cb(err, nullptr);
}

static void begin_attack(int code) { vf_err_reset(); g_expect_code = code; g_expect_seen = 0; g_unexpected_code = 0; }
static void end_attack(State& S, const char* what, const char* detail_fmt, size_t n, void* p) {
  int seen = g_expect_seen, code = g_expect_code;
  g_expect_code = 0;
  if (g_unexpected_code != 0)
    vf_trip("hardening-wrong-report", "C17", "%s (block %p, size %zu): mimalloc reported error %d (%s) instead of %d: %s", what, p, n, (int)g_unexpected_code, strerror(g_unexpected_code), code, vf_last_msgs);
  if (seen == 0)
    vf_trip(detail_fmt, "C17", "%s (block %p, size %zu) was not reported (expected error code %d %s)", what, p, n, code, strerror(code));
  vf_err_reset();
  (void)S;
}

struct AreaCtx { uintptr_t target; uintptr_t lo = 0, hi = 0; };
static bool area_visitor(const mi_heap_t*, const mi_heap_area_t* area, void* block, size_t, void* arg) {
  AreaCtx* c = (AreaCtx*)arg;
  if (block == nullptr) { uintptr_t lo = (uintptr_t)area->blocks, hi = lo + area->reserved; if (c->target >= lo && c->target < hi) { c->lo = lo; c->hi = hi; return false; } }
  return true;
}
// does the area (page) of block b hold another live block?
static bool area_has_other_live(State& S, vf::Blk* b) {
  AreaCtx c; c.target = (uintptr_t)b->p;
  mi_heap_visit_blocks(S.heaps[b->heap].h, false, &area_visitor, &c);
  if (c.lo == 0) return false;
  for (auto it = S.sm.by_addr.lower_bound(c.lo); it != S.sm.by_addr.end() && it->first < c.hi; ++it) if (it->second != b) return true;
  return false;
}

static size_t attack_size(State& S) {
  unsigned r = (unsigned)vf_rng_below(&S.rng, 100);
  size_t n;
  if (r < 55) n = 1 + (size_t)vf_rng_below(&S.rng, 1024);
  else if (r < 85) n = 1025 + (size_t)vf_rng_below(&S.rng, 7 * 1024);
  else n = 8 * 1024 + 1 + (size_t)vf_rng_below(&S.rng, 56 * 1024 - 64);
  return n;
}

static int ensure_default_is_backing(State& S) { return S.cur_default; }

// (1) second free of a thread-local block whose area still holds another live block
static void attack_double_free(State& S) {
  size_t n = attack_size(S);
  int K = 3 + (int)vf_rng_below(&S.rng, 4);
  std::vector<vf::Blk*> bs;
  for (int i = 0; i < K; i++) { vf::Blk* b = do_alloc(S, EP_malloc, n); if (b) bs.push_back(b); }
  if (bs.size() < 2) { g_att_skipped++; return; }
  vf::Blk* victim = bs[vf_rng_below(&S.rng, bs.size())];
  if (!area_has_other_live(S, victim)) { g_att_skipped++; return; }
  void* p = victim->p;
  do_free(S, victim, EP_free);            // first free (legitimate)
  // between the two frees (no allocation of that class, so the block cannot have been handed out again): nothing, or the freed block migrates
  // from the page's local free list to its free list (collect), or unrelated activity in other size classes
  switch (vf_rng_below(&S.rng, 5)) {
    case 1: vf_cur_what = "collect between frees"; mi_collect(false); g_att_migrated++; break;
    case 2: vf_cur_what = "collect between frees"; mi_heap_collect(S.heaps[S.cur_default].h, true); g_att_migrated++; break;
    case 3: { size_t other = (n < 4096 ? n * 3 + 4096 : n / 3); vf::Blk* x = do_alloc(S, EP_malloc, other); if (x) do_free(S, x, EP_free); break; }
    default: break;
  }
  vf_cur_what = "second free";
  begin_attack(EAGAIN);
  g_att_double++; g_att_classes.insert(mi_good_size(n));
  mi_free(p);                             // second free, before any allocation of that class
  end_attack(S, "second free of a thread-local block while its area holds another live block", "double-free-undetected", n, p);
  if (S.cfg.secure) check_conservation(S, "after an ignored double free", "C17");
  (void)ensure_default_is_backing;
}

// (1b) the block freed twice sits DEEP in the page's free lists while only one or two blocks of the page are live: private heap, fresh page, M blocks,
// all but one or two are freed (the victim first, so that it ends up deepest), optionally a collect, then the victim is freed again
static void attack_double_free_deep(State& S) {
  int alive = 0; for (auto& e : S.heaps) if (e.alive) alive++;
  if (alive >= 9) { g_att_skipped++; return; }
  size_t n = attack_size(S); if (n > 4096) n = 16 + n % 2048;
  mi_heap_t* h = mi_heap_new(); if (h == nullptr) { g_att_skipped++; return; }
  HeapEnt e; e.h = h; e.alive = true; S.heaps.push_back(e);
  int hi = (int)S.heaps.size() - 1;
  S.force_heap = hi;
  const int M = 10 + (int)vf_rng_below(&S.rng, 22);
  std::vector<vf::Blk*> bs;
  for (int i = 0; i < M; i++) { vf::Blk* b = do_alloc(S, EP_heap_malloc, n); if (b) bs.push_back(b); }
  S.force_heap = -1;
  bool done = false;
  if ((int)bs.size() == M) {
    const int nlive = 1 + (int)vf_rng_below(&S.rng, 2);
    // all blocks in the same 64 KiB page as the victim? (otherwise the picture is not the intended one: skip)
    vf::Blk* victim = bs[0];
    bool same = true; for (vf::Blk* b : bs) if (((uintptr_t)b->p >> 16) != ((uintptr_t)victim->p >> 16)) same = false;
    if (same) {
      void* p = victim->p;
      do_free(S, victim, EP_free);
      for (int i = 1; i < M - nlive; i++) do_free(S, bs[(size_t)i], EP_free);
      switch (vf_rng_below(&S.rng, 3)) {
        case 1: vf_cur_what = "collect between frees"; mi_heap_collect(h, false); g_att_migrated++; break;
        case 2: vf_cur_what = "collect between frees"; mi_heap_collect(h, true); g_att_migrated++; break;
        default: break;
      }
      vf_cur_what = "second free (deep in the list, few live blocks)";
      begin_attack(EAGAIN);
      g_att_double++; g_att_double_deep++; g_att_classes.insert(mi_good_size(n));
      mi_free(p);
      end_attack(S, "second free of a thread-local block that sits deep in its page's free list while the page holds only 1-2 live blocks", "double-free-undetected", n, p);
      done = true;
      if (S.cfg.secure) {
        // the heap stays usable: nothing is handed out twice (the shadow model's overlap oracle watches these allocations)
        S.force_heap = hi;
        std::vector<vf::Blk*> again; for (int i = 0; i < M + 8; i++) { vf::Blk* b = do_alloc(S, EP_heap_malloc, n); if (b) again.push_back(b); }
        S.force_heap = -1;
        for (vf::Blk* b : again) S.sm.verify(b, "after an ignored double free");
      }
    }
  }
  if (!done) g_att_skipped++;
  std::vector<vf::Blk*> mine; for (vf::Blk* b : S.sm.live) if (b->heap == hi) mine.push_back(b);
  for (vf::Blk* b : mine) { S.sm.verify(b, "before destroying the attacked heap"); S.sm.remove(b); }
  mi_heap_destroy(h);
  S.heaps[hi].alive = false;
}

// (2) a foreign byte just past the requested size
static void attack_overflow(State& S) {
  size_t n = attack_size(S);
  if (vf_rng_chance(&S.rng, 1, 4)) n = 1 + (size_t)vf_rng_below(&S.rng, 16);     // tiny blocks: the padding shares the block's last word
  vf::Blk* b = do_alloc(S, (vf_rng_chance(&S.rng, 1, 2) ? EP_malloc : EP_zalloc), n);
  if (b == nullptr) { g_att_skipped++; return; }
  uint8_t* p = b->p; n = b->n;
  uint8_t oldv = p[n];
  uint8_t newv = (uint8_t)(vf_rng_next(&S.rng) & 0xff);
  if (newv == oldv) newv = (uint8_t)(oldv ^ 0x5a);
  p[n] = newv;                            // the program error
  // a few ordinary operations may happen in between
  vf_cur_what = "free of an overflowed block";
  S.sm.verify(b, "before free of the overflowed block");
  const int blk_heap = b->heap;
  S.sm.remove(b);
  begin_attack(EFAULT);
  g_att_overflow++; g_att_classes.insert(mi_good_size(n));
  if (!S.cfg.debug && vf_rng_chance(&S.rng, 1, 3)) {
    // the overflowed block is freed by another thread (the report must come all the same)
    g_att_remote_overflow++;
    try { std::thread t([p]() { mi_free(p); }); t.join(); } catch (const std::system_error& e) { vf_trip("harness", "", "cannot create a thread: %s", e.what()); }
    // the owner takes the remotely freed block over inside the attack window (the overflow may be reported again at that point)
    if (blk_heap >= 0 && S.heaps[blk_heap].alive) mi_heap_collect(S.heaps[blk_heap].h, false);
  }
  else mi_free(p);
  S.n_free++;
  end_attack(S, "write of a foreign byte just past the requested size", "overflow-undetected", n, p);
  if (S.cfg.secure) check_conservation(S, "after a reported overflow", "C17");
}

// (3) an overwritten free-list link
static void attack_forged_link(State& S) {
  int alive = 0; for (auto& e : S.heaps) if (e.alive) alive++;
  if (alive >= 9) { g_att_skipped++; return; }
  size_t n = attack_size(S);
  mi_heap_t* h = mi_heap_new();
  if (h == nullptr) { g_att_skipped++; return; }
  HeapEnt e; e.h = h; e.alive = true; S.heaps.push_back(e);
  int hi = (int)S.heaps.size() - 1;
  S.force_heap = hi;
  int K = 4 + (int)vf_rng_below(&S.rng, 8);
  std::vector<vf::Blk*> bs;
  for (int i = 0; i < K; i++) { vf::Blk* b = do_alloc(S, EP_heap_malloc, n); if (b) bs.push_back(b); }
  if (bs.size() < 3) { S.force_heap = -1; g_att_skipped++; return; }
  size_t vi = 1 + (size_t)vf_rng_below(&S.rng, bs.size() - 2);
  vf::Blk* victim = bs[vi];
  if (!area_has_other_live(S, victim)) { S.force_heap = -1; g_att_skipped++; return; }
  uint8_t* p = victim->p;
  do_free(S, victim, EP_free);
  uint64_t forged = vf_rng_next(&S.rng) | 1;     // random 64-bit value (decodes into the same area with probability ~2^-48)
  memcpy(p, &forged, sizeof(forged));           // the program error: use after free overwriting the link
  vf_cur_what = "allocations reaching a forged free-list link";
  begin_attack(EFAULT);
  S.walk_disabled = true;                        // the allocator may drop the rest of that free list
  size_t made = 0;
  const size_t limit = 20000;
  g_att_forged++; g_att_classes.insert(mi_good_size(n));
  while (g_expect_seen == 0 && made < limit) {
    vf::Blk* b = do_alloc(S, EP_heap_malloc, n);
    made++;
    if (b == nullptr) break;
    if (g_unexpected_code != 0) break;
  }
  g_forged_allocs_until_report += made;
  S.force_heap = -1;
  end_attack(S, "overwritten free-list link", "forged-link-unreported", n, p);
  // give most of the memory back so the history stays small
  std::vector<vf::Blk*> mine;
  for (vf::Blk* b : S.sm.live) if (b->heap == hi) mine.push_back(b);
  for (size_t i = 0; i < mine.size() && i < made; i++) do_free(S, mine[i]);
  if (S.cfg.secure) check_conservation(S, "after a reported free-list corruption", "C17");
}

// (3b) the forged link is reached by the list walk of the double-free check instead of by an allocation: it must be reported, not followed.
// What the allocator may still hand out afterwards is not specified for two combined program errors, so this runs in a private heap
// that is destroyed right after (secure build only).
static void attack_forged_walk(State& S) {
  int alive = 0; for (auto& e : S.heaps) if (e.alive) alive++;
  if (alive >= 9 || S.cfg.debug) { g_att_skipped++; return; }
  size_t n = attack_size(S); if (n > 8192) n = 64 + n % 4096;
  mi_heap_t* h = mi_heap_new(); if (h == nullptr) { g_att_skipped++; return; }
  HeapEnt e; e.h = h; e.alive = true; S.heaps.push_back(e);
  int hi = (int)S.heaps.size() - 1;
  S.force_heap = hi;
  std::vector<vf::Blk*> bs;
  for (int i = 0; i < 8; i++) { vf::Blk* b = do_alloc(S, EP_heap_malloc, n); if (b) bs.push_back(b); }
  S.force_heap = -1;
  if (bs.size() == 8 && area_has_other_live(S, bs[2])) {
    uint8_t* p2 = bs[5]->p; uint8_t* p1 = bs[2]->p;
    do_free(S, bs[5], EP_free);          // freed first: deeper in the list
    do_free(S, bs[2], EP_free);          // freed second: the head, its link gets forged
    uint64_t forged = vf_rng_next(&S.rng) | 1;
    memcpy(p1, &forged, sizeof(forged));
    vf_cur_what = "second free walking over a forged link";
    vf_err_reset(); g_expect_code = EFAULT; g_expect_seen = 0; g_unexpected_code = 0;
    g_att_forged_walk++;
    mi_free(p2);                         // the double-free check walks the page's lists and meets the forged link
    g_expect_code = 0;
    int nerr = vf_err_count; if (nerr > VF_MAX_ERRS) nerr = VF_MAX_ERRS;
    bool only = true; for (int i = 0; i < nerr; i++) if (vf_err_codes[i] != EAGAIN && vf_err_codes[i] != EFAULT) only = false;
    if (g_expect_seen == 0 && vf_err_seen(EAGAIN) == 0)
      vf_trip("forged-link-unreported", "C17", "a free whose double-free check walked over a forged free-list link (block %p, size %zu) reported neither EFAULT nor EAGAIN", (void*)p1, n);
    if (!only) vf_trip("hardening-wrong-report", "C17", "unexpected error code %d while walking over a forged link: %s", (int)vf_err_codes[0], vf_last_msgs);
    vf_err_reset();
  }
  else g_att_skipped++;
  // drop the private heap with whatever state it is in
  std::vector<vf::Blk*> mine; for (vf::Blk* b : S.sm.live) if (b->heap == hi) mine.push_back(b);
  for (vf::Blk* b : mine) { S.sm.verify(b, "before destroying the attacked heap"); S.sm.remove(b); }
  mi_heap_destroy(h);
  S.heaps[hi].alive = false;
  vf_err_reset();
}

// (3c) the forged link sits in a block on the page's local free list while the page's free list is not empty; a FORCED collect appends the one list to the
// other and walks the links to find the tail: it must report the forged link, not follow it.  Private heap (destroyed afterwards); the secure build's heap must stay usable.
static void attack_forged_collect(State& S) {
  int alive = 0; for (auto& e : S.heaps) if (e.alive) alive++;
  if (alive >= 9 || S.cfg.debug) { g_att_skipped++; return; }
  size_t n = attack_size(S); if (n > 2048) n = 16 + n % 1024;
  mi_heap_t* h = mi_heap_new(); if (h == nullptr) { g_att_skipped++; return; }
  HeapEnt e; e.h = h; e.alive = true; S.heaps.push_back(e);
  int hi = (int)S.heaps.size() - 1;
  S.force_heap = hi;
  std::vector<vf::Blk*> bs;
  for (int i = 0; i < 6; i++) { vf::Blk* b = do_alloc(S, EP_heap_malloc, n); if (b) bs.push_back(b); }      // far fewer than a page holds: its free list stays non-empty
  S.force_heap = -1;
  if (bs.size() == 6) {
    uint8_t* p1 = bs[1]->p; 
    do_free(S, bs[3], EP_free);          // local free list: bs[3]
    do_free(S, bs[1], EP_free);          // local free list: bs[1] -> bs[3]; the head's link gets forged
    uint64_t forged = vf_rng_next(&S.rng) | 1;
    memcpy(p1, &forged, sizeof(forged));
    vf_cur_what = "forced collect walking over a forged link";
    vf_err_reset(); g_expect_code = EFAULT; g_expect_seen = 0; g_unexpected_code = 0;
    g_att_forged_collect++; g_att_forged++;
    mi_heap_collect(h, true);
    g_expect_code = 0;
    if (g_expect_seen == 0)
      vf_trip("forged-link-unreported", "C17", "a forced collect appended a local free list whose head (block %p, size %zu) had a forged link: no EFAULT was reported (the link was followed)", (void*)p1, n);
    if (g_unexpected_code != 0) vf_trip("hardening-wrong-report", "C17", "unexpected error code %d during a forced collect over a forged link: %s", g_unexpected_code, vf_last_msgs);
    vf_err_reset();
    // the heap stays usable
    S.force_heap = hi;
    std::vector<vf::Blk*> again; for (int i = 0; i < 24; i++) { vf::Blk* b = do_alloc(S, EP_heap_malloc, n); if (b) again.push_back(b); }
    S.force_heap = -1;
    for (vf::Blk* b : again) S.sm.verify(b, "after a reported forged link");
  }
  else g_att_skipped++;
  std::vector<vf::Blk*> mine; for (vf::Blk* b : S.sm.live) if (b->heap == hi) mine.push_back(b);
  for (vf::Blk* b : mine) { S.sm.verify(b, "before destroying the attacked heap"); S.sm.remove(b); }
  mi_heap_destroy(h);
  S.heaps[hi].alive = false;
  vf_err_reset();
}

// (1c) second free of an OVER-ALIGNED block (the pointer lies inside its block) whose page became completely empty in between and was kept by the allocator
// (the only page of its class in a private heap), and holds a live block again at the time of the second free
struct FindCtx { uintptr_t target; uintptr_t start = 0; size_t bsize = 0; uintptr_t alo = 0, ahi = 0; };
static bool find_block_visitor(const mi_heap_t*, const mi_heap_area_t* area, void* block, size_t bsize, void* arg) {
  FindCtx* c = (FindCtx*)arg;
  if (block == nullptr) return true;
  uintptr_t b = (uintptr_t)block;
  if (c->target >= b && c->target < b + bsize) { c->start = b; c->bsize = bsize; c->alo = (uintptr_t)area->blocks; c->ahi = c->alo + area->reserved; return false; }
  return true;
}
static uint64_t g_att_double_aligned = 0;
static void attack_double_free_aligned(State& S) {
  mi_heap_t* h = mi_heap_new(); if (h == nullptr) { g_att_skipped++; return; }
  const size_t A = (size_t)64 << vf_rng_below(&S.rng, 4);                  // 64 .. 512
  const size_t n = 20 + (size_t)vf_rng_below(&S.rng, 3 * A);
  const int K = 3 + (int)vf_rng_below(&S.rng, 4);
  std::vector<uint8_t*> as; std::vector<FindCtx> where;
  vf_cur_what = "heap_malloc_aligned";
  for (int i = 0; i < K; i++) { uint8_t* a = (uint8_t*)mi_heap_malloc_aligned(h, n, A); if (a) { memset(a, 0x6b, n); as.push_back(a); } }
  bool ok = ((int)as.size() == K);
  for (uint8_t* a : as) { FindCtx c; c.target = (uintptr_t)a; mi_heap_visit_blocks(h, true, &find_block_visitor, &c); where.push_back(c); if (c.start == 0) ok = false; }
  size_t vi = SIZE_MAX;
  if (ok) for (size_t i = 0; i + 1 < as.size(); i++) if (where[i].start != (uintptr_t)as[i]) { vi = i; break; }    // an interior pointer, and not the block that is handed out first afterwards
  if (ok) for (auto& c : where) if (c.alo != where[0].alo || c.bsize != where[0].bsize) ok = false;                  // one page, one class
  if (!ok || vi == SIZE_MAX) { for (uint8_t* a : as) mi_free(a); mi_heap_destroy(h); g_att_skipped++; return; }
  uint8_t* victim = as[vi];
  vf_cur_what = "free";
  mi_free(victim);                                                      // first free (legitimate)
  for (size_t i = 0; i < as.size(); i++) if (i != vi) mi_free(as[i]);   // the page is empty now (and kept: the only page of its class in this heap)
  // (no collect here: a collect releases a completely empty page, and a second free after the area was released is outside the claim)
  std::vector<uint8_t*> live;
  const size_t cn = where[0].bsize - 16;                                // same size class
  vf_cur_what = "heap_malloc";
  uint8_t* c = (uint8_t*)mi_heap_malloc(h, cn);
  if (c == nullptr || (uintptr_t)c < where[0].alo || (uintptr_t)c >= where[0].ahi || (uintptr_t)c == where[vi].start) {   // not the intended picture (page was released, or the victim's block was reused)
    mi_heap_destroy(h); g_att_skipped++; return;
  }
  memset(c, 0x6c, cn); live.push_back(c);
  vf_cur_what = "second free of an over-aligned block";
  begin_attack(EAGAIN);
  g_att_double++; g_att_double_aligned++; g_att_classes.insert(where[0].bsize);
  mi_free(victim);
  end_attack(S, "second free of an over-aligned block (interior pointer) after its page had been empty and was reused", "double-free-undetected", n, victim);
  if (S.cfg.secure) {
    // the heap stays usable: nothing is handed out twice
    vf_cur_what = "heap_malloc after an ignored double free";
    for (int i = 0; i < 2 * K + 8; i++) { uint8_t* q = (uint8_t*)mi_heap_malloc(h, cn); if (q) { memset(q, 0x6d + (i & 7), cn); live.push_back(q); } }
    std::sort(live.begin(), live.end());
    for (size_t i = 0; i + 1 < live.size(); i++)
      if (live[i] + cn > live[i + 1])
        vf_trip("overlap", "C17,C01", "after an ignored second free of the over-aligned block %p two live blocks of %zu bytes overlap: %p and %p", (void*)victim, cn, (void*)live[i], (void*)live[i + 1]);
    for (size_t i = 0; i < live.size(); i++) { uint8_t want = (live[i] == c ? 0x6c : 0); if (want && (live[i][0] != want || live[i][cn - 1] != want)) vf_trip("contents", "C17,C01", "live block %p changed after an ignored double free", (void*)live[i]); }
  }
  mi_heap_destroy(h);
  vf_err_reset();
}

// ------------------------------------------------------------------------------------------------------------------------------------------
// Dedicated cases of recorded findings (known_findings.json K4, K5, K6): one short history each, nothing else runs in the process.
// ------------------------------------------------------------------------------------------------------------------------------------------
// K4/K5: the FIRST free of a block by another thread parks the block on the owning heap's delayed-free list (links encoded with the heap's keys).
// That list is outside both the link check and the double-free check.
static void run_delayed_list_case(State& S, bool forged) {
  const size_t n = 32 + 16 * (size_t)vf_rng_below(&S.rng, 30);
  mi_heap_t* h = mi_heap_new();                                        // a private heap: its pages have not seen a free by another thread yet
  if (h == nullptr) vf_trip("harness", "", "mi_heap_new failed");
  std::vector<uint8_t*> bs;
  for (int i = 0; i < 16; i++) { uint8_t* b = (uint8_t*)mi_heap_malloc(h, n); if (b) { memset(b, 0x71, n); bs.push_back(b); } }
  if (bs.size() < 16) vf_trip("harness", "", "allocation failed");
  uint8_t* p = bs[5];
  vf_cur_what = "free by another thread";
  std::thread t([p]() { mi_free(p); }); t.join();                     // first free (legitimate): parked on the delayed-free list of the heap
  if (forged) {
    uint64_t v = vf_rng_next(&S.rng) | 1;
    memcpy(p, &v, sizeof(v));                                           // the program error: the link word of the freed block is overwritten
    vf_cur_what = "collect reaching an overwritten link of the delayed-free list";
    begin_attack(EFAULT);
    g_att_forged++;
    mi_heap_collect(h, false);
    for (int i = 0; i < 300 && g_expect_seen == 0; i++) { void* q = mi_heap_malloc(h, n); (void)q; }
    end_attack(S, "overwritten link of a block that another thread freed (delayed-free list)", "forged-link-unreported", n, p);
  } else {
    vf_cur_what = "second free after a first free by another thread";
    begin_attack(EAGAIN);
    g_att_double++;
    mi_free(p);                                                         // second free, by the owning thread; the page holds 15 live blocks
    end_attack(S, "second (thread-local) free of a block whose first free came from another thread and is still parked on the delayed-free list", "double-free-undetected", n, p);
  }
  for (size_t i = 0; i < bs.size(); i++) if (i != 5 && (bs[i][0] != 0x71 || bs[i][n - 1] != 0x71)) vf_trip("contents", "C17,C01", "live block %p changed", (void*)bs[i]);
  mi_heap_destroy(h);
  vf_err_reset();
}
// K6 (debug builds): the sized free asserts on the usable size of the block before any check of mi_free runs
static void run_sized_double_case(State& S) {
  const size_t n = 24 + (size_t)vf_rng_below(&S.rng, 900);
  std::vector<vf::Blk*> bs;
  for (int i = 0; i < 6; i++) { vf::Blk* b = do_alloc(S, EP_malloc, n); if (b) bs.push_back(b); }
  if (bs.size() < 6) vf_trip("harness", "", "allocation failed");
  vf::Blk* victim = bs[2]; uint8_t* p = victim->p;
  S.sm.verify(victim, "before free"); S.sm.remove(victim);
  vf_cur_what = "free_size";
  mi_free_size(p, n);                                                   // first free (legitimate)
  vf_cur_what = "second free through mi_free_size";
  begin_attack(EAGAIN);
  g_att_double++;
  mi_free_size(p, n);
  end_attack(S, "second free through mi_free_size", "double-free-undetected", n, p);
}

static void harden_print(FILE* f) {
  fprintf(f, ",\"hardening\":{\"double_free\":%llu,\"overflow\":%llu,\"forged_link\":%llu,\"skipped\":%llu,\"classes\":%zu,\"allocs_until_forged_reported\":%llu,\"double_free_after_migration\":%llu,\"overflow_freed_remotely\":%llu,\"forged_link_met_by_double_free_walk\":%llu,\"double_free_deep\":%llu,\"forged_link_met_by_forced_collect\":%llu,\"double_free_over_aligned_after_retire\":%llu}",
          (unsigned long long)g_att_double, (unsigned long long)g_att_overflow, (unsigned long long)g_att_forged, (unsigned long long)g_att_skipped, g_att_classes.size(),
          (unsigned long long)g_forged_allocs_until_report, (unsigned long long)g_att_migrated, (unsigned long long)g_att_remote_overflow, (unsigned long long)g_att_forged_walk, (unsigned long long)g_att_double_deep, (unsigned long long)g_att_forged_collect, (unsigned long long)g_att_double_aligned);
  (void)g_att_classes_n;
}

void run_hardening(State& S) {
  add_result_printer(&harden_print);
  if (!S.cfg.padding) vf_trip("harness", "", "the hardening profile needs a secure or debug build");
  mi_register_error(&harden_error_cb, nullptr);
  S.region_check = true;
  S.cfg.size_cap = 64 * 1024;
  std::string keep = S.cfg.profile;
  history_begin(S);
  if (S.cfg.scenario == "delayed-forged" || S.cfg.scenario == "delayed-double" || S.cfg.scenario == "sized-double") {
    if (S.cfg.scenario == "sized-double") run_sized_double_case(S); else run_delayed_list_case(S, S.cfg.scenario == "delayed-forged");
    history_end(S);
    return;
  }
  uint64_t next_attack = 20 + vf_rng_below(&S.rng, S.cfg.debug ? (S.cfg.ops > 40 ? S.cfg.ops - 40 : 1) : 120);
  for (S.op_index = 0; S.op_index < S.cfg.ops; S.op_index++) {
    history_step(S);
    if (S.op_index >= next_attack) {
      unsigned k = (unsigned)vf_rng_below(&S.rng, 7);
      if (k < 2) { unsigned j = (unsigned)vf_rng_below(&S.rng, 6); if (j < 2) attack_double_free_deep(S); else if (j < 4) attack_double_free_aligned(S); else attack_double_free(S); }
      else if (k < 4) attack_overflow(S);
      else if (k < 6) attack_forged_link(S);
      else if (vf_rng_chance(&S.rng, 1, 2)) attack_forged_walk(S); else attack_forged_collect(S);
      next_attack = S.op_index + 40 + vf_rng_below(&S.rng, 160);
      if (S.cfg.debug && (g_att_double + g_att_overflow + g_att_forged) > 0) {
        // debug build and the attack was NOT reported (otherwise the callback ended the case)
        vf_trip("harness", "", "debug case continued after an attack");
      }
    }
  }
  history_end(S);
}

} // namespace seq
