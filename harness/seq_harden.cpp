// seq_harden.cpp -- C17: hardened builds (MI_SECURE>=4, MI_DEBUG) detect double free, overflow past the requested size and
// overwritten free-list links; the secure build stays consistent afterwards.
// sec: many attacks inside one ordinary history, all shadow-model oracles stay active afterwards.
// dbg: one attack per case; the case ends at the first *expected* report (debug assertions after a detected error are outside the claim).
#include "seq.hpp"

namespace seq {

static uint64_t g_att_double = 0, g_att_overflow = 0, g_att_forged = 0, g_att_skipped = 0, g_forged_allocs_until_report = 0, g_att_classes_n = 0;
static std::set<size_t> g_att_classes;
static volatile int g_expect_code = 0;       // error code the running attack must produce
static volatile int g_expect_seen = 0;
static volatile int g_unexpected_code = 0;

static void harden_error_cb(int err, void* arg) {
  (void)arg;
  State& S = *G;
  if (g_expect_code != 0 && err == g_expect_code) {
    g_expect_seen++;
    if (S.cfg.debug) {
      // debug build: detection observed; internal assertions that may follow are outside the claim
      vf_finish_ok();
    }
    return;
  }
  if (g_unexpected_code == 0) g_unexpected_code = err;
  vf_error_cb(err, nullptr);
}

static void begin_attack(int code) { vf_err_reset(); g_expect_code = code; g_expect_seen = 0; g_unexpected_code = 0; }
static void end_attack(State& S, const char* what, const char* detail_fmt, size_t n, void* p) {
  int seen = g_expect_seen, code = g_expect_code;
  g_expect_code = 0;
  if (g_unexpected_code != 0)
    vf_trip("hardening-wrong-report", "C17", "%s (block %p, size %zu): mimalloc reported error %d (%s) instead of %d: %s", what, p, n, (int)g_unexpected_code, strerror(g_unexpected_code), code, vf_last_msgs);
  if (seen == 0)
    vf_trip(detail_fmt, "C17", "%s (block %p, size %zu) was not reported (expected error code %d %s)", what, p, n, code, strerror(code));
  vf_err_reset();
  (void)S;
}

struct AreaCtx { uintptr_t target; uintptr_t lo = 0, hi = 0; };
static bool area_visitor(const mi_heap_t*, const mi_heap_area_t* area, void* block, size_t, void* arg) {
  AreaCtx* c = (AreaCtx*)arg;
  if (block == nullptr) { uintptr_t lo = (uintptr_t)area->blocks, hi = lo + area->reserved; if (c->target >= lo && c->target < hi) { c->lo = lo; c->hi = hi; return false; } }
  return true;
}
// does the area (page) of block b hold another live block?
static bool area_has_other_live(State& S, vf::Blk* b) {
  AreaCtx c; c.target = (uintptr_t)b->p;
  mi_heap_visit_blocks(S.heaps[b->heap].h, false, &area_visitor, &c);
  if (c.lo == 0) return false;
  for (auto it = S.sm.by_addr.lower_bound(c.lo); it != S.sm.by_addr.end() && it->first < c.hi; ++it) if (it->second != b) return true;
  return false;
}

static size_t attack_size(State& S) {
  unsigned r = (unsigned)vf_rng_below(&S.rng, 100);
  size_t n;
  if (r < 55) n = 1 + (size_t)vf_rng_below(&S.rng, 1024);
  else if (r < 85) n = 1025 + (size_t)vf_rng_below(&S.rng, 7 * 1024);
  else n = 8 * 1024 + 1 + (size_t)vf_rng_below(&S.rng, 56 * 1024 - 64);
  return n;
}

static int ensure_default_is_backing(State& S) { return S.cur_default; }

// (1) second free of a thread-local block whose area still holds another live block
static void attack_double_free(State& S) {
  size_t n = attack_size(S);
  int K = 3 + (int)vf_rng_below(&S.rng, 4);
  std::vector<vf::Blk*> bs;
  for (int i = 0; i < K; i++) { vf::Blk* b = do_alloc(S, EP_malloc, n); if (b) bs.push_back(b); }
  if (bs.size() < 2) { g_att_skipped++; return; }
  vf::Blk* victim = bs[vf_rng_below(&S.rng, bs.size())];
  if (!area_has_other_live(S, victim)) { g_att_skipped++; return; }
  void* p = victim->p;
  do_free(S, victim, EP_free);            // first free (legitimate)
  vf_cur_what = "second free";
  begin_attack(EAGAIN);
  g_att_double++; g_att_classes.insert(mi_good_size(n));
  mi_free(p);                             // second free, before any allocation of that class
  end_attack(S, "second free of a thread-local block while its area holds another live block", "double-free-undetected", n, p);
  if (S.cfg.secure) check_conservation(S, "after an ignored double free", "C17");
  (void)ensure_default_is_backing;
}

// (2) a foreign byte just past the requested size
static void attack_overflow(State& S) {
  size_t n = attack_size(S);
  vf::Blk* b = do_alloc(S, (vf_rng_chance(&S.rng, 1, 2) ? EP_malloc : EP_zalloc), n);
  if (b == nullptr) { g_att_skipped++; return; }
  uint8_t* p = b->p; n = b->n;
  uint8_t oldv = p[n];
  uint8_t newv = (uint8_t)(vf_rng_next(&S.rng) & 0xff);
  if (newv == oldv) newv = (uint8_t)(oldv ^ 0x5a);
  p[n] = newv;                            // the program error
  // a few ordinary operations may happen in between
  vf_cur_what = "free of an overflowed block";
  S.sm.verify(b, "before free of the overflowed block");
  S.sm.remove(b);
  begin_attack(EFAULT);
  g_att_overflow++; g_att_classes.insert(mi_good_size(n));
  mi_free(p);
  S.n_free++;
  end_attack(S, "write of a foreign byte just past the requested size", "overflow-undetected", n, p);
  if (S.cfg.secure) check_conservation(S, "after a reported overflow", "C17");
}

// (3) an overwritten free-list link
static void attack_forged_link(State& S) {
  int alive = 0; for (auto& e : S.heaps) if (e.alive) alive++;
  if (alive >= 9) { g_att_skipped++; return; }
  size_t n = attack_size(S);
  mi_heap_t* h = mi_heap_new();
  if (h == nullptr) { g_att_skipped++; return; }
  HeapEnt e; e.h = h; e.alive = true; S.heaps.push_back(e);
  int hi = (int)S.heaps.size() - 1;
  S.force_heap = hi;
  int K = 4 + (int)vf_rng_below(&S.rng, 8);
  std::vector<vf::Blk*> bs;
  for (int i = 0; i < K; i++) { vf::Blk* b = do_alloc(S, EP_heap_malloc, n); if (b) bs.push_back(b); }
  if (bs.size() < 3) { S.force_heap = -1; g_att_skipped++; return; }
  size_t vi = 1 + (size_t)vf_rng_below(&S.rng, bs.size() - 2);
  vf::Blk* victim = bs[vi];
  if (!area_has_other_live(S, victim)) { S.force_heap = -1; g_att_skipped++; return; }
  uint8_t* p = victim->p;
  do_free(S, victim, EP_free);
  uint64_t forged = vf_rng_next(&S.rng) | 1;     // random 64-bit value (decodes into the same area with probability ~2^-48)
  memcpy(p, &forged, sizeof(forged));           // the program error: use after free overwriting the link
  vf_cur_what = "allocations reaching a forged free-list link";
  begin_attack(EFAULT);
  S.walk_disabled = true;                        // the allocator may drop the rest of that free list
  size_t made = 0;
  const size_t limit = 20000;
  g_att_forged++; g_att_classes.insert(mi_good_size(n));
  while (g_expect_seen == 0 && made < limit) {
    vf::Blk* b = do_alloc(S, EP_heap_malloc, n);
    made++;
    if (b == nullptr) break;
    if (g_unexpected_code != 0) break;
  }
  g_forged_allocs_until_report += made;
  S.force_heap = -1;
  end_attack(S, "overwritten free-list link", "forged-link-unreported", n, p);
  // give most of the memory back so the history stays small
  std::vector<vf::Blk*> mine;
  for (vf::Blk* b : S.sm.live) if (b->heap == hi) mine.push_back(b);
  for (size_t i = 0; i < mine.size() && i < made; i++) do_free(S, mine[i]);
  if (S.cfg.secure) check_conservation(S, "after a reported free-list corruption", "C17");
}

static void harden_print(FILE* f) {
  fprintf(f, ",\"hardening\":{\"double_free\":%llu,\"overflow\":%llu,\"forged_link\":%llu,\"skipped\":%llu,\"classes\":%zu,\"allocs_until_forged_reported\":%llu}",
          (unsigned long long)g_att_double, (unsigned long long)g_att_overflow, (unsigned long long)g_att_forged, (unsigned long long)g_att_skipped, g_att_classes.size(),
          (unsigned long long)g_forged_allocs_until_report);
  (void)g_att_classes_n;
}

void run_hardening(State& S) {
  add_result_printer(&harden_print);
  if (!S.cfg.padding) vf_trip("harness", "", "the hardening profile needs a secure or debug build");
  mi_register_error(&harden_error_cb, nullptr);
  S.region_check = true;
  S.cfg.size_cap = 64 * 1024;
  std::string keep = S.cfg.profile;
  history_begin(S);
  uint64_t next_attack = 20 + vf_rng_below(&S.rng, S.cfg.debug ? (S.cfg.ops > 40 ? S.cfg.ops - 40 : 1) : 120);
  for (S.op_index = 0; S.op_index < S.cfg.ops; S.op_index++) {
    history_step(S);
    if (S.op_index >= next_attack) {
      unsigned k = (unsigned)vf_rng_below(&S.rng, 3);
      if (k == 0) attack_double_free(S);
      else if (k == 1) attack_overflow(S);
      else attack_forged_link(S);
      next_attack = S.op_index + 40 + vf_rng_below(&S.rng, 160);
      if (S.cfg.debug && (g_att_double + g_att_overflow + g_att_forged) > 0) {
        // debug build and the attack was NOT reported (otherwise the callback ended the case)
        vf_trip("harness", "", "debug case continued after an attack");
      }
    }
  }
  history_end(S);
}

} // namespace seq
