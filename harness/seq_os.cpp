// seq_os.cpp -- profiles that judge OS-level behaviour through the shim/ledger:
//   faults (C07): a workload under an injected fault plan, heal, battery, give-back
//   ledger (C11): repeated allocate-everything / free-everything rounds; mappings and residency must not creep
//   purge  (C18): delayed purging under a virtual clock
#include "seq.hpp"
#include <thread>
#include <atomic>
#include <algorithm>
#include <system_error>

namespace seq {

static const size_t KiB = 1024, MiB = 1024 * 1024;

struct ArenaArea { uintptr_t lo, hi; };
static std::vector<ArenaArea> arena_areas() {
  std::vector<ArenaArea> v;
  for (int id = 1; id < 130; id++) { size_t sz = 0; void* p = mi_arena_area((mi_arena_id_t)id, &sz); if (p == nullptr) break; ArenaArea a; a.lo = (uintptr_t)p; a.hi = a.lo + sz; v.push_back(a); }
  return v;
}
static bool in_arena(const std::vector<ArenaArea>& as, uintptr_t lo, uintptr_t hi) {
  for (auto& a : as) if (lo < a.hi && hi > a.lo) return true;   // a region that holds an arena (the mapping may be slightly larger than the arena)
  return false;
}

// arena blocks in use, as reported by the allocator's own diagnostic output ("total inuse blocks : N")
static std::string g_capture;
static void capture_out(const char* msg, void*) { if (g_capture.size() < (1u << 22)) g_capture += msg; }
static long arena_inuse_blocks() {
  g_capture.clear();
  mi_register_output(&capture_out, nullptr);
  mi_debug_show_arenas();
  mi_register_output(&vf_output_cb, nullptr);
  size_t pos = g_capture.rfind("total inuse blocks");
  long n = -1;
  if (pos != std::string::npos) { size_t c = g_capture.find(':', pos); if (c != std::string::npos) n = strtol(g_capture.c_str() + c + 1, nullptr, 10); }
  g_capture.clear();
  return n;
}

struct Measure { long arena_inuse = -1; size_t mapped = 0, mapped_nonarena = 0, big_nonarena = 0, big_nonarena_bytes = 0, small_regions = 0, resident = 0, arena_resident = 0, regions = 0; std::string big_list; };
static Measure measure() {
  Measure m;
  std::vector<ArenaArea> as = arena_areas();
  std::vector<vf_os_region_t> rs(4096);
  size_t n = vf_os_regions(rs.data(), rs.size());
  m.regions = n;
  for (size_t i = 0; i < n && i < rs.size(); i++) {
    m.mapped += rs[i].len;
    bool ar = in_arena(as, rs[i].base, rs[i].base + rs[i].len);
    if (!ar) {
      m.mapped_nonarena += rs[i].len;
      if (rs[i].len >= 1 * MiB) { m.big_nonarena++; m.big_nonarena_bytes += rs[i].len; char b[96]; snprintf(b, sizeof(b), "%s0x%lx+%zuK#%llu", m.big_list.empty() ? "" : " ", (unsigned long)rs[i].base, rs[i].len / 1024, (unsigned long long)rs[i].ordinal); if (m.big_list.size() < 600) m.big_list += b; }
      else m.small_regions++;
    }
  }
  m.resident = vf_os_committed_resident(0, 0);
  m.arena_inuse = arena_inuse_blocks();
  for (auto& a : as) m.arena_resident += vf_os_committed_resident(a.lo, a.hi - a.lo);
  return m;
}

// ------------------------------------------------------------------------------------------------
// faults (C07)
// ------------------------------------------------------------------------------------------------
static uint64_t g_battery_runs = 0, g_fault_fired = 0, g_giveback_checked = 0;
static std::string g_os_json;

static void parse_faults(State& S) {
  // cls:k:persistent:errno[:subkind];...
  const char* s = S.cfg.faults.c_str();
  while (*s) {
    long v[5] = { 0, 0, 0, ENOMEM, 0 }; int i = 0;
    while (*s && *s != ';') { v[i < 5 ? i : 4] = strtol(s, (char**)&s, 10); i++; if (*s == ':') s++; }
    if (i >= 2) { if (v[4]) vf_os_plan_filter((int)v[0], (int)v[4]); vf_os_plan_fault((int)v[0], (uint64_t)v[1], (int)v[2], (int)v[3]); }
    if (*s == ';') s++;
  }
}

static void setup_workload(State& S) {
  switch (S.cfg.workload) {
    case 0: S.cfg.size_cap = 2048; break;                       // small only
    case 1: break;                                              // mixed
    case 2: S.cfg.size_mode = 1; S.cfg.max_live_bytes = 400u << 20; break;   // large and huge
    case 3: S.cfg.profile = "aligned"; break;                   // aligned incl. huge alignments
    case 4: S.cfg.threads = true; S.cfg.size_cap = 300 * KiB; break;         // thread start / exit, remote frees
    default: break;
  }
}

static void must(State& S, void* p, const char* what) {
  if (p == nullptr) vf_trip("not-usable-after-heal", "C07", "after the OS grants requests again: %s failed", what);
  (void)S;
}

static void battery(State& S) {
  // allocate / free in every page kind, a new thread, a new heap: everything must work now
  vf_cur_what = "battery after heal";
  g_battery_runs++;
  static const size_t sizes[] = { 8, 100, 1000, 5000, 20000, 60000, 200000, 3 * MiB, 20 * MiB, 40 * MiB };
  for (size_t i = 0; i < sizeof(sizes) / sizeof(sizes[0]); i++) {
    vf::Blk* b = do_alloc(S, (i & 1) ? EP_zalloc : EP_malloc, sizes[i]);
    if (b == nullptr) vf_trip("not-usable-after-heal", "C07", "after the OS grants requests again: allocation of %zu bytes failed", sizes[i]);
  }
  { vf::Blk* b = do_alloc(S, EP_malloc_aligned, 1000); must(S, b, "aligned allocation"); }
  mi_heap_t* h = mi_heap_new(); must(S, h, "mi_heap_new");
  void* q = mi_heap_malloc(h, 5000); must(S, q, "allocation from a new heap"); memset(q, 1, 5000);
  mi_heap_destroy(h);
  std::atomic<int> ok(0);
  try {
    std::thread t([&ok]() { void* p = mi_malloc(3000); void* p2 = mi_zalloc(100000); if (p && p2) { memset(p, 2, 3000); ok = 1; } mi_free(p); mi_free(p2); });
    t.join();
  } catch (const std::system_error& e) { vf_trip("harness", "", "cannot create a thread: %s", e.what()); }
  if (!ok) vf_trip("not-usable-after-heal", "C07", "after the OS grants requests again: allocation in a new thread failed");
  vf_err_reset();
  S.sm.verify_all("after heal");
}

static void faults_print(FILE* f) {
  fprintf(f, ",\"faults\":{\"battery_runs\":%llu,\"fired\":%llu,\"giveback_checked\":%llu}", (unsigned long long)g_battery_runs, (unsigned long long)g_fault_fired, (unsigned long long)g_giveback_checked);
}

static void run_faults(State& S) {
  add_result_printer(&faults_print);
  std::string keep = S.cfg.profile;
  setup_workload(S);
  S.cfg.allow_null = true;
  S.cfg.generic = "C07";
  S.sm.refutes_generic = "C07";
  vf_crash_refutes = "C07";
  parse_faults(S);
  history_begin(S);
  for (S.op_index = 0; S.op_index < S.cfg.ops; S.op_index++) history_step(S);
  vf_cur_what = "verification at the heal point";
  S.sm.verify_all("under injected OS refusals");
  vf_os_counts_t c; vf_os_get_counts(&c);
  g_fault_fired = c.injected[0] + c.injected[1] + c.injected[2] + c.injected[3];
  bool unmap_refused = (c.injected[VF_OS_MUNMAP] + c.injected[VF_OS_MADVISE] + c.failed_real[VF_OS_MUNMAP]) > 0;
  // injected mprotect(PROT_NONE) failures also count as refused purges
  vf_os_heal();
  S.cfg.allow_null = false;
  vf_err_reset();
  battery(S);
  // conservation: nothing was lost
  S.cfg.profile = keep;
  history_end(S);     // verifies everything, walks, frees everything, forced collect, conservation
  // first-class heaps that are still alive keep their descriptor blocks (and so a segment) in the backing heap
  for (size_t i = 1; i < S.heaps.size(); i++) if (S.heaps[i].alive) { mi_heap_delete(S.heaps[i].h); S.heaps[i].alive = false; }
  S.cur_default = 0;
  mi_collect(true);
  mi_collect(true);
  // gives everything back (only judged when the OS refused no unmap / purge request)
  if (!unmap_refused && c.injected[VF_OS_MPROTECT] == 0) {
    Measure m = measure();
    g_giveback_checked++;
    if (m.big_nonarena > 0)
      vf_trip("os-region-not-unmapped", "C07,C11", "after heal, freeing everything and forced collects, %zu OS regions >= 1 MiB outside arenas are still mapped: %s", m.big_nonarena, m.big_list.c_str());
  }
}

// ------------------------------------------------------------------------------------------------
// ledger (C11)
// ------------------------------------------------------------------------------------------------
static std::vector<Measure> g_series;
static uint64_t g_ledger_blocks = 0, g_ledger_threads = 0;

static void ledger_round(State& S, int rep) {
  // the same demand in every repetition: a private PRNG seeded by the case seed only
  vf_rng_t r; vf_rng_seed(&r, S.cfg.seed * 7919 + 17);
  (void)rep;
  int w = S.cfg.workload;
  auto alloc_n = [&](int count, size_t lo, size_t hi, bool aligned_huge) {
    for (int i = 0; i < count; i++) {
      size_t n = lo + (size_t)vf_rng_below(&r, hi - lo + 1);
      vf::Blk* b;
      if (aligned_huge) {
        size_t a = (size_t)1 << (25 + vf_rng_below(&r, 3));    // 32 .. 128 MiB
        void* p = mi_malloc_aligned(n, a);
        if (p == nullptr) vf_trip("wellformed-refused", "C06", "mi_malloc_aligned(%zu,%zu) failed", n, a);
        if (((uintptr_t)p & (a - 1)) != 0) vf_trip("alignment", "C03", "mi_malloc_aligned(%zu,%zu) returned %p", n, a, p);
        b = S.sm.add(p, n, mi_usable_size(p), 0, a, 0, false, EP_malloc_aligned); S.sm.fill(b);
      }
      else b = do_alloc(S, (i % 3 == 0) ? EP_zalloc : EP_malloc, n);
      if (b) g_ledger_blocks++;
    }
  };
  switch (w) {
    case 0: alloc_n(30000, 1, 2048, false); break;                                    // small
    case 1: alloc_n(2000, 8 * KiB, 2 * MiB, false); break;                            // medium / large
    case 2: alloc_n(6, 40 * MiB, 200 * MiB, false); alloc_n(200, 16, 4096, false); break;   // huge
    case 3: alloc_n(5, 1 * MiB, 70 * MiB, true); alloc_n(200, 16, 4096, false); break;      // aligned huge (alignment 32-128 MiB)
    case 4: {                                                                          // multi-thread with thread exit
      const int T = 4;
      std::vector<std::vector<void*>> got(T);
      std::vector<std::thread> ts;
      for (int t = 0; t < T; t++) ts.emplace_back([&, t]() {
        vf_rng_t tr; vf_rng_seed(&tr, S.cfg.seed * 31 + (uint64_t)t);
        for (int i = 0; i < 4000; i++) { size_t n = 1 + (size_t)vf_rng_below(&tr, (i % 50 == 0) ? 300 * KiB : 3000); void* p = mi_malloc(n); if (p) { memset(p, 0x40 + t, n < 64 ? n : 64); got[t].push_back(p); } }
        // free a third locally so that pages are partially used at exit
        for (size_t i = 0; i < got[t].size(); i += 3) { mi_free(got[t][i]); got[t][i] = nullptr; }
      });
      for (auto& t : ts) t.join();
      g_ledger_threads += T;
      for (int t = 0; t < T; t++) for (void* p : got[t]) if (p) { mi_free(p); g_ledger_blocks++; }   // blocks of exited threads freed by the survivor
      alloc_n(2000, 16, 8192, false);
      break; }
    default: break;
  }
  S.sm.verify_all("ledger round");
  free_all(S);
  vf_cur_what = "forced collect";
  mi_collect(true);
  mi_collect(true);
}

static void ledger_print(FILE* f) {
  fprintf(f, ",\"ledger\":{\"blocks\":%llu,\"threads\":%llu,\"series\":[", (unsigned long long)g_ledger_blocks, (unsigned long long)g_ledger_threads);
  for (size_t i = 0; i < g_series.size(); i++) {
    const Measure& m = g_series[i];
    fprintf(f, "%s{\"arena_inuse\":%ld,\"mapped\":%zu,\"nonarena\":%zu,\"big_nonarena\":%zu,\"small_regions\":%zu,\"resident\":%zu,\"arena_resident\":%zu}", i ? "," : "", m.arena_inuse, m.mapped, m.mapped_nonarena, m.big_nonarena, m.small_regions, m.resident, m.arena_resident);
  }
  fputs("]}", f);
}

static void run_ledger(State& S) {
  add_result_printer(&ledger_print);
  S.sm.refutes_generic = "C01";
  const long purge_delay = mi_option_get(mi_option_purge_delay);
  const int N = S.cfg.reps;
  for (int i = 1; i <= N; i++) {
    S.op_index = (uint64_t)i; vf_cur_op = (uint64_t)i;
    ledger_round(S, i);
    Measure m = measure();
    g_series.push_back(m);
    // (a) every region obtained directly from the OS for huge blocks / fallback segments has been unmapped again
    if (m.big_nonarena > 0)
      vf_trip("os-region-not-unmapped", "C11", "repetition %d: after freeing everything and forced collects %zu OS regions >= 1 MiB outside arenas are still mapped (%zu bytes): %s",
              i, m.big_nonarena, m.big_nonarena_bytes, m.big_list.c_str());
    // (b) arena memory is no longer committed (unless purging is disabled)
    if (purge_delay >= 0 && m.arena_resident > 4 * MiB)
      vf_trip("arena-still-committed", "C11", "repetition %d: after freeing everything and forced collects %zu bytes of arena memory are still committed and resident", i, m.arena_resident);
    // (c) no creep from one repetition to the next (the first two are warm-up: arenas, thread-data cache, segment map)
    if (i >= 3 && S.cfg.trace == 0) {
      const Measure& p = g_series[g_series.size() - 2];
      // memory obtained directly from the OS (outside arenas) must not accumulate
      if (m.mapped_nonarena > p.mapped_nonarena)
        vf_trip("mapped-grows", "C11", "repetition %d: memory mapped outside arenas grew from %zu to %zu bytes across identical repetitions (small regions %zu -> %zu)", i, p.mapped_nonarena, m.mapped_nonarena, p.small_regions, m.small_regions);
      // arena space must not leak: blocks still claimed after everything was freed
      if (m.arena_inuse >= 0 && p.arena_inuse >= 0 && m.arena_inuse > p.arena_inuse)
        vf_trip("arena-blocks-leak", "C11", "repetition %d: arena blocks still in use after freeing everything grew from %ld to %ld across identical repetitions", i, p.arena_inuse, m.arena_inuse);
      // total mapped memory incl. arenas: arenas are reserved on demand during warm-up (a failed multi-block claim reserves the next arena, up to the first
      // 2 GiB arena), so this is judged from the 4th repetition on and only for single-threaded (deterministic) workloads
      if (i >= 4 && S.cfg.workload != 4 && m.mapped > p.mapped)
        vf_trip("mapped-grows", "C11", "repetition %d: mapped memory grew from %zu to %zu bytes across identical repetitions (non-arena: %zu -> %zu)", i, p.mapped, m.mapped, p.mapped_nonarena, m.mapped_nonarena);
      if (m.resident > p.resident + 1 * MiB)
        vf_trip("resident-grows", "C11", "repetition %d: committed resident memory grew from %zu to %zu bytes across identical repetitions", i, p.resident, m.resident);
    }
  }
  check_conservation(S, "end of ledger profile", "C11,C05");
}

// ------------------------------------------------------------------------------------------------
// purge (C18)
// ------------------------------------------------------------------------------------------------
static size_t g_p_peak = 0, g_p_after_free = 0, g_p_after_wait = 0, g_p_forced = 0; static uint64_t g_p_purge_calls_wait = 0, g_p_purge_calls_total = 0; static long g_p_delay = 0, g_p_mult = 0;

static void purge_print(FILE* f) {
  fprintf(f, ",\"purge\":{\"delay\":%ld,\"mult\":%ld,\"peak\":%zu,\"after_free\":%zu,\"after_wait\":%zu,\"after_forced\":%zu,\"purge_calls_during_wait\":%llu,\"purge_calls_total\":%llu}",
          g_p_delay, g_p_mult, g_p_peak, g_p_after_free, g_p_after_wait, g_p_forced, (unsigned long long)g_p_purge_calls_wait, (unsigned long long)g_p_purge_calls_total);
}

static void run_purge(State& S) {
  add_result_printer(&purge_print);
  S.sm.refutes_generic = "C01";
  const long d = mi_option_get(mi_option_purge_delay), mult = mi_option_get(mi_option_arena_purge_mult);
  g_p_delay = d; g_p_mult = mult;
  vf_rng_t r; vf_rng_seed(&r, S.cfg.seed);
  // working set: small pages, large pages, whole segments
  std::vector<vf::Blk*> smalls, larges, huges;
  const std::string& sc = S.cfg.scenario;
  std::vector<vf::Blk*> late;
  // small and large blocks are interleaved so that every segment holds pages of both kinds
  for (int i = 0; i < 300; i++) {
    for (int k = 0; k < 133; k++) { vf::Blk* b = do_alloc(S, EP_malloc, 64 + (size_t)vf_rng_below(&r, 1500)); if (b) smalls.push_back(b); }
    vf::Blk* b = do_alloc(S, EP_malloc, 100 * KiB + (size_t)vf_rng_below(&r, 400 * KiB)); if (b) larges.push_back(b);
  }
  // "segments": further large blocks that fill whole segments of their own (allocated after everything else, freed as a group)
  if (sc == "segments") for (int i = 0; i < 260; i++) { vf::Blk* b = do_alloc(S, EP_malloc, 400 * KiB + (size_t)vf_rng_below(&r, 100 * KiB)); if (b) { memset(b->p, 0x55, b->u); S.sm.fill(b); late.push_back(b); } }
  for (int i = 0; i < 6; i++) { vf::Blk* b = do_alloc(S, EP_malloc, 18 * MiB + (size_t)vf_rng_below(&r, 8 * MiB)); if (b) { memset(b->p, 0x33, b->u); S.sm.fill(b); huges.push_back(b); } }
  for (vf::Blk* b : larges) { memset(b->p, 0x44, b->u); S.sm.fill(b); }
  g_p_peak = vf_os_committed_resident(0, 0);
  vf_os_counts_t c0; vf_os_get_counts(&c0);
  // free according to the scenario
  if (sc == "pages") { for (vf::Blk* b : smalls) do_free(S, b); smalls.clear(); }
  else if (sc == "segments") { for (vf::Blk* b : huges) do_free(S, b); huges.clear(); for (vf::Blk* b : late) do_free(S, b); late.clear(); }
  else { free_all(S); smalls.clear(); larges.clear(); huges.clear(); }
  g_p_after_free = vf_os_committed_resident(0, 0);
  vf_os_counts_t c1; vf_os_get_counts(&c1);
  // ordinary later activity without a forced collect; the virtual clock moves past the delay
  for (int round = 0; round < 4; round++) {
    // far beyond the delay (every further free in a segment extends its expiry by purge_extend_delay, so be generous: virtual time is free)
    if (d > 0) { long ms = 120000 + 200 * d * (mult > 0 ? mult : 1); vf_clock_advance_ms(ms); S.n_clock_ms += (uint64_t)ms; }
    for (int i = 0; i < 300; i++) {
      // time keeps passing during ordinary activity (an allocation from a span that is pending purge re-arms that segment's expiry by design)
      if (d > 0 && (i % 8) == 0) { long ms = d + 3; vf_clock_advance_ms(ms); S.n_clock_ms += (uint64_t)ms; }
      vf::Blk* b = do_alloc(S, EP_malloc, 2000 + (size_t)vf_rng_below(&r, 6000));
      vf::Blk* b2 = do_alloc(S, EP_malloc, 70 * KiB + (size_t)vf_rng_below(&r, 20 * KiB));
      if (b) do_free(S, b);
      if (b2) do_free(S, b2);
    }
    // ordinary activity also touches the segments that still hold live data: replace a quarter of the live large blocks
    if (round < 2) for (size_t i = (size_t)round; i < larges.size(); i += 2) {   // every segment that holds a large block sees a page free   // (the last two rounds only do the small activity above, so nothing becomes newly purgeable)
      do_free(S, larges[i]);
      larges[i] = do_alloc(S, EP_malloc, 100 * KiB + (size_t)vf_rng_below(&r, 400 * KiB));
      if (larges[i] == nullptr) { larges[i] = larges.back(); larges.pop_back(); }
    }
    vf_cur_what = "non-forced collect";
    mi_collect(false);
  }
  g_p_after_wait = vf_os_committed_resident(0, 0);
  vf_os_counts_t c2; vf_os_get_counts(&c2);
  g_p_purge_calls_wait = c2.purge_calls - c1.purge_calls;
  S.sm.verify_all("after purging");
  // what a forced collection gives back: the yardstick (not part of the property)
  mi_collect(true); mi_collect(true);
  g_p_forced = vf_os_committed_resident(0, 0);
  vf_os_counts_t c3; vf_os_get_counts(&c3);
  g_p_purge_calls_total = c3.purge_calls - c0.purge_calls;
  if (d < 0) {
    if (c2.purge_calls != c0.purge_calls)
      vf_trip("purged-although-disabled", "C18", "purge_delay=-1 but %llu purge calls (madvise DONTNEED/FREE, mprotect NONE) were made without a forced collect", (unsigned long long)(c2.purge_calls - c0.purge_calls));
  }
  else {
    // yardstick: everything that became unused = peak - what is still committed after a forced collect
    size_t freed = (g_p_peak > g_p_forced ? g_p_peak - g_p_forced : 0);
    size_t left = (g_p_after_wait > g_p_forced ? g_p_after_wait - g_p_forced : 0);
    // calibrated on the repaired tree (also under load): at most ~15% is left (pages retired for a few cycles, one segment kept by the heap)
    if (d == 0 && freed >= 16 * MiB && c1.purge_calls == c0.purge_calls)
      vf_trip("not-purged-immediately", "C18", "purge_delay=0, scenario %s: %zu bytes became unused but no purge call was made while they were freed", sc.c_str(), freed);
    const size_t pct = (sc == "pages" ? 65 : 35);   // page-level purging inside live segments is lazy by design (needs later activity in that segment)
    if (freed >= 16 * MiB && left * 100 > freed * pct)
      vf_trip("not-purged-after-delay", "C18", "purge_delay=%ld (arena multiplier %ld), scenario %s: %zu bytes became unused (a forced collect returns them) but %zu bytes (%zu%%) were still committed "
              "after the delay had expired 4 times with ordinary activity and non-forced collects (%llu purge calls in that time)", d, mult, sc.c_str(), freed, left, left * 100 / (freed ? freed : 1),
              (unsigned long long)g_p_purge_calls_wait);
  }
  free_all(S);
}

void run_os_profile(State& S) {
  const std::string p = S.cfg.profile;
  if (p == "faults") run_faults(S);
  else if (p == "ledger") run_ledger(S);
  else run_purge(S);
}

} // namespace seq
