// seq_os.cpp -- profiles that judge OS-level behaviour through the shim/ledger:
//   faults (C07): a workload under an injected fault plan, heal, battery, give-back
//   ledger (C11): repeated allocate-everything / free-everything rounds; mappings and residency must not creep
//   purge  (C18): delayed purging under a virtual clock
#include "seq.hpp"
#include <cctype>
#include <thread>
#include <atomic>
#include <algorithm>
#include <system_error>

namespace seq {

static const size_t KiB = 1024, MiB = 1024 * 1024;

struct ArenaArea { uintptr_t lo, hi; };
static std::vector<ArenaArea> arena_areas() {
  std::vector<ArenaArea> v;
  for (int id = 1; id <= 200; id++) { size_t sz = 0; void* p = mi_arena_area((mi_arena_id_t)id, &sz); if (p == nullptr) break; ArenaArea a; a.lo = (uintptr_t)p; a.hi = a.lo + sz; v.push_back(a); }
  return v;
}
static bool in_arena(const std::vector<ArenaArea>& as, uintptr_t lo, uintptr_t hi) {
  for (auto& a : as) if (lo < a.hi && hi > a.lo) return true;   // a region that holds an arena (the mapping may be slightly larger than the arena)
  return false;
}

// arena blocks in use, as reported by the allocator's own diagnostic output ("total inuse blocks : N")
static std::string g_capture;
static void capture_out(const char* msg, void*) { if (g_capture.size() < (1u << 22)) g_capture += msg; }
static long arena_inuse_blocks() {
  g_capture.clear();
  mi_register_output(&capture_out, nullptr);
  mi_debug_show_arenas();
  mi_register_output(&vf_output_cb, nullptr);
  // the last line that speaks of blocks "inuse" / "in use" and the last number on it (robust against rewording of the diagnostic, see DESIGN.md 7.4)
  long n = -1;
  {
    std::string low = g_capture; for (auto& ch : low) ch = (char)tolower((unsigned char)ch);
    size_t pos = std::string::npos, p1 = low.rfind("inuse"), p2 = low.rfind("in use");
    if (p1 != std::string::npos) pos = p1;
    if (p2 != std::string::npos && (pos == std::string::npos || p2 > pos)) pos = p2;
    if (pos != std::string::npos) {
      size_t eol = low.find('\n', pos); if (eol == std::string::npos) eol = low.size();
      size_t e = eol; while (e > pos && !isdigit((unsigned char)low[e - 1])) e--;
      size_t b = e; while (b > pos && isdigit((unsigned char)low[b - 1])) b--;
      if (e > b) n = strtol(low.c_str() + b, nullptr, 10);
    }
  }
  g_capture.clear();
  return n;
}

struct Measure { size_t map_parts = 0; long arena_inuse = -1; size_t mapped = 0, mapped_nonarena = 0, big_nonarena = 0, big_nonarena_bytes = 0, small_regions = 0, resident = 0, arena_resident = 0, regions = 0; std::string big_list; };
static Measure measure() {
  Measure m;
  std::vector<ArenaArea> as = arena_areas();
  std::vector<vf_os_region_t> rs(4096);
  size_t n = vf_os_regions(rs.data(), rs.size());
  m.regions = n;
  for (size_t i = 0; i < n && i < rs.size(); i++) {
    m.mapped += rs[i].len;
    bool ar = in_arena(as, rs[i].base, rs[i].base + rs[i].len);
    if (!ar) {
      m.mapped_nonarena += rs[i].len;
      if (rs[i].len >= 1 * MiB) { m.big_nonarena++; m.big_nonarena_bytes += rs[i].len; char b[96]; snprintf(b, sizeof(b), "%s0x%lx+%zuK#%llu", m.big_list.empty() ? "" : " ", (unsigned long)rs[i].base, rs[i].len / 1024, (unsigned long long)rs[i].ordinal); if (m.big_list.size() < 600) m.big_list += b; }
      else {
        m.small_regions++;
        // a part of the segment map (segment-map.c): 8 KiB - 128 bytes, one per 2 TiB of address space in which a segment was ever placed; kept for the life
        // of the process by design and at most 64 of them exist -- a new one appears whenever the OS places a mapping in a new 2 TiB range
        if (rs[i].len == 8192) { m.map_parts++; m.mapped_nonarena -= rs[i].len; m.mapped -= rs[i].len; }
      }
    }
  }
  m.resident = vf_os_committed_resident(0, 0);
  m.arena_inuse = arena_inuse_blocks();
  for (auto& a : as) m.arena_resident += vf_os_committed_resident(a.lo, a.hi - a.lo);
  return m;
}

// ------------------------------------------------------------------------------------------------
// faults (C07)
// ------------------------------------------------------------------------------------------------
static uint64_t g_battery_runs = 0, g_fault_fired = 0, g_giveback_checked = 0;
static std::string g_os_json;

static void parse_faults(State& S) {
  // cls:k:persistent:errno[:subkind];...
  const char* s = S.cfg.faults.c_str();
  while (*s) {
    long v[5] = { 0, 0, 0, ENOMEM, 0 }; int i = 0;
    while (*s && *s != ';') { v[i < 5 ? i : 4] = strtol(s, (char**)&s, 10); i++; if (*s == ':') s++; }
    if (i >= 2) { if (v[4]) vf_os_plan_filter((int)v[0], (int)v[4]); vf_os_plan_fault((int)v[0], (uint64_t)v[1], (int)v[2], (int)v[3]); }
    if (*s == ';') s++;
  }
}

static void setup_workload(State& S) {
  switch (S.cfg.workload) {
    case 0: S.cfg.size_cap = 2048; break;                       // small only
    case 1: break;                                              // mixed
    case 2: S.cfg.size_mode = 1; S.cfg.max_live_bytes = 400u << 20; break;   // large and huge
    case 3: S.cfg.profile = "aligned"; break;                   // aligned incl. huge alignments
    case 4: S.cfg.threads = true; S.cfg.size_cap = 300 * KiB; break;         // thread start / exit, remote frees
    default: break;
  }
}

static void must(State& S, void* p, const char* what) {
  if (p == nullptr) vf_trip("not-usable-after-heal", "C07", "after the OS grants requests again: %s failed", what);
  (void)S;
}

static void battery(State& S) {
  // allocate / free in every page kind, a new thread, a new heap: everything must work now
  vf_cur_what = "battery after heal";
  g_battery_runs++;
  static const size_t sizes[] = { 8, 100, 1000, 5000, 20000, 60000, 200000, 3 * MiB, 20 * MiB, 40 * MiB };
  for (size_t i = 0; i < sizeof(sizes) / sizeof(sizes[0]); i++) {
    vf::Blk* b = do_alloc(S, (i & 1) ? EP_zalloc : EP_malloc, sizes[i]);
    if (b == nullptr) vf_trip("not-usable-after-heal", "C07", "after the OS grants requests again: allocation of %zu bytes failed", sizes[i]);
  }
  { vf::Blk* b = do_alloc(S, EP_malloc_aligned, 1000); must(S, b, "aligned allocation"); }
  mi_heap_t* h = mi_heap_new(); must(S, h, "mi_heap_new");
  void* q = mi_heap_malloc(h, 5000); must(S, q, "allocation from a new heap"); memset(q, 1, 5000);
  mi_heap_destroy(h);
  std::atomic<int> ok(0);
  try {
    std::thread t([&ok]() { void* p = mi_malloc(3000); void* p2 = mi_zalloc(100000); if (p && p2) { memset(p, 2, 3000); ok = 1; } mi_free(p); mi_free(p2); });
    t.join();
  } catch (const std::system_error& e) { vf_trip("harness", "", "cannot create a thread: %s", e.what()); }
  if (!ok) vf_trip("not-usable-after-heal", "C07", "after the OS grants requests again: allocation in a new thread failed");
  vf_err_reset();
  S.sm.verify_all("after heal");
}

static int g_healed_early = 0;
static void faults_print(FILE* f) {
  fprintf(f, ",\"faults\":{\"battery_runs\":%llu,\"fired\":%llu,\"giveback_checked\":%llu,\"healed_early\":%d}", (unsigned long long)g_battery_runs, (unsigned long long)g_fault_fired, (unsigned long long)g_giveback_checked, g_healed_early);
}

static void run_faults(State& S) {
  add_result_printer(&faults_print);
  std::string keep = S.cfg.profile;
  setup_workload(S);
  S.cfg.allow_null = true;
  S.cfg.generic = "C07";
  S.sm.refutes_generic = "C07";
  vf_crash_refutes = "C07";
  parse_faults(S);
  history_begin(S);
  // (a persistent refusal lasts until the heal point: the end of the history, or earlier when the process has mapped more than 4 GiB beyond its starting point --
  //  under a persistent mprotect refusal the secure build cannot re-open the guard pages of segments it frees and keeps those segments, by design of the repair of
  //  finding F12, so memory grows with every segment freed; 16 such cases in parallel must not exhaust the machine and get killed)
  const size_t mapped0 = vf_os_mapped_bytes();
  for (S.op_index = 0; S.op_index < S.cfg.ops; S.op_index++) {
    history_step(S);
    if ((S.op_index & 15) == 15 && !g_healed_early && vf_os_mapped_bytes() > mapped0 + ((size_t)4 << 30)) { vf_os_heal(); g_healed_early = 1; }
  }
  vf_cur_what = "verification at the heal point";
  S.sm.verify_all("under injected OS refusals");
  vf_os_counts_t c; vf_os_get_counts(&c);
  g_fault_fired = c.injected[0] + c.injected[1] + c.injected[2] + c.injected[3];
  bool unmap_refused = (c.injected[VF_OS_MUNMAP] + c.injected[VF_OS_MADVISE] + c.failed_real[VF_OS_MUNMAP]) > 0;
  // injected mprotect(PROT_NONE) failures also count as refused purges
  vf_os_heal();
  S.cfg.allow_null = false;
  vf_err_reset();
  battery(S);
  // conservation: nothing was lost
  S.cfg.profile = keep;
  history_end(S);     // verifies everything, walks, frees everything, forced collect, conservation
  // first-class heaps that are still alive keep their descriptor blocks (and so a segment) in the backing heap
  for (size_t i = 1; i < S.heaps.size(); i++) if (S.heaps[i].alive) { mi_heap_delete(S.heaps[i].h); S.heaps[i].alive = false; }
  S.cur_default = 0;
  mi_collect(true);
  mi_collect(true);
  // gives everything back (only judged when the OS refused no unmap / purge request)
  if (!unmap_refused && c.injected[VF_OS_MPROTECT] == 0) {
    Measure m = measure();
    g_giveback_checked++;
    if (m.big_nonarena > 0)
      vf_trip("os-region-not-unmapped", "C07,C11", "after heal, freeing everything and forced collects, %zu OS regions >= 1 MiB outside arenas are still mapped: %s", m.big_nonarena, m.big_list.c_str());
  }
}

// ------------------------------------------------------------------------------------------------
// ledger (C11)
// ------------------------------------------------------------------------------------------------
static std::vector<Measure> g_series;
static uint64_t g_ledger_blocks = 0, g_ledger_threads = 0;

static uint64_t g_ledger_reserve_ok = 0, g_ledger_reserve_refused = 0;
static void ledger_round(State& S, int rep) {
  // the same demand in every repetition: a private PRNG seeded by the case seed only
  vf_rng_t r; vf_rng_seed(&r, S.cfg.seed * 7919 + 17);
  (void)rep;
  int w = S.cfg.workload;
  auto alloc_n = [&](int count, size_t lo, size_t hi, bool aligned_huge) {
    for (int i = 0; i < count; i++) {
      size_t n = lo + (size_t)vf_rng_below(&r, hi - lo + 1);
      vf::Blk* b;
      if (aligned_huge) {
        size_t a = (size_t)1 << (25 + vf_rng_below(&r, 3));    // 32 .. 128 MiB
        void* p = mi_malloc_aligned(n, a);
        if (p == nullptr) vf_trip("wellformed-refused", "C06", "mi_malloc_aligned(%zu,%zu) failed", n, a);
        if ((vf::addr(p) & (a - 1)) != 0) vf_trip("alignment", "C03", "mi_malloc_aligned(%zu,%zu) returned %p", n, a, p);
        b = S.sm.add(p, n, mi_usable_size(p), 0, a, 0, false, EP_malloc_aligned); S.sm.fill(b);
      }
      else b = do_alloc(S, (i % 3 == 0) ? EP_zalloc : EP_malloc, n);
      if (b) g_ledger_blocks++;
    }
  };
  switch (w) {
    case 0: alloc_n(30000, 1, 2048, false); break;                                    // small
    case 1: alloc_n(2000, 8 * KiB, 2 * MiB, false); break;                            // medium / large
    case 2: alloc_n(6, 40 * MiB, 200 * MiB, false); alloc_n(200, 16, 4096, false); break;   // huge
    case 3: alloc_n(5, 1 * MiB, 70 * MiB, true); alloc_n(200, 16, 4096, false); break;      // aligned huge (alignment 32-128 MiB)
    case 4: {                                                                          // multi-thread with thread exit
      const int T = 4;
      std::vector<std::vector<void*>> got(T);
      std::vector<std::thread> ts;
      for (int t = 0; t < T; t++) ts.emplace_back([&, t]() {
        vf_rng_t tr; vf_rng_seed(&tr, S.cfg.seed * 31 + (uint64_t)t);
        for (int i = 0; i < 4000; i++) { size_t n = 1 + (size_t)vf_rng_below(&tr, (i % 50 == 0) ? 300 * KiB : 3000); void* p = mi_malloc(n); if (p) { memset(p, 0x40 + t, n < 64 ? n : 64); got[t].push_back(p); } }
        // free a third locally so that pages are partially used at exit
        for (size_t i = 0; i < got[t].size(); i += 3) { mi_free(got[t][i]); got[t][i] = nullptr; }
      });
      for (auto& t : ts) t.join();
      g_ledger_threads += T;
      for (int t = 0; t < T; t++) for (void* p : got[t]) if (p) { mi_free(p); g_ledger_blocks++; }   // blocks of exited threads freed by the survivor
      alloc_n(2000, 16, 8192, false);
      break; }
    case 5: {                                                                          // storm of threads that terminate at the same moment (thread metadata cache)
      const int T = 8, R = 40;
      for (int rr = 0; rr < R; rr++) {
        std::atomic<int> arrived(0);
        std::vector<std::thread> ts;
        for (int t = 0; t < T; t++) ts.emplace_back([&arrived, T]() {
          void* p = mi_malloc(100); void* q = mi_malloc(5000); if (p) memset(p, 1, 100); mi_free(p); mi_free(q);
          arrived.fetch_add(1);
          while (arrived.load() < T) { }          // released together: the threads return (and release their metadata) at the same moment
        });
        for (auto& t : ts) t.join();
        g_ledger_threads += T;
      }
      alloc_n(500, 16, 8192, false);
      break; }
    case 6: {                                                                          // more than 64 segments live at once in one large arena (MIMALLOC_ARENA_RESERVE >= 4 GiB): every block of a bitmap word, also the last one
      std::vector<uint8_t*> hs;
      for (int i = 0; i < 72; i++) {
        const size_t n = 17 * MiB + (size_t)vf_rng_below(&r, 6 * MiB);
        uint8_t* p = (uint8_t*)mi_malloc(n);
        if (p == nullptr) vf_trip("wellformed-refused", "C06", "mi_malloc(%zu) failed", n);
        memset(p, 0x51, 6 * MiB); p[n - 1] = 0x52;                                      // touch 6 MiB of each (the tolerance of the "arena still committed" rule is 4 MiB)
        hs.push_back(p); g_ledger_blocks++;
      }
      alloc_n(300, 16, 8192, false);
      for (uint8_t* p : hs) { if (p[0] != 0x51 || p[6 * MiB - 1] != 0x51) vf_trip("contents", "C01", "huge block %p changed", (void*)p); mi_free(p); }
      break; }
    case 7: {                                                                          // explicit reservations beyond the capacity of the arena table: the refused ones must leave nothing behind
      int ok = 0, refused = 0;
      for (int i = 0; i < 150; i++) { if (mi_reserve_os_memory(32 * MiB, false /* commit */, false /* large */) == 0) ok++; else refused++; }
      g_ledger_reserve_ok += (uint64_t)ok; g_ledger_reserve_refused += (uint64_t)refused;
      // huge (1 GiB) OS pages: this machine has no pool of them, so the reservations are refused by the OS (or time out) -- they must leave nothing mapped either; should a pool
      // exist, the pages become a pinned arena, which the arena rules cover
      { int h1 = mi_reserve_huge_os_pages_at(1, -1, 20), h2 = mi_reserve_huge_os_pages_interleave(2, 0, 20); (void)h1; (void)h2; }
      vf_err_reset();                                                                   // (each refusal is reported as a warning / ENOMEM)
      alloc_n(300, 16, 8192, false);
      break; }
    default: break;
  }
  S.sm.verify_all("ledger round");
  free_all(S);
  vf_cur_what = "forced collect";
  mi_collect(true);
  mi_collect(true);
}

static void ledger_print(FILE* f) {
  fprintf(f, ",\"ledger\":{\"blocks\":%llu,\"threads\":%llu,\"reservations_granted\":%llu,\"reservations_refused\":%llu,\"series\":[", (unsigned long long)g_ledger_blocks, (unsigned long long)g_ledger_threads,
          (unsigned long long)g_ledger_reserve_ok, (unsigned long long)g_ledger_reserve_refused);
  for (size_t i = 0; i < g_series.size(); i++) {
    const Measure& m = g_series[i];
    fprintf(f, "%s{\"arena_inuse\":%ld,\"mapped\":%zu,\"nonarena\":%zu,\"big_nonarena\":%zu,\"small_regions\":%zu,\"resident\":%zu,\"arena_resident\":%zu}", i ? "," : "", m.arena_inuse, m.mapped, m.mapped_nonarena, m.big_nonarena, m.small_regions, m.resident, m.arena_resident);
  }
  fputs("]}", f);
}

static void run_ledger(State& S) {
  add_result_printer(&ledger_print);
  S.sm.refutes_generic = "C01";
  const long purge_delay = mi_option_get(mi_option_purge_delay);
  const int N = S.cfg.reps;
  for (int i = 1; i <= N; i++) {
    S.op_index = (uint64_t)i; vf_cur_op = (uint64_t)i;
    ledger_round(S, i);
    Measure m = measure();
    g_series.push_back(m);
    // (a) every region obtained directly from the OS for huge blocks / fallback segments has been unmapped again
    if (m.big_nonarena > 0)
      vf_trip("os-region-not-unmapped", "C11", "repetition %d: after freeing everything and forced collects %zu OS regions >= 1 MiB outside arenas are still mapped (%zu bytes): %s",
              i, m.big_nonarena, m.big_nonarena_bytes, m.big_list.c_str());
    // (b) arena memory is no longer committed (unless purging is disabled)
    if (purge_delay >= 0 && m.arena_resident > 4 * MiB)
      vf_trip("arena-still-committed", "C11", "repetition %d: after freeing everything and forced collects %zu bytes of arena memory are still committed and resident", i, m.arena_resident);
    // (c) no creep from one repetition to the next (the first two are warm-up: arenas, thread-data cache, segment map)
    if (i >= 3 && S.cfg.trace == 0) {
      const Measure& p = g_series[g_series.size() - 2];
      // memory obtained directly from the OS (outside arenas) must not accumulate
      if (m.map_parts > 64) vf_trip("mapped-grows", "C11", "repetition %d: %zu mappings of 8 KiB outside arenas (the segment map has at most 64 parts)", i, m.map_parts);
      if (m.mapped_nonarena > p.mapped_nonarena)
        vf_trip("mapped-grows", "C11", "repetition %d: memory mapped outside arenas grew from %zu to %zu bytes across identical repetitions (small regions %zu -> %zu)", i, p.mapped_nonarena, m.mapped_nonarena, p.small_regions, m.small_regions);
      // arena space must not leak: blocks still claimed after everything was freed
      if (m.arena_inuse >= 0 && p.arena_inuse >= 0 && m.arena_inuse > p.arena_inuse)
        vf_trip("arena-blocks-leak", "C11", "repetition %d: arena blocks still in use after freeing everything grew from %ld to %ld across identical repetitions", i, p.arena_inuse, m.arena_inuse);
      // total mapped memory incl. arenas: arenas are reserved on demand during warm-up (a failed multi-block claim reserves the next arena, up to the first
      // 2 GiB arena), so this is judged from the 4th repetition on and only for single-threaded (deterministic) workloads
      if (i >= 4 && S.cfg.workload != 4 && m.mapped > p.mapped)
        vf_trip("mapped-grows", "C11", "repetition %d: mapped memory grew from %zu to %zu bytes across identical repetitions (non-arena: %zu -> %zu)", i, p.mapped, m.mapped, p.mapped_nonarena, m.mapped_nonarena);
      // (with purging disabled by option freed arena memory stays committed, and a repetition need not land on the same arena blocks as the one before:
      //  resident memory then legitimately grows until the arenas have been touched completely -- only the mappings are judged in that configuration)
      if (purge_delay >= 0 && m.resident > p.resident + 1 * MiB)
        vf_trip("resident-grows", "C11", "repetition %d: committed resident memory grew from %zu to %zu bytes across identical repetitions", i, p.resident, m.resident);
    }
  }
  check_conservation(S, "end of ledger profile", "C11,C05");
}

// ------------------------------------------------------------------------------------------------
// purge (C18)
// ------------------------------------------------------------------------------------------------
static size_t g_p_peak = 0, g_p_after_free = 0, g_p_after_wait = 0, g_p_forced = 0; static uint64_t g_p_purge_calls_wait = 0, g_p_purge_calls_total = 0; static long g_p_delay = 0, g_p_mult = 0;

static void purge_print(FILE* f) {
  fprintf(f, ",\"purge\":{\"delay\":%ld,\"mult\":%ld,\"peak\":%zu,\"after_free\":%zu,\"after_wait\":%zu,\"after_forced\":%zu,\"purge_calls_during_wait\":%llu,\"purge_calls_total\":%llu}",
          g_p_delay, g_p_mult, g_p_peak, g_p_after_free, g_p_after_wait, g_p_forced, (unsigned long long)g_p_purge_calls_wait, (unsigned long long)g_p_purge_calls_total);
}

static void run_purge(State& S) {
  add_result_printer(&purge_print);
  S.sm.refutes_generic = "C01";
  const long d = mi_option_get(mi_option_purge_delay), mult = mi_option_get(mi_option_arena_purge_mult);
  g_p_delay = d; g_p_mult = mult;
  vf_rng_t r; vf_rng_seed(&r, S.cfg.seed);
  // working set: small pages, large pages, whole segments
  std::vector<vf::Blk*> smalls, larges, huges;
  const std::string& sc = S.cfg.scenario;
  std::vector<vf::Blk*> late;
  // small and large blocks are interleaved so that every segment holds pages of both kinds
  for (int i = 0; i < 300; i++) {
    for (int k = 0; k < 133; k++) { vf::Blk* b = do_alloc(S, EP_malloc, 64 + (size_t)vf_rng_below(&r, 1500)); if (b) smalls.push_back(b); }
    vf::Blk* b = do_alloc(S, EP_malloc, 100 * KiB + (size_t)vf_rng_below(&r, 400 * KiB)); if (b) larges.push_back(b);
  }
  // "segments": further large blocks that fill whole segments of their own (allocated after everything else, freed as a group)
  if (sc == "segments") for (int i = 0; i < 260; i++) { vf::Blk* b = do_alloc(S, EP_malloc, 400 * KiB + (size_t)vf_rng_below(&r, 100 * KiB)); if (b) { memset(b->p, 0x55, b->u); S.sm.fill(b); late.push_back(b); } }
  for (int i = 0; i < 6; i++) { vf::Blk* b = do_alloc(S, EP_malloc, 18 * MiB + (size_t)vf_rng_below(&r, 8 * MiB)); if (b) { memset(b->p, 0x33, b->u); S.sm.fill(b); huges.push_back(b); } }
  for (vf::Blk* b : larges) { memset(b->p, 0x44, b->u); S.sm.fill(b); }
  g_p_peak = vf_os_committed_resident(0, 0);
  vf_os_counts_t c0; vf_os_get_counts(&c0);
  // free according to the scenario
  if (sc == "pages") { for (vf::Blk* b : smalls) do_free(S, b); smalls.clear(); }
  else if (sc == "segments") { for (vf::Blk* b : huges) do_free(S, b); huges.clear(); for (vf::Blk* b : late) do_free(S, b); late.clear(); }
  else { free_all(S); smalls.clear(); larges.clear(); huges.clear(); }
  g_p_after_free = vf_os_committed_resident(0, 0);
  vf_os_counts_t c1; vf_os_get_counts(&c1);
  // ordinary later activity without a forced collect; the virtual clock moves past the delay
  for (int round = 0; round < 4; round++) {
    // far beyond the delay (every further free in a segment extends its expiry by purge_extend_delay, so be generous: virtual time is free)
    if (d > 0) { long ms = 120000 + 200 * d * (mult > 0 ? mult : 1); vf_clock_advance_ms(ms); S.n_clock_ms += (uint64_t)ms; }
    for (int i = 0; i < 300; i++) {
      // time keeps passing during ordinary activity (an allocation from a span that is pending purge re-arms that segment's expiry by design)
      if (d > 0 && (i % 8) == 0) { long ms = d + 3; vf_clock_advance_ms(ms); S.n_clock_ms += (uint64_t)ms; }
      vf::Blk* b = do_alloc(S, EP_malloc, 2000 + (size_t)vf_rng_below(&r, 6000));
      vf::Blk* b2 = do_alloc(S, EP_malloc, 70 * KiB + (size_t)vf_rng_below(&r, 20 * KiB));
      if (b) do_free(S, b);
      if (b2) do_free(S, b2);
    }
    // ordinary activity also touches the segments that still hold live data: replace a quarter of the live large blocks
    if (round < 2) for (size_t i = (size_t)round; i < larges.size(); i += 2) {   // every segment that holds a large block sees a page free   // (the last two rounds only do the small activity above, so nothing becomes newly purgeable)
      do_free(S, larges[i]);
      larges[i] = do_alloc(S, EP_malloc, 100 * KiB + (size_t)vf_rng_below(&r, 400 * KiB));
      if (larges[i] == nullptr) { larges[i] = larges.back(); larges.pop_back(); }
    }
    vf_cur_what = "non-forced collect";
    mi_collect(false);
  }
  g_p_after_wait = vf_os_committed_resident(0, 0);
  vf_os_counts_t c2; vf_os_get_counts(&c2);
  g_p_purge_calls_wait = c2.purge_calls - c1.purge_calls;
  S.sm.verify_all("after purging");
  // what a forced collection gives back: the yardstick (not part of the property)
  mi_collect(true); mi_collect(true);
  g_p_forced = vf_os_committed_resident(0, 0);
  vf_os_counts_t c3; vf_os_get_counts(&c3);
  g_p_purge_calls_total = c3.purge_calls - c0.purge_calls;
  if (d < 0) {
    if (c2.purge_calls != c0.purge_calls)
      vf_trip("purged-although-disabled", "C18", "purge_delay=-1 but %llu purge calls (madvise DONTNEED/FREE, mprotect NONE) were made without a forced collect", (unsigned long long)(c2.purge_calls - c0.purge_calls));
  }
  else {
    // yardstick: everything that became unused = peak - what is still committed after a forced collect
    size_t freed = (g_p_peak > g_p_forced ? g_p_peak - g_p_forced : 0);
    size_t left = (g_p_after_wait > g_p_forced ? g_p_after_wait - g_p_forced : 0);
    // calibrated on the repaired tree (also under load): at most ~15% is left (pages retired for a few cycles, one segment kept by the heap)
    if (d == 0 && freed >= 16 * MiB && c1.purge_calls == c0.purge_calls)
      vf_trip("not-purged-immediately", "C18", "purge_delay=0, scenario %s: %zu bytes became unused but no purge call was made while they were freed", sc.c_str(), freed);
    // page-level purging inside live segments is lazy by design (needs later activity in that segment): the page scenario is only a smoke test here
    // (observed up to 69% left on the unchanged tree); the exact scenarios (holes, trickle) judge page-level purging range by range
    const size_t pct = (sc == "pages" ? 90 : 35);
    if (freed >= 16 * MiB && left * 100 > freed * pct)
      vf_trip("not-purged-after-delay", "C18", "purge_delay=%ld (arena multiplier %ld), scenario %s: %zu bytes became unused (a forced collect returns them) but %zu bytes (%zu%%) were still committed "
              "after the delay had expired 4 times with ordinary activity and non-forced collects (%llu purge calls in that time)", d, mult, sc.c_str(), freed, left, left * 100 / (freed ? freed : 1),
              (unsigned long long)g_p_purge_calls_wait);
  }
  free_all(S);
}


// ---- exact scenarios: the harness knows which ranges became unused and when, and demands that exactly those are returned -------------------------------------------
static uint64_t g_px_checked = 0, g_px_rounds = 0, g_px_arenas = 0, g_px_bytes = 0;
static void purgex_print(FILE* f) {
  fprintf(f, ",\"purge_exact\":{\"delay\":%ld,\"mult\":%ld,\"ranges_checked\":%llu,\"rounds\":%llu,\"arenas\":%llu,\"bytes_checked\":%llu}", g_p_delay, g_p_mult,
          (unsigned long long)g_px_checked, (unsigned long long)g_px_rounds, (unsigned long long)g_px_arenas, (unsigned long long)g_px_bytes);
}
static void tick(State& S, long ms) { if (ms > 0) { vf_clock_advance_ms(ms); S.n_clock_ms += (uint64_t)ms; } }
// ordinary activity that frees no segment: small and medium blocks come and go in the thread's normal segment, which a long-lived block keeps alive
static void small_activity(State& S, vf_rng_t* r, int n) {
  for (int i = 0; i < n; i++) {
    vf::Blk* b = do_alloc(S, EP_malloc, 16 + (size_t)vf_rng_below(r, 900));
    vf::Blk* b2 = do_alloc(S, EP_malloc, 2000 + (size_t)vf_rng_below(r, 9000));
    if (b) do_free(S, b);
    if (b2) do_free(S, b2);
  }
}

// "arenas": whole segments (one huge block each) are freed at different virtual times into several arenas, over several rounds; afterwards only segment-free-less activity and
// non-forced collects happen.  Every freed range must be returned once delay*mult has passed (a pass purges at most two arenas, so the wait scales with the number of arenas).
static void run_purge_arenas(State& S) {
  add_result_printer(&purgex_print);
  S.sm.refutes_generic = "C01";
  const long d = mi_option_get(mi_option_purge_delay), mult = mi_option_get(mi_option_arena_purge_mult);
  g_p_delay = d; g_p_mult = mult;
  const long ad = (d > 0 ? d * (mult > 0 ? mult : 1) : d);      // arena delay
  vf_rng_t r; vf_rng_seed(&r, S.cfg.seed);
  vf::Blk* keep = do_alloc(S, EP_malloc, 100);                  // long-lived data: the thread's normal segment never becomes free
  (void)keep;
  small_activity(S, &r, 20);
  const int rounds = 2 + (int)vf_rng_below(&r, 3);
  const int nblocks = 4 + (int)vf_rng_below(&r, 7);
  struct Rng { uintptr_t lo; size_t len; };
  for (int round = 0; round < rounds; round++) {
    g_px_rounds++;
    std::vector<vf::Blk*> hs;
    for (int i = 0; i < nblocks; i++) { vf::Blk* b = do_alloc(S, EP_malloc, 17 * MiB + (size_t)vf_rng_below(&r, (round % 2 ? 40 : 12) * MiB)); if (b) { memset(b->p, 0x30 + i, b->u); S.sm.fill(b); hs.push_back(b); } }
    std::vector<ArenaArea> as = arena_areas();
    if (as.size() > g_px_arenas) g_px_arenas = as.size();
    vf_os_counts_t c0; vf_os_get_counts(&c0);
    // free in a random order with random gaps (0 .. 1.6 x the arena delay), small activity in between
    std::vector<Rng> freed;
    while (!hs.empty()) {
      size_t k = (size_t)vf_rng_below(&r, hs.size());
      vf::Blk* b = hs[k]; hs[k] = hs.back(); hs.pop_back();
      Rng g; g.lo = ((uintptr_t)b->p + 4095) & ~(uintptr_t)4095; g.len = (b->u - (g.lo - (uintptr_t)b->p)) & ~(size_t)4095;
      bool arena_mem = in_arena(as, g.lo, g.lo + g.len);
      do_free(S, b);
      if (arena_mem || d >= 0) freed.push_back(g);
      if (d == 0) {
        size_t res = vf_os_committed_resident(g.lo, g.len);
        g_px_checked++; g_px_bytes += g.len;
        if (res > 0) vf_trip("not-purged-immediately", "C18", "purge_delay=0: a freed %zu byte block that had a segment of its own still has %zu committed resident bytes right after mi_free", g.len, res);
      }
      if (ad > 0) { static const int gaps[] = { 0, 0, 10, 30, 60, 90, 110, 160 }; tick(S, ad * gaps[vf_rng_below(&r, 8)] / 100); }
      if (vf_rng_chance(&r, 1, 2)) small_activity(S, &r, 5);
    }
    if (d < 0) {
      small_activity(S, &r, 50); tick(S, 100000); mi_collect(false);
      vf_os_counts_t c1; vf_os_get_counts(&c1);
      if (c1.purge_calls != c0.purge_calls) vf_trip("purged-although-disabled", "C18", "purge_delay=-1 but %llu purge calls were made without a forced collect", (unsigned long long)(c1.purge_calls - c0.purge_calls));
      continue;
    }
    if (d > 0) {
      // wait: each step lets the arena delay pass once, with activity that frees no segment, and (in most steps) a non-forced collect
      const int steps = 4 + 2 * (int)as.size();
      const bool collects = !vf_rng_chance(&r, 1, 4);       // in a quarter of the cases only the frees of the next round drive the purging: then nothing is judged here
      for (int st = 0; st < steps; st++) { tick(S, ad + 1); small_activity(S, &r, 10); if (collects) { vf_cur_what = "non-forced collect"; mi_collect(false); } }
      if (collects) for (const Rng& g : freed) {
        size_t res = vf_os_committed_resident(g.lo, g.len);
        g_px_checked++; g_px_bytes += g.len;
        if (res > 0)
          vf_trip("not-purged-after-delay", "C18", "purge_delay=%ld x arena multiplier %ld, %zu arenas, round %d: a whole free segment (%zu bytes at %p, freed more than %d delays ago) still has %zu committed "
                  "resident bytes after %d non-forced collects and ordinary activity", d, mult, as.size(), round, g.len, (void*)g.lo, steps, res, steps);
      }
    }
  }
  S.sm.verify_all("after purging");
  free_all(S);
}

// "trickle": a page inside a live segment becomes unused; afterwards the thread keeps allocating NEW pages in the same segment at intervals shorter than the delay and never frees
// anything there.  The unused page must be returned once the delay has passed (the allocations are the "ordinary later activity"; none of them re-uses the pending range).
static void run_purge_trickle(State& S) {
  add_result_printer(&purgex_print);
  S.sm.refutes_generic = "C01";
  const long d = mi_option_get(mi_option_purge_delay), mult = mi_option_get(mi_option_arena_purge_mult);
  g_p_delay = d; g_p_mult = mult;
  vf_rng_t r; vf_rng_seed(&r, S.cfg.seed);
  vf::Blk* keep = do_alloc(S, EP_malloc, 100); (void)keep;
  // victims: blocks of 130..300 KiB (a page of their own), each between two live neighbours of the same kind so that the freed span cannot coalesce into something larger
  const int nv = 1 + (int)vf_rng_below(&r, 4);
  std::vector<vf::Blk*> vict, guard;
  for (int i = 0; i < nv; i++) {
    vf::Blk* g0 = do_alloc(S, EP_malloc, 200 * KiB); vf::Blk* x = do_alloc(S, EP_malloc, 130 * KiB + (size_t)vf_rng_below(&r, 170 * KiB)); vf::Blk* g1 = do_alloc(S, EP_malloc, 200 * KiB);
    if (!g0 || !x || !g1) return;
    memset(x->p, 0x66, x->u); S.sm.fill(x);
    guard.push_back(g0); guard.push_back(g1); vict.push_back(x);
  }
  const uintptr_t seg = (uintptr_t)vict[0]->p & ~(uintptr_t)(32 * MiB - 1);
  struct Rng { uintptr_t lo; size_t len; };
  std::vector<Rng> freed;
  vf_os_counts_t c0; vf_os_get_counts(&c0);
  for (vf::Blk* x : vict) {
    Rng g; g.lo = ((uintptr_t)x->p + 4095) & ~(uintptr_t)4095; g.len = (x->u - (g.lo - (uintptr_t)x->p)) & ~(size_t)4095;
    do_free(S, x); freed.push_back(g);
  }
  g_px_rounds = 1;
  if (d == 0) {
    for (const Rng& g : freed) { size_t res = vf_os_committed_resident(g.lo, g.len); g_px_checked++; g_px_bytes += g.len;
      if (res > 0) vf_trip("not-purged-immediately", "C18", "purge_delay=0: a freed %zu byte page inside a live segment still has %zu committed resident bytes right after mi_free", g.len, res); }
    free_all(S); return;
  }
  // trickle: new 480 KiB pages (larger than any victim span) in the same segment, every `iv` ms, iv < delay
  const long iv = (d > 0 ? std::max<long>(1, d / 10 + (long)vf_rng_below(&r, (uint64_t)std::max<long>(1, d - d / 10 - 1))) : 5);
  long elapsed = 0; int in_seg = 0;
  std::vector<vf::Blk*> tr;
  for (int i = 0; i < 40; i++) {
    tick(S, iv); elapsed += iv;
    vf::Blk* b = do_alloc(S, EP_malloc, 480 * KiB); if (!b) break;
    tr.push_back(b);
    if (((uintptr_t)b->p & ~(uintptr_t)(32 * MiB - 1)) != seg) break;      // the segment is full: no further activity reaches it
    in_seg++;
  }
  vf_os_counts_t c1; vf_os_get_counts(&c1);
  if (d < 0) {
    if (c1.purge_calls != c0.purge_calls) vf_trip("purged-although-disabled", "C18", "purge_delay=-1 but %llu purge calls were made without a forced collect", (unsigned long long)(c1.purge_calls - c0.purge_calls));
  }
  else if (in_seg >= 8 && (long)(in_seg - 2) * iv > 3 * d) {
    // at least 3 delays passed while pages were still being allocated in that segment
    for (const Rng& g : freed) {
      size_t res = vf_os_committed_resident(g.lo, g.len); g_px_checked++; g_px_bytes += g.len;
      if (res > 0)
        vf_trip("not-purged-after-delay", "C18", "purge_delay=%ld: a %zu byte page inside a live segment became unused %ld ms ago; since then %d new pages were allocated in that segment (one every %ld ms, none re-using "
                "the range, nothing freed) but %zu bytes of it are still committed and resident", d, g.len, elapsed, in_seg, iv, res);
    }
  }
  S.sm.verify_all("after purging");
  free_all(S);
}


// "holes": many one-block pages in the same segments, a subset of them is freed (hole patterns in the segment's pending-purge mask: runs that end in the middle of a 64-slice
// group, runs that start at a group boundary, single slices ...); after the delay one more page of each segment is freed: that free must run all delayed purges of the segment.
static void run_purge_holes(State& S) {
  add_result_printer(&purgex_print);
  S.sm.refutes_generic = "C01";
  const long d = mi_option_get(mi_option_purge_delay), mult = mi_option_get(mi_option_arena_purge_mult);
  g_p_delay = d; g_p_mult = mult;
  vf_rng_t r; vf_rng_seed(&r, S.cfg.seed);
  vf::Blk* keep = do_alloc(S, EP_malloc, 100); (void)keep;
  const int mode = (int)vf_rng_below(&r, 4);          // block sizes: 0 = 480 KiB, 1 = 200 KiB, 2 = mixed 130..900 KiB, 3 = mixed 66..260 KiB (1..5 slices)
  const int pat = (int)vf_rng_below(&r, 4);           // which blocks stay live: 0 = random half, 1 = every k-th, 2 = those covering slice t mod 64, 3 = random eighth
  const size_t kth = 2 + (size_t)vf_rng_below(&r, 7), tmod = (size_t)vf_rng_below(&r, 64);
  std::vector<vf::Blk*> bs;
  size_t total = 0;
  while (total < 72 * MiB) {
    size_t sz = (mode == 0 ? 480 * KiB : mode == 1 ? 200 * KiB : mode == 2 ? 130 * KiB + (size_t)vf_rng_below(&r, 770 * KiB) : 130 * KiB + (size_t)vf_rng_below(&r, 130 * KiB));
    if (mode == 3 && vf_rng_chance(&r, 1, 3)) sz = 129 * KiB;     // large page of 3 slices
    vf::Blk* b = do_alloc(S, EP_malloc, sz); if (!b) break;
    memset(b->p, 0x77, b->u); S.sm.fill(b);
    bs.push_back(b); total += b->u;
  }
  struct Rng { uintptr_t lo; size_t len; uintptr_t seg; };
  auto rng_of = [](vf::Blk* x) { Rng g; g.lo = ((uintptr_t)x->p + 4095) & ~(uintptr_t)4095; g.len = (x->u - (g.lo - (uintptr_t)x->p)) & ~(size_t)4095; g.seg = (uintptr_t)x->p & ~(uintptr_t)(32 * MiB - 1); return g; };
  std::vector<Rng> freed; std::vector<vf::Blk*> live;
  vf_os_counts_t c0; vf_os_get_counts(&c0);
  for (size_t i = 0; i < bs.size(); i++) {
    vf::Blk* x = bs[i];
    const size_t s0 = ((uintptr_t)x->p & (32 * MiB - 1)) / (64 * KiB), s1 = (((uintptr_t)x->p + x->u - 1) & (32 * MiB - 1)) / (64 * KiB);
    bool stay;
    switch (pat) {
      case 0: stay = vf_rng_chance(&r, 1, 2); break;
      case 1: stay = (i % kth) == 0; break;
      case 2: stay = false; for (size_t q = s0; q <= s1; q++) if ((q % 64) == tmod) stay = true; break;
      default: stay = vf_rng_chance(&r, 1, 8); break;
    }
    if (stay) { live.push_back(x); continue; }
    Rng g = rng_of(x);
    do_free(S, x); freed.push_back(g);
    if (d == 0) {
      size_t res = vf_os_committed_resident(g.lo, g.len); g_px_checked++; g_px_bytes += g.len;
      if (res > 0) vf_trip("not-purged-immediately", "C18", "purge_delay=0: a freed %zu byte page inside a live segment still has %zu committed resident bytes right after mi_free", g.len, res);
    }
  }
  g_px_rounds = 1;
  if (d > 0) {
    tick(S, 3 * d + 200);          // every further free extends a pending expiry by purge_extend_delay (1 ms): be generous
    // one more free per segment that still has live pages
    std::vector<uintptr_t> segs_done;
    for (size_t i = 0; i < live.size(); ) {
      Rng g = rng_of(live[i]);
      if (std::find(segs_done.begin(), segs_done.end(), g.seg) != segs_done.end()) { i++; continue; }
      // the segment must keep another live page, otherwise it is freed as a whole (that is the arena scenario)
      size_t others = 0; for (size_t j = 0; j < live.size(); j++) if (j != i && rng_of(live[j]).seg == g.seg) others++;
      if (others == 0) { i++; continue; }
      segs_done.push_back(g.seg);
      do_free(S, live[i]);        // (its own range only became unused now: it is not judged)
      live[i] = live.back(); live.pop_back();
    }
    for (const Rng& g : freed) {
      if (std::find(segs_done.begin(), segs_done.end(), g.seg) == segs_done.end()) continue;     // no later activity reached that segment
      size_t res = vf_os_committed_resident(g.lo, g.len); g_px_checked++; g_px_bytes += g.len;
      if (res > 0)
        vf_trip("not-purged-after-delay", "C18", "purge_delay=%ld: a %zu byte page at %p (slice %zu of its segment) became unused, %ld ms later another page of the same segment was freed (which runs the "
                "segment's delayed purges) but %zu bytes of it are still committed and resident (sizes mode %d, pattern %d)", d, g.len, (void*)g.lo, (size_t)((g.lo - g.seg) / (64 * KiB)), 3 * d + 200, res, mode, pat);
    }
  }
  else if (d < 0) {
    tick(S, 100000); small_activity(S, &r, 50); mi_collect(false);
    vf_os_counts_t c1; vf_os_get_counts(&c1);
    if (c1.purge_calls != c0.purge_calls) vf_trip("purged-although-disabled", "C18", "purge_delay=-1 but %llu purge calls were made without a forced collect", (unsigned long long)(c1.purge_calls - c0.purge_calls));
  }
  S.sm.verify_all("after purging");
  // phase 2 (purge by decommit only): the rest is freed as well, so every segment except the one that holds the long-lived block goes back to its arena as a whole --
  // some of them only partly committed by now (debug/secure builds really decommit purged pages; lazily committed segments).  After the arena delay and non-forced
  // collects every range in those segments must be returned.  (With purge by reset a partly committed range is deliberately left alone by the allocator.)
  if (d > 0 && mi_option_is_enabled(mi_option_purge_decommits) && !mi_option_is_enabled(mi_option_disallow_arena_alloc)) {
    const uintptr_t keepseg = (uintptr_t)keep->p & ~(uintptr_t)(32 * MiB - 1);
    std::vector<Rng> all = freed;
    for (vf::Blk* x : live) { all.push_back(rng_of(x)); do_free(S, x); }
    live.clear();
    std::vector<ArenaArea> as = arena_areas();
    const long ad = d * (mult > 0 ? mult : 1);
    const int steps = 4 + 2 * (int)as.size();
    for (int st = 0; st < steps; st++) { tick(S, ad + 1); small_activity(S, &r, 10); vf_cur_what = "non-forced collect"; mi_collect(false); }
    g_px_rounds++;
    for (const Rng& g : all) {
      if (g.seg == keepseg || !in_arena(as, g.lo, g.lo + g.len)) continue;
      size_t res = vf_os_committed_resident(g.lo, g.len); g_px_checked++; g_px_bytes += g.len;
      if (res > 0)
        vf_trip("not-purged-after-delay", "C18", "purge_delay=%ld x arena multiplier %ld: every page of the segment at %p was freed (some long ago, the rest %d arena delays ago), so the segment went back to "
                "its arena, but %zu bytes of the former page at %p are still committed and resident after %d non-forced collects", d, mult, (void*)g.seg, steps, res, (void*)g.lo, steps);
    }
  }
  free_all(S);
}

// "switch": purging is switched off at run time (mi_option_set(purge_delay, -1)) after segments and pending purges exist: from then on nothing may be purged without a forced collect
static void run_purge_switch(State& S) {
  add_result_printer(&purgex_print);
  S.sm.refutes_generic = "C01";
  const long d = mi_option_get(mi_option_purge_delay), mult = mi_option_get(mi_option_arena_purge_mult);
  g_p_delay = d; g_p_mult = mult;
  vf_rng_t r; vf_rng_seed(&r, S.cfg.seed);
  vf::Blk* keep = do_alloc(S, EP_malloc, 100); (void)keep;
  std::vector<vf::Blk*> pages, huges;
  for (int i = 0; i < 90; i++) { vf::Blk* b = do_alloc(S, EP_malloc, 130 * KiB + (size_t)vf_rng_below(&r, 500 * KiB)); if (b) { memset(b->p, 0x5a, b->u); S.sm.fill(b); pages.push_back(b); } }
  for (int i = 0; i < 4; i++) { vf::Blk* b = do_alloc(S, EP_malloc, 17 * MiB + (size_t)vf_rng_below(&r, 8 * MiB)); if (b) { memset(b->p, 0x5b, b->u); S.sm.fill(b); huges.push_back(b); } }
  // some purges are pending (scheduled, not expired) when the switch happens
  for (size_t i = 0; i < pages.size(); i += 3) { do_free(S, pages[i]); pages[i] = nullptr; }
  uintptr_t pend_lo = 0; size_t pend_len = 0;
  if (!huges.empty()) { vf::Blk* x = huges.back(); pend_lo = ((uintptr_t)x->p + 4095) & ~(uintptr_t)4095; pend_len = (x->u - (pend_lo - (uintptr_t)x->p)) & ~(size_t)4095; do_free(S, x); huges.pop_back(); }
  if (d > 0 && (S.cfg.seed & 1)) {
    // variant: the delay is set to 0 at run time while a whole free segment is waiting for its (delayed) purge: that purge must still happen, by later
    // activity or a non-forced collect
    vf_cur_what = "mi_option_set(purge_delay,0)";
    mi_option_set(mi_option_purge_delay, 0);
    g_px_rounds = 1;
    // (the purge was scheduled with the old delay: the old delay times the arena multiplier has to pass -- waiting less and demanding the purge was a false alarm of this scenario with purge_delay=1000)
    const long waitms = d * (mult > 0 ? mult : 1) + 1000;
    for (int k = 0; k < 4; k++) { tick(S, waitms); small_activity(S, &r, 20); vf_cur_what = "non-forced collect"; mi_collect(false); }
    if (pend_len > 0 && in_arena(arena_areas(), pend_lo, pend_lo + pend_len)) {
      size_t res = vf_os_committed_resident(pend_lo, pend_len); g_px_checked++; g_px_bytes += pend_len;
      if (res > 0)
        vf_trip("not-purged-after-delay", "C18", "a whole free segment (%zu bytes) was waiting for its purge (purge_delay=%ld) when the delay was set to 0 with mi_option_set; 4 x %ld virtual ms (more than the old arena delay each), "
                "ordinary activity and 4 non-forced collects later %zu bytes of it are still committed and resident", pend_len, d, waitms, res);
    }
    mi_option_set(mi_option_purge_delay, d);
    S.sm.verify_all("after switch to 0");
    free_all(S);
    return;
  }
  vf_cur_what = "mi_option_set(purge_delay,-1)";
  mi_option_set(mi_option_purge_delay, -1);
  vf_os_counts_t c0; vf_os_get_counts(&c0);
  g_px_rounds = 1;
  for (int round = 0; round < 3; round++) {
    tick(S, 5000);
    for (size_t i = (size_t)round + 1; i < pages.size(); i += 3) if (pages[i]) { do_free(S, pages[i]); pages[i] = nullptr; g_px_checked++; break; }
    for (size_t i = 1; i < pages.size(); i += 3) if (pages[i] && vf_rng_chance(&r, 1, 2)) { do_free(S, pages[i]); pages[i] = nullptr; g_px_checked++; }
    if (!huges.empty()) { do_free(S, huges.back()); huges.pop_back(); g_px_checked++; }
    small_activity(S, &r, 40);
    vf_cur_what = "non-forced collect"; mi_collect(false);
  }
  vf_os_counts_t c1; vf_os_get_counts(&c1);
  if (c1.purge_calls != c0.purge_calls)
    vf_trip("purged-although-disabled", "C18", "purge_delay was set to -1 at run time (it was %ld when the segments were created); since then %llu purge calls (%llu bytes) were made by frees, ordinary activity "
            "and non-forced collects", d, (unsigned long long)(c1.purge_calls - c0.purge_calls), (unsigned long long)(c1.purge_bytes - c0.purge_bytes));
  mi_option_set(mi_option_purge_delay, d);
  S.sm.verify_all("after switch");
  free_all(S);
}

// "abandoned": a thread terminates with live blocks; this thread frees some of them (the segment stays abandoned: reclaim-on-free is off, nothing here needs a fresh segment).
// A non-forced collect releases the pages that became empty; after the delay another non-forced collect must have returned them.
static void run_purge_abandoned(State& S) {
  add_result_printer(&purgex_print);
  S.sm.refutes_generic = "C01";
  // the premise of this scenario, whatever the build's default is: with reclaim-on-free the first free below would adopt the segment, and pages inside a segment that a
  // live thread owns are purged by later activity in that segment, not by a non-forced collect (by design, DESIGN.md 7.2) -- found with the benign change B1 (7.4)
  mi_option_set(mi_option_abandoned_reclaim_on_free, 0);
  const long d = mi_option_get(mi_option_purge_delay), mult = mi_option_get(mi_option_arena_purge_mult);
  g_p_delay = d; g_p_mult = mult;
  vf_rng_t r; vf_rng_seed(&r, S.cfg.seed);
  vf::Blk* keep = do_alloc(S, EP_malloc, 100); (void)keep;
  small_activity(S, &r, 30);
  struct TB { void* p; size_t n; };
  std::vector<TB> out;
  const size_t cnt = 12 + (size_t)vf_rng_below(&r, 20);
  uint64_t tseed = vf_rng_next(&r);
  vf_cur_what = "thread with live blocks terminates";
  try {
    std::thread t([&]() {
      vf_rng_t tr; vf_rng_seed(&tr, tseed);
      for (size_t i = 0; i < cnt; i++) { size_t n = 130 * KiB + (size_t)vf_rng_below(&tr, 400 * KiB); void* p = mi_malloc(n); if (p) { memset(p, 0x6c, n); TB tb; tb.p = p; tb.n = n; out.push_back(tb); } }
    });
    t.join();
  } catch (const std::system_error& e) { vf_trip("harness", "", "cannot create a thread: %s", e.what()); }
  std::vector<vf::Blk*> theirs;
  for (auto& tb : out) { vf::Blk* b = accept_foreign(S, tb.p, tb.n); if (b) theirs.push_back(b); }
  struct Rng { uintptr_t lo; size_t len; };
  std::vector<Rng> freed;
  vf_os_counts_t c0; vf_os_get_counts(&c0);
  // free every other block, and never the last one (the segment must stay in use)
  for (size_t i = 0; i + 1 < theirs.size(); i += 2) {
    vf::Blk* x = theirs[i];
    Rng g; g.lo = ((uintptr_t)x->p + 4095) & ~(uintptr_t)4095; g.len = (x->u - (g.lo - (uintptr_t)x->p)) & ~(size_t)4095;
    forget_foreign(S, x); do_free(S, x); freed.push_back(g);
  }
  g_px_rounds = 1;
  vf_cur_what = "non-forced collect"; mi_collect(false);         // the empty pages of the abandoned segment are released here (and their purge is scheduled, or done at once with delay 0)
  if (d > 0) { for (int k = 0; k < 3; k++) { tick(S, 3 * d + 10); small_activity(S, &r, 10); vf_cur_what = "non-forced collect"; mi_collect(false); } }
  vf_os_counts_t c1; vf_os_get_counts(&c1);
  if (d < 0) {
    if (c1.purge_calls != c0.purge_calls) vf_trip("purged-although-disabled", "C18", "purge_delay=-1 but %llu purge calls were made without a forced collect", (unsigned long long)(c1.purge_calls - c0.purge_calls));
  }
  else for (const Rng& g : freed) {
    size_t res = vf_os_committed_resident(g.lo, g.len); g_px_checked++; g_px_bytes += g.len;
    if (res > 0)
      vf_trip("not-purged-after-delay", "C18", "purge_delay=%ld: a %zu byte page at %p in a segment abandoned by a terminated thread was freed by this thread; after %s non-forced collects "
              "%zu bytes of it are still committed and resident", d, g.len, (void*)g.lo, d > 0 ? "the delay passed 9 times with 4" : "1", res);
  }
  S.sm.verify_all("after purging");
  free_all(S);
}

void run_os_profile(State& S) {
  const std::string p = S.cfg.profile;
  if (p == "faults") run_faults(S);
  else if (p == "ledger") run_ledger(S);
  else if (S.cfg.scenario == "arenas") run_purge_arenas(S);
  else if (S.cfg.scenario == "trickle") run_purge_trickle(S);
  else if (S.cfg.scenario == "holes") run_purge_holes(S);
  else if (S.cfg.scenario == "switch") run_purge_switch(S);
  else if (S.cfg.scenario == "abandoned") run_purge_abandoned(S);
  else run_purge(S);
}

} // namespace seq
