#include "seq.hpp"
namespace seq {
void run_os_profile(State&) {}
void extra_result_body(FILE*) {}
}
