// drv_opts.c -- C20: option / environment parsing and the allocator's own formatted output.
//   --mode values   print every option (name, legacy name, value after start) as JSON; the python side holds the reference grammar
//   --mode fmt      _mi_snprintf / _mi_strlcpy / _mi_strlcat into exactly sized libc buffers (ASan red zone right behind) for generated formats
//   --mode json     mi_stats_get_json(size, buf) for every size 0..full+64 and (0,NULL)
//   --mode out      every print function, verbose levels, error / warning messages, >16 KiB of delayed output before mi_register_output
#include "static.c"      // from $REPO/src
#include "vf_common.h"
#include <stdarg.h>

static unsigned long long n_fmt = 0, n_sizes = 0, n_roundtrip = 0, n_str = 0, n_out_calls = 0, n_out_bytes = 0, n_json_sizes = 0, full_json_len = 0;
static const char* g_mode = "values";
static void body(FILE* f) {
  fprintf(f, "\"opts\":{\"mode\":\"%s\",\"format_calls\":%llu,\"buffer_sizes\":%llu,\"set_get_roundtrips\":%llu,\"string_fn_calls\":%llu,\"output_calls\":%llu,\"output_bytes\":%llu,\"json_sizes\":%llu,\"json_full_length\":%llu}",
          g_mode, n_fmt, n_sizes, n_roundtrip, n_str, n_out_calls, n_out_bytes, n_json_sizes, full_json_len);
}
#define FAIL(...) vf_trip("opts", "C20", __VA_ARGS__)

// exactly sized buffer from libc (under ASan every byte beyond `size` is poisoned); a canary block in front for non-ASan builds
static char* xbuf(size_t size) { char* p = (char*)malloc(size ? size : 1); if (!p) abort(); memset(p, 0x7e, size ? size : 1); return p; }

// ---------------------------------------------------------------- values
static void mode_values(void) {
  printf("VFMAXALLOC %zu\n", (size_t)MI_MAX_ALLOC_SIZE);
  printf("VFOPTIONS [");
  for (int i = 0; i < _mi_option_last; i++) {
    long v = mi_option_get((mi_option_t)i);
    printf("%s{\"i\":%d,\"name\":\"%s\",\"legacy\":%s%s%s,\"value\":%ld,\"kib\":%d}", i ? "," : "", i, options[i].name, options[i].legacy_name ? "\"" : "", options[i].legacy_name ? options[i].legacy_name : "null",
           options[i].legacy_name ? "\"" : "", v, (int)mi_option_has_size_in_kib((mi_option_t)i));
  }
  printf("]\n");
  // set / get round trip (after the environment has been consumed)
  static const long vals[] = { 0, 1, -1, 2, 10, 100, 1023, 1024, 65536, 2147483647L, -2147483647L - 1, 4294967296L, LONG_MAX, LONG_MIN, LONG_MAX - 1, 123456789012345L };
  for (int i = 0; i < _mi_option_last; i++) {
    const long before = mi_option_get((mi_option_t)i);
    for (size_t k = 0; k < sizeof(vals) / sizeof(vals[0]); k++) {
      mi_option_set((mi_option_t)i, vals[k]);
      long g = mi_option_get((mi_option_t)i);
      n_roundtrip++;
      if (g != vals[k]) FAIL("mi_option_set(%s, %ld) followed by mi_option_get returned %ld", options[i].name, vals[k], g);
      if (mi_option_is_enabled((mi_option_t)i) != (vals[k] != 0)) FAIL("mi_option_is_enabled(%s) wrong for value %ld", options[i].name, vals[k]);
      long c = mi_option_get_clamp((mi_option_t)i, -5, 500);
      if (c != (vals[k] < -5 ? -5 : vals[k] > 500 ? 500 : vals[k])) FAIL("mi_option_get_clamp(%s) = %ld for value %ld", options[i].name, c, vals[k]);
    }
    mi_option_set_default((mi_option_t)i, 77);   // must not override an explicitly set value
    if (mi_option_get((mi_option_t)i) != vals[sizeof(vals) / sizeof(vals[0]) - 1]) FAIL("mi_option_set_default(%s) overrode a value that was set explicitly", options[i].name);
    mi_option_enable((mi_option_t)i); if (mi_option_get((mi_option_t)i) != 1) FAIL("mi_option_enable(%s)", options[i].name);
    mi_option_disable((mi_option_t)i); if (mi_option_get((mi_option_t)i) != 0) FAIL("mi_option_disable(%s)", options[i].name);
    mi_option_set((mi_option_t)i, before);
  }
  // out-of-range indices are ignored (debug builds assert on them by design)
#if !MI_DEBUG
  mi_option_set((mi_option_t)-1, 5); mi_option_set(_mi_option_last, 5); mi_option_set((mi_option_t)100000, 5);
  if (mi_option_get((mi_option_t)-1) != 0 || mi_option_get(_mi_option_last) != 0) FAIL("mi_option_get of an invalid index");
#endif
}

// ---------------------------------------------------------------- formatted output
static void check_result(const char* what, const char* fmt, char* buf, size_t size, int ret) {
  n_fmt++;
  if (size == 0) { if (ret != 0) FAIL("%s(size 0, \"%s\") returned %d", what, fmt, ret); return; }
  if (ret < 0 || (size_t)ret >= size) FAIL("%s(size %zu, \"%s\") returned %d: not smaller than the buffer", what, size, fmt, ret);
  if (buf[ret] != 0) FAIL("%s(size %zu, \"%s\"): no terminator at the returned length %d", what, size, fmt, ret);
  if (memchr(buf, 0, size) == NULL) FAIL("%s(size %zu, \"%s\"): buffer not terminated", what, size, fmt);
  if (strlen(buf) != (size_t)ret) FAIL("%s(size %zu, \"%s\"): returned %d but the string is %zu long", what, size, fmt, ret, strlen(buf));
}

static void fmt_one(vf_rng_t* r, int full) {
  // lit1 %[+ ][-][0][width][z|t|l|ll|L]conv lit2
  char fmt[160]; size_t n = 0;
  static const char* lits[] = { "", "x", "abc ", "value: ", "%%", "\n", "\t|", "a\x01" "b", "0123456789012345678901234567890123456789", "\xe2\x82\xac" };
  const char* l1 = lits[vf_rng_below(r, 10)]; const char* l2 = lits[vf_rng_below(r, 10)];
  n += (size_t)snprintf(fmt + n, sizeof(fmt) - n, "%s%%", l1);
  unsigned k = (unsigned)vf_rng_below(r, 4); if (k == 1) fmt[n++] = '+'; else if (k == 2) fmt[n++] = ' ';
  if (vf_rng_chance(r, 1, 3)) fmt[n++] = '-';
  if (vf_rng_chance(r, 1, 3)) fmt[n++] = '0';
  if (vf_rng_chance(r, 1, 2)) n += (size_t)snprintf(fmt + n, sizeof(fmt) - n, "%u", (unsigned)vf_rng_below(r, vf_rng_chance(r, 1, 8) ? 300 : 24));
  static const char* lens[] = { "", "z", "t", "l", "ll", "L" };
  unsigned li = (unsigned)vf_rng_below(r, 6);
  static const char convs[] = { 'd', 'i', 'u', 'x', 'p', 's', 'c', 'f', 'q', '%', 'n' };
  char cv = convs[vf_rng_below(r, vf_rng_chance(r, 1, 6) ? 11 : 6)];
  n += (size_t)snprintf(fmt + n, sizeof(fmt) - n, "%s%c%s", lens[li], cv, l2);
  fmt[n] = 0;
  // the argument
  static const unsigned long long grid[] = { 0, 1, 9, 10, 255, 256, 65535, 4294967295ull, 4294967296ull, 9223372036854775807ull, 9223372036854775808ull, 18446744073709551615ull };
  unsigned long long v = (vf_rng_chance(r, 1, 2) ? grid[vf_rng_below(r, 12)] : vf_rng_next(r) >> vf_rng_below(r, 64));
  char sarg[400]; size_t sl = (size_t)vf_rng_below(r, vf_rng_chance(r, 1, 6) ? 399 : 30); for (size_t i = 0; i < sl; i++) sarg[i] = (char)(32 + vf_rng_below(r, 95)); sarg[sl] = 0;
  // render once into an ample buffer to learn the length, then into every buffer size around it
  char big[2048];
  int len;
#define CALL(b, s) ( (cv == 's') ? _mi_snprintf(b, s, fmt, (vf_rng_chance(r, 1, 40) ? (const char*)NULL : sarg)) : \
                     (cv == 'p') ? _mi_snprintf(b, s, fmt, (void*)(uintptr_t)v) : \
                     (li == 0)   ? _mi_snprintf(b, s, fmt, (int)v) : \
                     (li == 3)   ? _mi_snprintf(b, s, fmt, (long)v) : \
                                   _mi_snprintf(b, s, fmt, (long long)v) )
  len = CALL(big, sizeof(big));
  check_result("_mi_snprintf", fmt, big, sizeof(big), len);
  size_t top = (size_t)len + 4;
  for (size_t size = 0; size <= top; size += (full || size < 6 || size + 6 > top ? 1 : 3)) {
    char* b = xbuf(size);
    int ret = (size == 0 ? _mi_snprintf(b, 0, fmt, 0) : CALL(b, size));
    check_result("_mi_snprintf", fmt, b, size, ret);
    n_sizes++;
    free(b);
  }
  if (_mi_snprintf(NULL, 10, fmt, 0) != 0) FAIL("_mi_snprintf(NULL, ...) did not return 0");
  if (_mi_snprintf(big, sizeof(big), NULL) != 0) FAIL("_mi_snprintf(buf, n, NULL) did not return 0");
}

static void mode_fmt(int full, uint64_t seed) {
  vf_rng_t r; vf_rng_seed(&r, seed);
  int N = (full ? 200000 : 20000);
  for (int i = 0; i < N; i++) fmt_one(&r, full);
  // string helpers with exactly sized buffers
  for (int i = 0; i < N / 4; i++) {
    char src[300]; size_t sl = (size_t)vf_rng_below(&r, 299); for (size_t k = 0; k < sl; k++) src[k] = (char)(1 + vf_rng_below(&r, 255)); src[sl] = 0;
    size_t size = (size_t)vf_rng_below(&r, 320);
    char* b = xbuf(size);
    _mi_strlcpy(b, src, size); n_str++;
    if (size > 0) { if (memchr(b, 0, size) == NULL) FAIL("_mi_strlcpy(size %zu, src of %zu): not terminated", size, sl); if (strncmp(b, src, size - 1) != 0) FAIL("_mi_strlcpy copied wrong bytes"); }
    if (size > 0) { size_t cur = strlen(b); _mi_strlcat(b, src, size); n_str++; if (memchr(b, 0, size) == NULL) FAIL("_mi_strlcat(size %zu): not terminated", size); if (strlen(b) < cur) FAIL("_mi_strlcat shortened the string"); }
    free(b);
    size_t m = (size_t)vf_rng_below(&r, 320);
    if (_mi_strnlen(src, m) != (sl < m ? sl : m)) FAIL("_mi_strnlen");
    n_str++;
  }
}

// ---------------------------------------------------------------- JSON statistics
static void mode_json(void) {
  // some activity so that the counters are not all zero
  void* ps[200]; for (int i = 0; i < 200; i++) ps[i] = mi_malloc((size_t)(i * 37 + 1)); for (int i = 0; i < 200; i++) mi_free(ps[i]);
  char* fullj = mi_stats_get_json(0, NULL);
  if (fullj == NULL) FAIL("mi_stats_get_json(0,NULL) returned NULL");
  size_t L = strlen(fullj);
  full_json_len = L;
  if (L < 1000 || fullj[0] != '{' || fullj[L - 2] != '}') FAIL("mi_stats_get_json(0,NULL): unexpected text (length %zu)", L);
  for (size_t size = 0; size <= L + 64; size++) {
    char* b = xbuf(size);
    char* res = mi_stats_get_json(size, b);
    n_json_sizes++;
    if (size == 0) { if (res != NULL && res != b) mi_free(res); free(b); continue; }   // size 0: documented to allocate
    if (res != b) FAIL("mi_stats_get_json(%zu, buf) returned %p instead of the buffer", size, (void*)res);
    if (memchr(b, 0, size) == NULL) FAIL("mi_stats_get_json(%zu, buf): output not terminated inside the buffer", size);
    size_t l = strlen(b);
    if (l >= size) FAIL("mi_stats_get_json(%zu, buf): %zu characters written", size, l);
    if (size > L + 1 && l + 200 < L) FAIL("mi_stats_get_json(%zu, buf): buffer is large enough but only %zu of ~%zu characters were produced", size, l, L);
    if (l > 0 && b[0] != '{') FAIL("mi_stats_get_json(%zu, buf): does not start with '{'", size);
    free(b);
  }
  { char one[1]; one[0] = 'x'; char* res = mi_stats_get_json(1, one); if (res != one || one[0] != 0) FAIL("mi_stats_get_json(1, buf)"); }
  // the binary sibling: mi_stats_get(size, buf) for every size 0..sizeof(mi_stats_t)+64 into an exactly sized buffer (the sanitizer's red zone is directly behind it),
  // with a canary in front of a second copy for the builds without sanitizer
  for (size_t size = 0; size <= sizeof(mi_stats_t) + 64; size++) {
    unsigned char* raw = (unsigned char*)malloc(size + 16);
    memset(raw, 0xA5, size + 16);
    mi_stats_get(size, (mi_stats_t*)raw);
    for (size_t i = size; i < size + 16; i++) if (raw[i] != 0xA5) FAIL("mi_stats_get(%zu, buf) wrote to byte %zu of the caller's memory (beyond the buffer)", size, i);
    free(raw);
    if (size > 0) { char* exact = xbuf(size); mi_stats_get(size, (mi_stats_t*)exact); free(exact); }
    n_json_sizes++;
  }
  mi_free(fullj);
}

// ---------------------------------------------------------------- all print functions, delayed output
static char* g_cap = NULL; static size_t g_cap_len = 0, g_cap_size = 0;
static void cap_out(const char* msg, void* arg) {
  (void)arg; n_out_calls++;
  if (msg == NULL) return;
  size_t l = strlen(msg); n_out_bytes += l;
  if (g_cap_len + l + 1 > g_cap_size) { g_cap_size = (g_cap_len + l + 1) * 2; g_cap = (char*)realloc(g_cap, g_cap_size); }
  memcpy(g_cap + g_cap_len, msg, l + 1); g_cap_len += l;
}
static void mode_out(void) {
  // 1. more than 16 KiB of delayed output before an output function is registered (it must be buffered, truncated, never overflow)
  mi_option_set(mi_option_verbose, 3);
  mi_option_set(mi_option_max_warnings, 100000); mi_option_set(mi_option_max_errors, 100000);
  for (int i = 0; i < 1200; i++) _mi_warning_message("delayed warning %d with some padding text to fill the buffer %s\n", i, "..........................................");
  for (int i = 0; i < 200; i++) _mi_verbose_message("delayed verbose %d %p %zu %ld\n", i, (void*)&i, (size_t)i * 1000, (long)-i);
  mi_register_output(&cap_out, NULL);
  if (g_cap_len == 0) FAIL("delayed output was not delivered when an output function was registered");
  if (g_cap_len > 64 * 1024) FAIL("delayed output larger than its buffer: %zu bytes", g_cap_len);
  // 2. every print function
  void* ps[300]; for (int i = 0; i < 300; i++) ps[i] = mi_malloc((size_t)(i * 113 + 1));
  mi_stats_print(NULL); mi_stats_print_out(&cap_out, NULL); mi_thread_stats_print_out(&cap_out, NULL); mi_options_print(); mi_debug_show_arenas(); mi_arenas_print();
  mi_stats_merge(); mi_stats_print_out(NULL, NULL);
  for (int i = 0; i < 300; i++) mi_free(ps[i]);
  mi_collect(true);
  mi_stats_print_out(&cap_out, NULL);
  // 3. messages: each error / warning path that formats arguments, with hostile string arguments
  mi_register_error(&vf_error_cb, NULL);
  char longs[3000]; memset(longs, 'A', sizeof(longs) - 1); longs[sizeof(longs) - 1] = 0;
  _mi_warning_message("%s\n", longs);
  _mi_error_message(EINVAL, "%s %s %s\n", longs, longs, longs);
  _mi_verbose_message("%s%s%s%s\n", longs, longs, longs, longs);
  _mi_trace_message("%300d|%-300d|%0300d|%p|%zx|%lld\n", 1, 2, 3, (void*)longs, (size_t)-1, (long long)-1);
  _mi_message("%s", longs);
  void* q = mi_malloc(SIZE_MAX - 8); (void)q;                         // "allocation request is too large"
  q = mi_calloc(SIZE_MAX / 2, 3); (void)q;
  q = mi_malloc_aligned(100, 3); (void)q;
  mi_free((void*)(uintptr_t)0x123450);                                   // invalid pointer message (debug / secure builds)
  char* real = mi_realpath("/nonexistent/path/for/verif", NULL); mi_free(real);
  // process info and others that format
  size_t a, b, c, d, e, f, g, h; mi_process_info(&a, &b, &c, &d, &e, &f, &g, &h);
  vf_err_reset();
  // 4. captured text is printable ascii / standard controls only (the formatter filters everything else)
  for (size_t i = 0; i < g_cap_len; i++) { unsigned char ch = (unsigned char)g_cap[i]; if (!((ch >= ' ' && ch <= '~') || ch == '\n' || ch == '\r' || ch == '\t')) FAIL("output contains byte 0x%02x at %zu", ch, i); }
}

int main(int argc, char** argv) {
  g_mode = vf_getarg(argc, argv, "--mode", "values");
  int full = (int)vf_getarg_ll(argc, argv, "--full", 0);
  uint64_t seed = (uint64_t)vf_getarg_ll(argc, argv, "--seed", 1);
  vf_result_body = &body;
  vf_crash_refutes = "C20";
  vf_install_crash_handler();
  if (strcmp(g_mode, "values") == 0) mode_values();
  else if (strcmp(g_mode, "fmt") == 0) mode_fmt(full, seed);
  else if (strcmp(g_mode, "json") == 0) mode_json();
  else if (strcmp(g_mode, "out") == 0) mode_out();
  else FAIL("unknown mode");
  vf_finish_ok();
}
