/* vf_sched.h -- schedule controller used through the MI_VERIF_HOOKS call-outs (see vf_hooks.h).
   Modes:  VF_MODE_OFF    points return at once
           VF_MODE_DELAY  real parallel threads; random yields / spins / short sleeps at points
           VF_MODE_BATON  exactly one managed thread runs; points may hand the baton on      */
#ifndef VF_SCHED_H
#define VF_SCHED_H
#include <stdint.h>
#include <stddef.h>
#include <stdio.h>
#ifdef __cplusplus
extern "C" {
#endif

enum { VF_MODE_OFF = 0, VF_MODE_DELAY = 1, VF_MODE_BATON = 2 };
enum { VF_POL_UNIFORM = 0, VF_POL_TARGETED = 1, VF_POL_PCT = 2, VF_POL_SCRIPT = 3 };

typedef struct vf_sched_cfg_s {
  int      mode;
  int      policy;
  uint64_t seed;
  unsigned p_other_den;    /* switch probability 1/den at an ordinary point (0 = never)            */
  unsigned p_hot_den;      /* switch probability 1/den inside a "hot" function (targeted policy)  */
  unsigned p_spurious_den; /* weak CAS fails spuriously with probability 1/den (0 = never)        */
  unsigned delay_den;      /* delay mode: perturb with probability 1/den                          */
  int      pct_depth;      /* PCT: number of priority change points                               */
  uint64_t pct_steps;      /* PCT: estimated number of points in the run                          */
  uint64_t step_budget;    /* baton: after this many points the run is released to free-run (inconclusive) */
  const char* hot;         /* comma separated substrings of function names                        */
  unsigned tso_den;        /* baton: a non-seq_cst atomic store is kept in a simulated store buffer with probability 1/den (0 = never) until the
                              thread's next atomic operation that is not a load, a load of the same location, or its 2nd following load */
  const char* script;      /* script policy: "v:k:t,..." = when managed thread v executes its k-th point (1-based) the baton goes to thread t (if runnable);
                              "v:k:s" = the k-th weak CAS of thread v fails spuriously.  Otherwise threads run non-preemptively: lowest index first,
                              after a thread finishes or says it waits the most recently preempted runnable thread continues (else the next index, cyclic) */
} vf_sched_cfg_t;

extern volatile int vf_mode;
void vf_sched_init(const vf_sched_cfg_t* cfg);

/* create a managed thread (may be called from the unmanaged main thread or from a managed thread) */
typedef void (*vf_thread_fn)(void* arg);
int  vf_thread_create(vf_thread_fn fn, void* arg);   /* returns the managed thread index */
/* main thread: start the managed threads and wait until all of them (incl. ones created later) have finished */
void vf_run_all(void);

/* makes a store that is still in the calling thread's simulated store buffer visible (the harness calls it after every allocator call:
   its own signalling between threads must not overtake the allocator's stores) */
void vf_flush(void);
/* harness level points */
void vf_user_point(const char* what);   /* an ordinary switch point                                          */
void vf_user_yield(const char* what);   /* "I am waiting for somebody else": forces a switch when possible  */
int  vf_self_index(void);               /* managed index of the calling thread or -1                         */
uint64_t vf_rand(void);                 /* per thread deterministic PRNG (seeded from cfg.seed and the managed index) */

/* statistics for evidence */
typedef struct vf_sched_stats_s {
  uint64_t points, switches, forced_switches, spurious, delays;
  uint64_t sched_hash;      /* hash over (thread, function) at every switch: identifies the interleaving */
  int      budget_exceeded;
  int      threads_created;
  uint64_t delayed_stores;  /* stores that were kept in the simulated store buffer */
  uint64_t loads_overtaking; /* atomic loads executed while an older store of the same thread was still buffered */
  int      script_fired;    /* script entries that caused a switch / a spurious failure */
} vf_sched_stats_t;
/* points executed so far by managed thread `index` (script policy bookkeeping; -1 if unknown) */
long vf_thread_points(int index);
long vf_thread_cas_count(int index);
void vf_sched_get_stats(vf_sched_stats_t* out);
/* writes  "func":{"points":n,"switches":m},...  for the busiest functions */
void vf_sched_dump_funcs(FILE* f, int max_entries);

#ifdef __cplusplus
}
#endif
#endif
