#define _GNU_SOURCE
#include "vf_common.h"
#include <execinfo.h>

__thread volatile uint64_t    vf_cur_op = 0;
__thread volatile const char* vf_cur_what = "init";
__thread volatile int         vf_in_harness = 0;
__thread volatile uintptr_t   vf_touch_lo = 0, vf_touch_hi = 0;
void (*vf_result_body)(FILE* f) = NULL;
const char* vf_crash_refutes = "";

volatile int vf_err_count = 0;
volatile int vf_err_codes[VF_MAX_ERRS];
char vf_last_msgs[4096];
static size_t g_msg_len = 0;

void vf_json_str(FILE* f, const char* s) {
  fputc('"', f);
  for (; s && *s; s++) {
    unsigned char c = (unsigned char)*s;
    if (c == '"' || c == '\\') { fputc('\\', f); fputc(c, f); }
    else if (c == '\n') fputs("\\n", f);
    else if (c < 0x20 || c >= 0x7f) fprintf(f, "\\u%04x", c);
    else fputc(c, f);
  }
  fputc('"', f);
}

static void print_refutes(FILE* f, const char* refutes) {
  fputc('[', f);
  const char* s = refutes; int first = 1;
  while (s && *s) {
    size_t n = strcspn(s, ",");
    if (n > 0) { fprintf(f, "%s\"%.*s\"", first ? "" : ",", (int)n, s); first = 0; }
    s += n; if (*s == ',') s++;
  }
  fputc(']', f);
}

static void emit(const char* oracle, const char* refutes, const char* detail) {
  FILE* f = stdout;
  fputs("\nVFRESULT {", f);
  if (oracle) {
    fputs("\"trip\":{\"oracle\":", f); vf_json_str(f, oracle);
    fputs(",\"refutes\":", f); print_refutes(f, refutes);
    fputs(",\"detail\":", f); vf_json_str(f, detail);
    fprintf(f, ",\"op\":%llu,\"what\":", (unsigned long long)vf_cur_op); vf_json_str(f, (const char*)vf_cur_what);
    fputs("},", f);
  }
  fprintf(f, "\"errs\":%d,", vf_err_count);
  if (vf_result_body) vf_result_body(f); else fputs("\"none\":0", f);
  fputs("}\n", f);
  fflush(f);
}

/* coverage builds (VERIF_COV=1, tools/coverage.py) leave through _exit: write the counters first */
#ifdef VF_COV
extern void __gcov_dump(void);
#define VF_COV_DUMP() __gcov_dump()
#else
#define VF_COV_DUMP() ((void)0)
#endif

void vf_trip(const char* oracle, const char* refutes, const char* fmt, ...) {
  char buf[1024];
  va_list ap; va_start(ap, fmt); vsnprintf(buf, sizeof(buf), fmt, ap); va_end(ap);
  fflush(stderr);
  emit(oracle, refutes, buf);
  VF_COV_DUMP();
  _exit(10);
}

void vf_finish_ok(void) {
  emit(NULL, NULL, NULL);
  fflush(stderr);
  VF_COV_DUMP();
  _exit(0);
}

static void crash_handler(int sig, siginfo_t* si, void* uc) {
  (void)uc;
  static volatile int entered = 0;
  if (__atomic_exchange_n(&entered, 1, __ATOMIC_ACQ_REL)) { _exit(12); }
  char buf[2800];
  uintptr_t a = (uintptr_t)(si ? si->si_addr : 0);
  int in_touch = (vf_in_harness && a >= vf_touch_lo && a < vf_touch_hi);
  char bt[600]; bt[0] = 0;
  {
    void* frames[24]; int n = backtrace(frames, 24); size_t off = 0;
    for (int i = 2; i < n && off + 20 < sizeof(bt); i++) off += (size_t)snprintf(bt + off, sizeof(bt) - off, "%s%p", (i > 2 ? " " : ""), frames[i]);
  }
  int n = snprintf(buf, sizeof(buf),
     "\nVFRESULT {\"trip\":{\"oracle\":\"%s\",\"refutes\":[", in_touch ? "live-block-fault" : "crash");
  /* refutes list */
  const char* s = vf_crash_refutes; int first = 1;
  while (s && *s && n < (int)sizeof(buf) - 64) {
    size_t k = strcspn(s, ",");
    if (k > 0) { n += snprintf(buf + n, sizeof(buf) - (size_t)n, "%s\"%.*s\"", first ? "" : ",", (int)k, s); first = 0; }
    s += k; if (*s == ',') s++;
  }
  /* the allocator's last diagnostic messages (assertion text etc.), made JSON safe */
  char msgs[700]; size_t mlen = strlen(vf_last_msgs); const char* ms = vf_last_msgs + (mlen > sizeof(msgs) - 1 ? mlen - (sizeof(msgs) - 1) : 0);
  size_t mi = 0; for (; ms[mi] && mi < sizeof(msgs) - 1; mi++) { char ch = ms[mi]; msgs[mi] = (ch == '"' || ch == '\\') ? '\'' : ((unsigned char)ch < 0x20 || (unsigned char)ch >= 0x7f) ? ' ' : ch; } msgs[mi] = 0;
  n += snprintf(buf + n, sizeof(buf) - (size_t)n,
     "],\"detail\":\"signal %d addr 0x%lx in_harness=%d touch=[0x%lx,0x%lx) bt=%s msgs=%s\",\"op\":%llu,\"what\":\"%s\"},\"crash\":1}\n",
     sig, (unsigned long)a, (int)vf_in_harness, (unsigned long)vf_touch_lo, (unsigned long)vf_touch_hi, bt, msgs,
     (unsigned long long)vf_cur_op, vf_cur_what ? (const char*)vf_cur_what : "?");
  if (n > 0) { ssize_t w = write(1, buf, (size_t)(n < (int)sizeof(buf) ? n : (int)sizeof(buf) - 1)); (void)w; }
  _exit(11);
}

void vf_install_crash_handler(void) {
  static char altstack[1 << 16];
  stack_t ss; ss.ss_sp = altstack; ss.ss_size = sizeof(altstack); ss.ss_flags = 0;
  sigaltstack(&ss, NULL);
  struct sigaction sa; memset(&sa, 0, sizeof(sa));
  sa.sa_sigaction = crash_handler; sa.sa_flags = SA_SIGINFO | SA_ONSTACK | SA_NODEFER;
  sigemptyset(&sa.sa_mask);
  int sigs[] = { SIGSEGV, SIGBUS, SIGABRT, SIGFPE, SIGILL };
  for (size_t i = 0; i < sizeof(sigs) / sizeof(sigs[0]); i++) sigaction(sigs[i], &sa, NULL);
}

void vf_error_cb(int err, void* arg) {
  (void)arg;
  int i = __atomic_fetch_add(&vf_err_count, 1, __ATOMIC_RELAXED);
  if (i < VF_MAX_ERRS) vf_err_codes[i] = err;
}
void vf_output_cb(const char* msg, void* arg) {
  (void)arg;
  size_t n = strlen(msg);
  if (n >= sizeof(vf_last_msgs)) n = sizeof(vf_last_msgs) - 1;
  if (g_msg_len + n >= sizeof(vf_last_msgs)) { g_msg_len = 0; }
  memcpy(vf_last_msgs + g_msg_len, msg, n); g_msg_len += n; vf_last_msgs[g_msg_len] = 0;
}
int vf_err_seen(int code) {
  int n = vf_err_count; if (n > VF_MAX_ERRS) n = VF_MAX_ERRS;
  int c = 0; for (int i = 0; i < n; i++) if (vf_err_codes[i] == code) c++;
  return c;
}
void vf_err_reset(void) { vf_err_count = 0; g_msg_len = 0; vf_last_msgs[0] = 0; }

const char* vf_getarg(int argc, char** argv, const char* name, const char* dflt) {
  const char* v = dflt;   /* the last occurrence wins */
  for (int i = 1; i + 1 < argc; i++) if (strcmp(argv[i], name) == 0) v = argv[i + 1];
  return v;
}
long long vf_getarg_ll(int argc, char** argv, const char* name, long long dflt) {
  const char* s = vf_getarg(argc, argv, name, NULL);
  return (s ? strtoll(s, NULL, 0) : dflt);
}
