// drv_mt.cpp -- multi-thread driver: real pthreads under the schedule controller (vf_sched) or free-running (TSan / delay mode).
// Oracles: unique-id content patterns verified by whoever holds a block; per-thread event logs {ts, alloc/free, id, ptr, usable} replayed
// in timestamp order against an interval map (two simultaneously live blocks may never intersect); heap walks / conservation at quiescence;
// the OS ledger; crash handler.  One process = one case.
#include <mimalloc.h>
#include <mimalloc-stats.h>
#include <vector>
#include <map>
#include <set>
#include <string>
#include <atomic>
#include <algorithm>
#include <cstring>
#include <cstdio>
#include <cctype>
#include <cstdlib>
#include <sys/mman.h>
#include <pthread.h>
#include "vf_common.h"
#include "vf_sched.h"
#include "vf_os.h"

static const size_t KiB = 1024, MiB = 1024 * 1024;

// after every allocator call a store that is still in the thread's simulated store buffer (vf_sched, --tso) becomes visible: the harness' own
// signalling (std::atomic, not hooked) must not overtake the allocator's stores -- real hardware keeps the stores of one thread in order
#define VF_RET(call)            __extension__({ auto _vf_r = (call); vf_flush(); _vf_r; })
#define VF_VOID(call)           do { call; vf_flush(); } while (0)
#define mi_malloc(n)            VF_RET((mi_malloc)(n))
#define mi_zalloc(n)            VF_RET((mi_zalloc)(n))
#define mi_heap_malloc(h, n)    VF_RET((mi_heap_malloc)((h), (n)))
#define mi_heap_new()           VF_RET((mi_heap_new)())
#define mi_heap_new_in_arena(a) VF_RET((mi_heap_new_in_arena)(a))
#define mi_heap_visit_blocks(h, a, v, c) VF_RET((mi_heap_visit_blocks)((h), (a), (v), (c)))
#define mi_free(p)              VF_VOID((mi_free)(p))
#define mi_collect(f)           VF_VOID((mi_collect)(f))
#define mi_heap_collect(h, f)   VF_VOID((mi_heap_collect)((h), (f)))
#define mi_heap_delete(h)       VF_VOID((mi_heap_delete)(h))
#define mi_thread_done()        VF_VOID((mi_thread_done)())

// ------------------------------------------------------------------------------------------------
// configuration / globals
// ------------------------------------------------------------------------------------------------
struct Cfg {
  std::string scenario = "xfree", prop = "C02", variant = "rel-h";
  uint64_t seed = 1; int threads = 3; uint64_t ops = 200; int rounds = 50; int live = 64;
  vf_sched_cfg_t sched;
  bool debug = false; int exit_mode = 0; int subprocs = 0; int arena_blocks = 0;
} C;

static const char* REF = "C02";   // what the generic oracles refute (the property of the scenario)

struct MBlk { void* p; size_t n; size_t u; uint64_t id; };
struct Event { uint64_t ts; uint64_t id; uintptr_t p; size_t u; int kind; int tid; int sp; };   // kind 1 alloc, 0 free; sp = sub-process of the thread

static std::atomic<uint64_t> g_ts(1), g_ids(1);
static std::atomic<uint64_t> g_allocs(0), g_frees_local(0), g_frees_remote(0), g_sends(0), g_recvs(0), g_verified(0), g_collects(0), g_alloc_null(0), g_thread_exits(0), g_thread_starts(0), g_heap_deletes(0), g_claims(0), g_claim_fail(0);
static std::atomic<int> g_running(0);

struct ThreadCtx {
  int tid = 0;
  int sp = 0;                      // sub-process index of this thread (C09)
  vf_rng_t rng;
  std::vector<Event> log;
  std::vector<MBlk> mine;          // blocks this thread currently holds
  uintptr_t creator_of_held = 0;
};
#define MAXT 64
static ThreadCtx* g_ctx[MAXT * 8];
static std::atomic<int> g_nctx(0);

// ------------------------------------------------------------------------------------------------
// patterns
// ------------------------------------------------------------------------------------------------
static const size_t BIG = 64 * KiB;
template <class F> static void cover(uint64_t id, size_t L, F f) {
  if (L <= BIG) { if (L) f((size_t)0, L); return; }
  f((size_t)0, (size_t)4096); f(L - 4096, L);
  for (size_t pg = 1; (pg + 1) * 4096 <= L - 4096; pg++) { size_t o = pg * 4096 + (size_t)(vf_mix64(id ^ (pg * 0x9E3779B97F4A7C15ull)) % 4088); f(o, o + 8); }
}
static inline uint8_t pbyte(uint64_t id, size_t i) { return (uint8_t)(vf_pat_word(id, i >> 3) >> (8 * (i & 7))); }
static void fill(const MBlk& b) {
  uint8_t* p = (uint8_t*)b.p;
  vf_touch_lo = (uintptr_t)p; vf_touch_hi = (uintptr_t)p + b.u; vf_in_harness = 1;
  cover(b.id, b.u, [&](size_t a, size_t e) { for (size_t i = a; i < e; i++) p[i] = pbyte(b.id, i); });
  vf_in_harness = 0;
}
static void verify(const MBlk& b, const char* when) {
  const uint8_t* p = (const uint8_t*)b.p;
  size_t bad = SIZE_MAX;
  vf_touch_lo = (uintptr_t)p; vf_touch_hi = (uintptr_t)p + b.u; vf_in_harness = 1;
  cover(b.id, b.u, [&](size_t a, size_t e) { if (bad != SIZE_MAX) return; for (size_t i = a; i < e; i++) if (p[i] != pbyte(b.id, i)) { bad = i; return; } });
  vf_in_harness = 0;
  g_verified.fetch_add(1, std::memory_order_relaxed);
  if (bad != SIZE_MAX) {
    // whose pattern is it?
    vf_trip("contents", REF, "%s: live block id=%llu %p (n=%zu u=%zu) held by thread %d: byte %zu is 0x%02x, expected 0x%02x (another owner wrote there, or the allocator did)",
            when, (unsigned long long)b.id, b.p, b.n, b.u, vf_self_index(), bad, p[bad], pbyte(b.id, bad));
  }
}

// ------------------------------------------------------------------------------------------------
// mailboxes: lock-free multi-producer stacks; nodes come from libc
// ------------------------------------------------------------------------------------------------
struct Node { MBlk b; Node* next; };
struct Mailbox { std::atomic<Node*> head{nullptr}; };
static Mailbox g_mail[MAXT * 8];

static void send_to(int to, const MBlk& b) {
  Node* n = (Node*)malloc(sizeof(Node)); n->b = b;
  Node* h = g_mail[to].head.load(std::memory_order_relaxed);
  do { n->next = h; } while (!g_mail[to].head.compare_exchange_weak(h, n, std::memory_order_release, std::memory_order_relaxed));
  g_sends.fetch_add(1, std::memory_order_relaxed);
  vf_user_point("send");
}
static size_t recv_all(int me, std::vector<MBlk>& out) {
  vf_user_point("recv");
  Node* n = g_mail[me].head.exchange(nullptr, std::memory_order_acquire);
  size_t k = 0;
  while (n) { out.push_back(n->b); Node* nx = n->next; free(n); n = nx; k++; }
  g_recvs.fetch_add(k, std::memory_order_relaxed);
  return k;
}

// ------------------------------------------------------------------------------------------------
// alloc / free with logging
// ------------------------------------------------------------------------------------------------
static size_t pick_size(ThreadCtx& t) {
  static const size_t classes[] = { 16, 32, 48, 1024, 8 * KiB, 100 * KiB };
  unsigned r = (unsigned)vf_rng_below(&t.rng, 100);
  if (r < 80) { size_t c = classes[vf_rng_below(&t.rng, 6)]; return c - (size_t)vf_rng_below(&t.rng, 8 < c ? 8 : 1); }
  if (r < 97) return 1 + (size_t)vf_rng_below(&t.rng, 4000);
  if (r < 99 || C.scenario != "exit") return 64 * KiB + (size_t)vf_rng_below(&t.rng, 600 * KiB);
  return 1 * MiB + (size_t)vf_rng_below(&t.rng, 8 * MiB);      // exit scenario: now and then a block that has a (multi-MiB) page of its own
}

static bool do_alloc(ThreadCtx& t, MBlk* out, mi_heap_t* heap = nullptr, size_t force_n = 0) {
  size_t n = (force_n ? force_n : pick_size(t));
  vf_cur_what = "mt malloc";
  void* p = (heap ? mi_heap_malloc(heap, n) : (vf_rng_chance(&t.rng, 1, 6) ? mi_zalloc(n) : mi_malloc(n)));
  if (p == nullptr) { g_alloc_null.fetch_add(1, std::memory_order_relaxed); return false; }
  MBlk b; b.p = p; b.n = n; b.u = mi_usable_size(p); b.id = g_ids.fetch_add(1, std::memory_order_relaxed);
  if (b.u < n) vf_trip("usable-size", "C03", "mt: usable %zu < requested %zu", b.u, n);
  // the timestamp is taken AFTER the allocation returned
  Event e; e.ts = g_ts.fetch_add(1, std::memory_order_relaxed); e.id = b.id; e.p = (uintptr_t)p; e.u = (b.u ? b.u : 1); e.kind = 1; e.tid = t.tid; e.sp = t.sp;
  t.log.push_back(e);
  fill(b);
  g_allocs.fetch_add(1, std::memory_order_relaxed);
  *out = b;
  return true;
}

static void do_free(ThreadCtx& t, const MBlk& b, bool remote) {
  verify(b, "before free");
  // the timestamp is taken BEFORE the free is called
  Event e; e.ts = g_ts.fetch_add(1, std::memory_order_relaxed); e.id = b.id; e.p = (uintptr_t)b.p; e.u = (b.u ? b.u : 1); e.kind = 0; e.tid = t.tid; e.sp = t.sp;
  t.log.push_back(e);
  vf_cur_what = "mt free";
  mi_free(b.p);
  (remote ? g_frees_remote : g_frees_local).fetch_add(1, std::memory_order_relaxed);
}

static ThreadCtx* new_ctx(uint64_t salt) {
  int idx = g_nctx.fetch_add(1);
  if (idx >= MAXT * 8) vf_trip("harness", "", "too many thread contexts");
  ThreadCtx* t = new ThreadCtx();
  t->tid = idx; vf_rng_seed(&t->rng, C.seed * 1000003ull + salt * 7919 + (uint64_t)idx);
  t->log.reserve(1024);
  g_ctx[idx] = t;
  return t;
}

// ------------------------------------------------------------------------------------------------
// offline checker: replay all events in timestamp order against an interval map
// ------------------------------------------------------------------------------------------------
static uint64_t g_events = 0, g_max_live_replay = 0, g_subproc_checked = 0;
static void replay_lifetimes() {
  std::vector<Event> all;
  int n = g_nctx.load();
  for (int i = 0; i < n; i++) if (g_ctx[i]) all.insert(all.end(), g_ctx[i]->log.begin(), g_ctx[i]->log.end());
  std::sort(all.begin(), all.end(), [](const Event& a, const Event& b) { return a.ts < b.ts; });
  g_events = all.size();
  std::map<uintptr_t, Event> live;   // by start address
  std::map<uint64_t, uintptr_t> by_id;
  std::map<uintptr_t, std::pair<int, long>> seg;   // 32 MiB segment base -> (sub-process of its live blocks, live count)   (C09)
  for (const Event& e : all) {
    if (e.kind == 1) {
      auto it = live.lower_bound(e.p);
      const Event* hit = nullptr;
      if (it != live.end() && it->first < e.p + e.u) hit = &it->second;
      else if (it != live.begin()) { --it; if (it->first + it->second.u > e.p) hit = &it->second; }
      if (hit != nullptr)
        vf_trip("lifetime-overlap", REF, "block id=%llu [%p,+%zu) returned to thread %d at ts %llu while block id=%llu [%p,+%zu) (thread %d, ts %llu) was still live: two owners of the same memory",
                (unsigned long long)e.id, (void*)e.p, e.u, e.tid, (unsigned long long)e.ts, (unsigned long long)hit->id, (void*)hit->p, hit->u, hit->tid, (unsigned long long)hit->ts);
      if (C.subprocs > 1 && e.sp != 0) {
        auto& sg = seg[e.p & ~(uintptr_t)(32 * MiB - 1)];
        if (sg.second > 0 && sg.first != e.sp)
          vf_trip("cross-subprocess-adoption", "C09", "thread %d of sub-process %d received block id=%llu at %p inside a segment that still holds %ld live blocks of sub-process %d (abandoned memory adopted across sub-processes)",
                  e.tid, e.sp, (unsigned long long)e.id, (void*)e.p, sg.second, sg.first);
        sg.first = e.sp; sg.second++;
        g_subproc_checked++;
      }
      live[e.p] = e; by_id[e.id] = e.p;
      if (live.size() > g_max_live_replay) g_max_live_replay = live.size();
    }
    else {
      auto it = by_id.find(e.id);
      if (it == by_id.end()) vf_trip("harness", "", "free of unknown id %llu in the event log", (unsigned long long)e.id);
      if (C.subprocs > 1) { auto lf = live.find(it->second); if (lf != live.end() && lf->second.sp != 0) { auto sgi = seg.find(lf->second.p & ~(uintptr_t)(32 * MiB - 1)); if (sgi != seg.end() && sgi->second.second > 0) sgi->second.second--; } }
      live.erase(it->second); by_id.erase(it);
    }
  }
}

// ------------------------------------------------------------------------------------------------
// helpers for quiescent checks
// ------------------------------------------------------------------------------------------------
struct CountCtx { size_t used = 0, areas = 0; };
static bool count_visitor(const mi_heap_t*, const mi_heap_area_t* area, void* block, size_t, void* arg) {
  CountCtx* c = (CountCtx*)arg; if (block == nullptr) { c->used += area->used; c->areas++; } return true;
}
static bool count_blocks_visitor(const mi_heap_t*, const mi_heap_area_t*, void* block, size_t, void* arg) {
  CountCtx* c = (CountCtx*)arg; if (block != nullptr) c->used++; else c->areas++; return true;
}
static void wait_until(std::atomic<int>& v, int target, const char* what) {
  uint64_t spins = 0;
  while (v.load(std::memory_order_acquire) < target) { vf_user_yield(what); if (++spins > 2000000000ull) vf_trip("harness", "", "wait_until %s stuck", what); }
}

// ------------------------------------------------------------------------------------------------
// scenario xfree (C02): alloc / free own / hand over / receive-verify-free / collect
// ------------------------------------------------------------------------------------------------
static std::atomic<int> g_done(0);
static void xfree_body(void* arg) {
  ThreadCtx& t = *(ThreadCtx*)arg;
  int T = C.threads;
  for (uint64_t op = 0; op < C.ops; op++) {
    vf_cur_op = op;
    unsigned r = (unsigned)vf_rng_below(&t.rng, 100);
    if (r < 38 || t.mine.empty()) { MBlk b; if (t.mine.size() < 400 && do_alloc(t, &b)) t.mine.push_back(b); }
    else if (r < 58) { size_t i = (size_t)vf_rng_below(&t.rng, t.mine.size()); do_free(t, t.mine[i], false); t.mine[i] = t.mine.back(); t.mine.pop_back(); }
    else if (r < 82) { size_t i = (size_t)vf_rng_below(&t.rng, t.mine.size()); int to = (int)vf_rng_below(&t.rng, (uint64_t)T); if (to == t.tid) to = (to + 1) % T;
                       verify(t.mine[i], "before hand-over"); send_to(to, t.mine[i]); t.mine[i] = t.mine.back(); t.mine.pop_back(); }
    else if (r < 96) { std::vector<MBlk> in; recv_all(t.tid, in);
                       for (auto& b : in) { verify(b, "after hand-over"); if (vf_rng_chance(&t.rng, 3, 4)) do_free(t, b, true); else t.mine.push_back(b); } }
    else { vf_cur_what = "mt collect"; if (vf_rng_chance(&t.rng, 1, 2)) mi_collect(vf_rng_chance(&t.rng, 1, 3)); else mi_heap_collect(mi_heap_get_default(), false); g_collects.fetch_add(1, std::memory_order_relaxed); }
  }
  g_done.fetch_add(1, std::memory_order_release);
  // drain: everybody frees what it holds and what still arrives
  for (;;) {
    std::vector<MBlk> in; recv_all(t.tid, in);
    for (auto& b : in) { verify(b, "drain"); do_free(t, b, true); }
    for (auto& b : t.mine) do_free(t, b, false);
    t.mine.clear();
    if (g_done.load(std::memory_order_acquire) >= C.threads && g_mail[t.tid].head.load(std::memory_order_acquire) == nullptr) break;
    vf_user_yield("drain");
  }
  if (C.exit_mode == 1) { vf_cur_what = "mi_thread_done"; mi_thread_done(); }
}


// ------------------------------------------------------------------------------------------------
// scenario tiny (C02, C08): a tiny program -- one owner, 2..3 threads that free the owner's blocks -- whose schedules are
// enumerated from outside through the script policy (preemption-bounded, victim-focused: see props.py)
// ------------------------------------------------------------------------------------------------
static std::atomic<int> g_tiny_go(0), g_tiny_done(0);
struct TinyT { ThreadCtx* ctx; std::vector<MBlk> blocks; };
static TinyT g_tiny_t[8];
static int g_tiny_nT = 2; static long g_tiny_o_phase1 = 0, g_tiny_o_phase2 = 0; static uint64_t g_tiny_prog = 0; static std::string g_tiny_desc;
static void tiny_t_body(void* arg) {
  TinyT& tt = *(TinyT*)arg;
  wait_until(g_tiny_go, 1, "tiny gate");
  for (auto& b : tt.blocks) do_free(*tt.ctx, b, true);
  g_tiny_done.fetch_add(1, std::memory_order_release);
}
static void tiny_o_body(void* arg) {
  ThreadCtx& t = *(ThreadCtx*)arg;
  vf_rng_t pr; vf_rng_seed(&pr, 0x7171 + g_tiny_prog);        // the program only depends on --prog
  static const size_t sizes[] = { 16000, 8000, 2000, 64, 16000, 8000 };
  const size_t bsz = sizes[vf_rng_below(&pr, 6)];
  static const int counts[] = { 2, 3, 4, 5, 7, 8, 9 };
  int nalloc = counts[vf_rng_below(&pr, 7)];
  const int nT = g_tiny_nT;
  char d[256]; snprintf(d, sizeof(d), "bsz=%zu nalloc=%d nT=%d ops=", bsz, nalloc, nT); g_tiny_desc = d;
  std::vector<MBlk> bs;
  for (int i = 0; i < nalloc; i++) { MBlk b; if (do_alloc(t, &b, nullptr, bsz)) bs.push_back(b); }
  // give 1..2 blocks to every freeing thread (random picks), keep the rest
  for (int k = 0; k < nT; k++) {
    int give = 1 + (int)vf_rng_below(&pr, 2);
    for (int g = 0; g < give && bs.size() > 0; g++) { size_t i = (size_t)vf_rng_below(&pr, bs.size()); g_tiny_t[k].blocks.push_back(bs[i]); bs[i] = bs.back(); bs.pop_back(); }
  }
  t.mine = bs;
  g_tiny_o_phase1 = vf_thread_points(0);
  g_tiny_go.store(1, std::memory_order_release);
  vf_user_yield("tiny gate open");
  // phase 2: the owner's own activity, racing with the frees
  int nops = 1 + (int)vf_rng_below(&pr, 4);
  for (int o = 0; o < nops; o++) {
    unsigned r = (unsigned)vf_rng_below(&pr, 10);
    if (r < 4) { MBlk b; if (do_alloc(t, &b, nullptr, bsz)) t.mine.push_back(b); g_tiny_desc += "M"; }
    else if (r < 6) { MBlk b; if (do_alloc(t, &b, nullptr, bsz)) do_free(t, b, false); g_tiny_desc += "m"; }
    else if (r < 7) { if (!t.mine.empty()) { size_t i = (size_t)vf_rng_below(&pr, t.mine.size()); do_free(t, t.mine[i], false); t.mine[i] = t.mine.back(); t.mine.pop_back(); } g_tiny_desc += "F"; }
    else if (r < 8) { vf_cur_what = "mt collect"; mi_collect(false); g_collects.fetch_add(1); g_tiny_desc += "C"; }
    else if (r < 9) { vf_cur_what = "mt collect"; mi_heap_collect(mi_heap_get_default(), false); g_collects.fetch_add(1); g_tiny_desc += "H"; }
    else { vf_cur_what = "mt collect"; mi_collect(true); g_collects.fetch_add(1); g_tiny_desc += "X"; }
  }
  g_tiny_o_phase2 = vf_thread_points(0);
  wait_until(g_tiny_done, nT, "tiny: all frees done");
  // final phase at quiescence: take everything the page(s) can give, nothing may be handed out twice and every live block keeps its contents
  for (auto& b : t.mine) verify(b, "tiny final (before)");
  if (vf_rng_chance(&pr, 1, 2)) { mi_collect(false); g_collects.fetch_add(1); }
  const int more = (bsz >= 8000 ? 14 : bsz >= 2000 ? 40 : 80);
  for (int i = 0; i < more; i++) { MBlk b; if (do_alloc(t, &b, nullptr, bsz)) t.mine.push_back(b); }
  for (auto& b : t.mine) verify(b, "tiny final");
  for (auto& b : t.mine) do_free(t, b, false);
  t.mine.clear();
  vf_cur_what = "tiny final collect";
  mi_collect(true);
  CountCtx c; mi_heap_visit_blocks(mi_heap_get_default(), false, &count_visitor, &c);
  if (c.used != 0)
    vf_trip("remote-free-lost", "C08", "tiny program (%s): every block was freed (%llu by other threads) and the owner force-collected, but its heap still counts %zu used blocks in %zu areas",
            g_tiny_desc.c_str(), (unsigned long long)g_frees_remote.load(), c.used, c.areas);
}

// ------------------------------------------------------------------------------------------------
// scenario tinyx (C09, C02): a thread allocates a few blocks, hands them to 2..3 other threads and terminates (mi_thread_done as a scheduled
// step); the others free what they got (with reclaim-on-free: each tries to adopt the abandoned segment), allocate again, verify.  Schedules are
// enumerated from outside (script policy) like for `tiny`.
// ------------------------------------------------------------------------------------------------
static void tinyx_t_body(void* arg) {
  TinyT& tt = *(TinyT*)arg; ThreadCtx& t = *tt.ctx;
  wait_until(g_tiny_go, 1, "tinyx gate");
  vf_rng_t pr; vf_rng_seed(&pr, 0x9191 + g_tiny_prog * 31 + (uint64_t)t.tid);
  size_t n = (tt.blocks.empty() ? 64 : tt.blocks[0].n);
  for (auto& b : tt.blocks) do_free(t, b, true);
  int more = 1 + (int)vf_rng_below(&pr, 4);
  for (int i = 0; i < more; i++) { MBlk b; if (do_alloc(t, &b, nullptr, n)) t.mine.push_back(b); }
  if (vf_rng_chance(&pr, 1, 3)) { vf_cur_what = "mt collect"; mi_collect(false); g_collects.fetch_add(1); }
  for (auto& b : t.mine) verify(b, "tinyx");
  for (auto& b : t.mine) do_free(t, b, false);
  t.mine.clear();
  g_tiny_done.fetch_add(1, std::memory_order_release);
}
static void tinyx_a_body(void* arg) {
  ThreadCtx& t = *(ThreadCtx*)arg;
  vf_rng_t pr; vf_rng_seed(&pr, 0x7272 + g_tiny_prog);
  static const size_t sizes[] = { 16000, 8000, 2000, 64, 100000, 600000 };
  const size_t bsz = sizes[vf_rng_below(&pr, 6)];
  const int nT = g_tiny_nT;
  int nalloc = nT + (int)vf_rng_below(&pr, 6);
  char d[256]; snprintf(d, sizeof(d), "exit bsz=%zu nalloc=%d nT=%d", bsz, nalloc, nT); g_tiny_desc = d;
  std::vector<MBlk> bs;
  for (int i = 0; i < nalloc; i++) { MBlk b; if (do_alloc(t, &b, nullptr, bsz)) bs.push_back(b); }
  for (int k = 0; k < nT; k++) {
    int give = 1 + (int)vf_rng_below(&pr, 2);
    for (int g = 0; g < give && bs.size() > 0; g++) { size_t i = (size_t)vf_rng_below(&pr, bs.size()); g_tiny_t[k].blocks.push_back(bs[i]); bs[i] = bs.back(); bs.pop_back(); }
  }
  // what this thread keeps is freed by the last freeing thread at the very end (still live when this thread terminates)
  for (auto& b : bs) g_tiny_t[nT - 1].blocks.push_back(b);
  g_tiny_o_phase1 = vf_thread_points(0);
  const bool gate_first = vf_rng_chance(&pr, 1, 2);
  if (gate_first) g_tiny_go.store(1, std::memory_order_release);     // the others may already free while this thread is terminating (only if a script preempts it)
  vf_cur_what = "mi_thread_done"; mi_thread_done(); g_thread_exits.fetch_add(1);
  g_tiny_o_phase2 = vf_thread_points(0);
  g_tiny_go.store(1, std::memory_order_release);
}

// ------------------------------------------------------------------------------------------------
// scenario prodcons (C08): one owner heap, remote frees by consumers, heap must end empty and stay bounded
// ------------------------------------------------------------------------------------------------
static std::atomic<int> g_pc_freed(0), g_pc_stop(0);
static std::vector<size_t> g_pc_areas, g_pc_used; static uint64_t g_pc_reuse_checked = 0;
static void consumer_body(void* arg) {
  ThreadCtx& t = *(ThreadCtx*)arg;
  while (!g_pc_stop.load(std::memory_order_acquire) || g_mail[t.tid].head.load(std::memory_order_acquire) != nullptr) {
    std::vector<MBlk> in; recv_all(t.tid, in);
    if (in.empty()) { vf_user_yield("consumer idle"); continue; }
    for (auto& b : in) { do_free(t, b, true); g_pc_freed.fetch_add(1, std::memory_order_release); }
  }
  if (C.exit_mode == 1) mi_thread_done();
}
static void producer_body(void* arg) {
  ThreadCtx& t = *(ThreadCtx*)arg;
  mi_heap_t* H = mi_heap_new();
  if (H == nullptr) vf_trip("harness", "", "mi_heap_new failed");
  int K = C.threads - 1;
  static const size_t classes[] = { 32, 400, 3000 };
  int sent = 0;
  for (int round = 0; round < C.rounds; round++) {
    vf_cur_op = (uint64_t)round;
    // keep at most `live` blocks outstanding
    int batch = 1 + (int)vf_rng_below(&t.rng, (uint64_t)C.live);
    for (int i = 0; i < batch; i++) {
      MBlk b; size_t n = classes[vf_rng_below(&t.rng, 3)] - (size_t)vf_rng_below(&t.rng, 8);
      if (!do_alloc(t, &b, H, n)) continue;
      if (vf_rng_chance(&t.rng, 1, 8)) { do_free(t, b, false); continue; }         // some are freed by the owner itself
      send_to(1 + (int)vf_rng_below(&t.rng, (uint64_t)K), b); sent++;
      if (vf_rng_chance(&t.rng, 1, 16)) { vf_cur_what = "owner collect"; mi_heap_collect(H, vf_rng_chance(&t.rng, 1, 4)); g_collects.fetch_add(1, std::memory_order_relaxed); }
    }
    // wait until the outstanding set is small again (bounded live blocks)
    while (sent - g_pc_freed.load(std::memory_order_acquire) > C.live) vf_user_yield("producer waits for consumers");
    CountCtx c; mi_heap_visit_blocks(H, false, &count_visitor, &c);
    g_pc_areas.push_back(c.areas); g_pc_used.push_back(c.used);
  }
  wait_until(g_pc_freed, sent, "all remote frees done");
  // reuse phase: pages are filled completely, the consumers free all but one block of every page, the owner collects (not forced) and allocates the same number of
  // blocks again: they must fit into the remotely freed slots -- the heap may not need more areas than before
  {
    static const size_t rclasses[] = { 3000, 400, 8000, 1000 };
    const size_t n = rclasses[vf_rng_below(&t.rng, 4)];
    const size_t count = (n >= 3000 ? 160 : 900) + (size_t)vf_rng_below(&t.rng, 200);
    std::vector<MBlk> bs; std::set<uintptr_t> seen; std::vector<MBlk> keepers; int resent = 0;
    for (size_t i = 0; i < count; i++) { MBlk b; if (do_alloc(t, &b, H, n)) bs.push_back(b); }
    CountCtx c0; mi_heap_visit_blocks(H, false, &count_visitor, &c0);
    for (auto& b : bs) {
      if (seen.insert((uintptr_t)b.p >> 16).second) { keepers.push_back(b); continue; }     // the first block seen in every 64 KiB stays live: no page becomes empty
      send_to(1 + (int)vf_rng_below(&t.rng, (uint64_t)K), b); sent++; resent++;
    }
    wait_until(g_pc_freed, sent, "reuse phase: remote frees done");
    vf_cur_what = "owner collect (reuse phase)";
    mi_heap_collect(H, false);
    std::vector<MBlk> again;
    for (int i = 0; i < resent; i++) { MBlk b; if (do_alloc(t, &b, H, n)) again.push_back(b); }
    CountCtx c1; mi_heap_visit_blocks(H, false, &count_visitor, &c1);
    g_pc_reuse_checked++;
    if (c1.areas > c0.areas + 1)
      vf_trip("remote-free-not-reused", "C08", "%zu blocks of %zu bytes filled %zu areas; other threads freed %d of them (one block per page stayed live), the owner collected and allocated %d blocks again: "
              "the heap now has %zu areas instead of re-using the freed slots", bs.size(), n, c0.areas, resent, resent, c1.areas);
    for (auto& b : again) do_free(t, b, false);
    for (auto& b : keepers) do_free(t, b, false);
  }
  g_pc_stop.store(1, std::memory_order_release);
  // all blocks of H have been freed (by whichever threads); one forced collect must leave no page behind
  vf_cur_what = "final owner collect";
  mi_heap_collect(H, true);
  CountCtx c; mi_heap_visit_blocks(H, false, &count_visitor, &c);
  if (c.areas != 0 || c.used != 0)
    vf_trip("remote-free-lost", "C08", "all %d blocks of the heap were freed (%llu by other threads) and the owner collected, but the heap still holds %zu areas with %zu used blocks",
            sent, (unsigned long long)g_frees_remote.load(), c.areas, c.used);
  mi_heap_delete(H);
}
static void prodcons_check_bounded() {
  // bounded memory: the number of areas held by the owner must not keep growing with the round number
  size_t R = g_pc_areas.size(); if (R < 16) return;
  size_t q1 = 0, h2 = 0;
  for (size_t i = 0; i < R / 4; i++) q1 = std::max(q1, g_pc_areas[i]);
  for (size_t i = R / 2; i < R; i++) h2 = std::max(h2, g_pc_areas[i]);
  // least squares slope over the second half
  double n = 0, sx = 0, sy = 0, sxx = 0, sxy = 0;
  for (size_t i = R / 2; i < R; i++) { double x = (double)i, y = (double)g_pc_areas[i]; n++; sx += x; sy += y; sxx += x * x; sxy += x * y; }
  double slope = (n * sxy - sx * sy) / (n * sxx - sx * sx + 1e-9);
  // what at most `live` outstanding blocks of the three size classes can occupy (each class in pages of its own), twice over plus slack: growth below that is the
  // working set filling up (the number of outstanding blocks is random per round and approaches the limit only later in long runs), not a blow-up
  const size_t L = (size_t)C.live;
  const size_t room = 2 * ((L * 3072 + 65535) / 65536 + (L * 512 + 65535) / 65536 + (L * 64 + 65535) / 65536 + 3) + 32;
  if (h2 > 2 * q1 + 16 && slope > 0.05 && h2 > room)
    vf_trip("blow-up", "C08", "producer/consumer with <= %d live blocks: areas held by the owner grew from <= %zu (first quarter) to %zu (second half), slope %.3f areas/round over %zu rounds", C.live, q1, h2, slope, R);
}

// ------------------------------------------------------------------------------------------------
// scenario heapdel (C10): remote frees into a heap that its owner deletes / collects meanwhile
// ------------------------------------------------------------------------------------------------
static std::atomic<int> g_hd_freed(0), g_hd_round(0), g_hd_stop(0), g_hd_tagged_rounds(0);
static void hd_freer_body(void* arg) {
  ThreadCtx& t = *(ThreadCtx*)arg;
  while (!g_hd_stop.load(std::memory_order_acquire) || g_mail[t.tid].head.load(std::memory_order_acquire) != nullptr) {
    std::vector<MBlk> in; recv_all(t.tid, in);
    if (in.empty()) { vf_user_yield("freer idle"); continue; }
    for (auto& b : in) { do_free(t, b, true); g_hd_freed.fetch_add(1, std::memory_order_release); }
  }
}
static void hd_owner_body(void* arg) {
  ThreadCtx& t = *(ThreadCtx*)arg;
  int K = C.threads - 1;
  int sent = 0;
  mi_heap_t* backing = mi_heap_get_backing();
  for (int round = 0; round < C.rounds; round++) {
    vf_cur_op = (uint64_t)round;
    // one round in four uses a heap with a heap tag: such a heap cannot be merged into the backing heap when it is deleted, its pages are abandoned instead
    // (every one of its blocks is then freed by the other threads: the owner's own free of such a block is known finding K2)
    const bool tagged = vf_rng_chance(&t.rng, 1, 4);
    if (tagged) g_hd_tagged_rounds.fetch_add(1);
    mi_heap_t* H = (tagged ? mi_heap_new_ex(1 + (int)vf_rng_below(&t.rng, 5), false, (mi_arena_id_t)0) : mi_heap_new());
    if (H == nullptr) continue;
    int nb = (C.live > 64 ? C.live / 2 + (int)vf_rng_below(&t.rng, (uint64_t)C.live) : 4 + (int)vf_rng_below(&t.rng, 28));   // --live: many blocks per heap => many full pages (parallel runs)
    size_t n = (vf_rng_chance(&t.rng, 1, 2) ? 16 + (size_t)vf_rng_below(&t.rng, 100) : 900 + (size_t)vf_rng_below(&t.rng, 3000));
    std::vector<MBlk> bs;
    for (int i = 0; i < nb; i++) { MBlk b; if (do_alloc(t, &b, H, n)) bs.push_back(b); }
    // hand them to the other threads, which free them while we delete / collect the heap
    std::vector<MBlk> keep;
    for (auto& b : bs) { if (!tagged && vf_rng_chance(&t.rng, 1, 6)) keep.push_back(b); else { send_to(1 + (int)vf_rng_below(&t.rng, (uint64_t)K), b); sent++; } }
    unsigned k = (unsigned)vf_rng_below(&t.rng, 4);
    vf_cur_what = "heap_delete racing remote frees";
    if (k == 0) { mi_heap_collect(H, false); mi_heap_delete(H); }
    else if (k == 1) { mi_heap_collect(H, true); mi_heap_delete(H); }
    else mi_heap_delete(H);
    g_heap_deletes.fetch_add(1, std::memory_order_relaxed);
    // blocks of the deleted heap stay valid and freeable
    for (auto& b : keep) { verify(b, "after mi_heap_delete"); do_free(t, b, false); }
    if ((round % 8) == 7 || round == C.rounds - 1) {
      // quiescence: all blocks freed, freeing threads idle -> the backing heap must be empty after a forced collect
      wait_until(g_hd_freed, sent, "remote frees of deleted heaps");
      vf_cur_what = "collect at quiescence";
      mi_heap_collect(backing, true);
      CountCtx c; mi_heap_visit_blocks(backing, false, &count_visitor, &c);
      if (c.used != 0)
        vf_trip("block-lost-after-heap-delete", "C10,C08", "round %d: every block was freed and the owner collected, but its backing heap still counts %zu used blocks in %zu areas (a remote free into a heap being deleted was lost)", round, c.used, c.areas);
    }
  }
  g_hd_stop.store(1, std::memory_order_release);
}

// ------------------------------------------------------------------------------------------------
// scenario exit (C09): threads terminate with live blocks; survivors read / free them; new threads adopt
// ------------------------------------------------------------------------------------------------
static std::atomic<int> g_ex_generation(0), g_ex_live_threads(0), g_ex_finished(0);
static mi_subproc_id_t g_subproc[2];
static void exit_body(void* arg);
struct ExitArg { ThreadCtx* t; int gen; int slot; };
static void spawn_exit_thread(int gen, int slot) {
  ExitArg* a = new ExitArg(); a->t = new_ctx(77 + (uint64_t)gen); a->gen = gen; a->slot = slot;
  g_ex_live_threads.fetch_add(1);
  g_thread_starts.fetch_add(1, std::memory_order_relaxed);
  vf_thread_create(&exit_body, a);
}
// "please free this block for me": a block that its owner wants freed by ANOTHER thread while the owner is still alive (the free is parked on the owner's delayed list)
static std::atomic<MBlk*> g_bigfree[MAXT];
static std::atomic<int> g_bigfree_done[MAXT];
static void service_bigfree(ThreadCtx& t, int self_slot) {
  for (int s = 0; s < C.threads && s < MAXT; s++) {
    if (s == self_slot || g_bigfree[s].load(std::memory_order_acquire) == nullptr) continue;
    if (C.subprocs > 1 && (s % 2) != (self_slot % 2) && self_slot >= 0) continue;
    MBlk* b = g_bigfree[s].exchange(nullptr, std::memory_order_acq_rel);
    if (b != nullptr) { verify(*b, "block handed over to be freed"); do_free(t, *b, true); delete b; g_bigfree_done[s].fetch_add(1, std::memory_order_release); }
  }
}
// with a per-thread segment target: six blocks with multi-MiB pages of their own fill two segments, one of the second segment is freed by another thread while this
// thread lives, then a seventh is allocated: the thread is at its target, force-abandons a segment, processes the parked free on the way (which makes room in the other
// segment) and allocates a fresh segment that it may not need after all.  Everything is handed on as usual; at the end nothing may stay claimed (finding F24).
static void exit_big_pattern(ThreadCtx& t, int slot) {
  std::vector<MBlk> a;
  for (int i = 0; i < 6; i++) { MBlk b; if (do_alloc(t, &b, nullptr, 8 * MiB)) a.push_back(b); }
  if (a.size() == 6) {
    int before = g_bigfree_done[slot].load();
    g_bigfree[slot].store(new MBlk(a[3]), std::memory_order_release);
    a.erase(a.begin() + 3);
    wait_until(g_bigfree_done[slot], before + 1, "a block is freed by another thread");
    MBlk b; if (do_alloc(t, &b, nullptr, 8 * MiB)) a.push_back(b);
  }
  for (auto& b : a) t.mine.push_back(b);
}
// an adopting allocation by a heap that can be destroyed: a successor thread (abandoned segments of its predecessors are waiting) creates a heap with mi_heap_new, allocates
// three 12 MiB blocks from it -- at most two fit a segment, so fresh segments are needed, which is when abandoned ones are considered for adoption -- and destroys the heap.
// The destroy must release the heap's own blocks only; blocks that terminated threads left behind are still held (and verified) by the other threads.
// (Not with a per-thread segment target: forced abandonment takes pages away from first-class heaps, known finding K3.)  Added for seeded change C09-r7-3.
static std::atomic<uint64_t> g_destroyable_patterns(0);
static void exit_destroyable_heap_pattern(ThreadCtx& t) {
  (void)t;
  vf_cur_what = "destroyable heap needs fresh segments";
  mi_heap_t* D = mi_heap_new();
  if (D == nullptr) return;
  for (int i = 0; i < 3; i++) { void* q = mi_heap_malloc(D, 12 * MiB); if (q != nullptr) memset(q, 0x3c, 64); }
  for (int i = 0; i < 40; i++) { void* q = mi_heap_malloc(D, 48 + (size_t)i * 24); if (q != nullptr) memset(q, 0x3d, 48); }
  vf_cur_what = "mi_heap_destroy of a heap that needed fresh segments";
  mi_heap_destroy(D);
  g_destroyable_patterns.fetch_add(1, std::memory_order_relaxed);
}
static void exit_body(void* arg) {
  ExitArg* a = (ExitArg*)arg; ThreadCtx& t = *a->t;
  int slot = a->slot;
  if (C.subprocs > 1) { mi_subproc_add_current_thread(g_subproc[slot % 2]); t.sp = 1 + (slot % 2); }
  int T = C.threads;
  if (a->gen >= 1 && mi_option_get(mi_option_target_segments_per_thread) <= 0 && vf_rng_chance(&t.rng, 1, 4)) exit_destroyable_heap_pattern(t);
  if (mi_option_get(mi_option_target_segments_per_thread) > 0 && C.threads >= 2 && C.subprocs <= 1 && vf_rng_chance(&t.rng, 1, 3)) exit_big_pattern(t, slot);
  for (uint64_t op = 0; op < C.ops; op++) {
    vf_cur_op = op;
    service_bigfree(t, slot);
    unsigned r = (unsigned)vf_rng_below(&t.rng, 100);
    if (r < 45 || t.mine.empty()) { MBlk b; if (t.mine.size() < 300 && do_alloc(t, &b)) t.mine.push_back(b); }
    else if (r < 60) { size_t i = (size_t)vf_rng_below(&t.rng, t.mine.size()); do_free(t, t.mine[i], false); t.mine[i] = t.mine.back(); t.mine.pop_back(); }
    else if (r < 80) { size_t i = (size_t)vf_rng_below(&t.rng, t.mine.size()); int to = (int)vf_rng_below(&t.rng, (uint64_t)T); if (to == slot) to = (to + 1) % T;
                       if (C.subprocs > 1 && (to % 2) != (slot % 2)) to = (to + 2 < T ? to + 2 : slot);   // hand over inside the sub-process only
                       if (to != slot) { send_to(to, t.mine[i]); t.mine[i] = t.mine.back(); t.mine.pop_back(); } }
    else if (r < 95) { std::vector<MBlk> in; recv_all(slot, in); for (auto& b : in) { verify(b, "block of a (possibly terminated) thread"); if (vf_rng_chance(&t.rng, 1, 2)) do_free(t, b, true); else t.mine.push_back(b); } }
    else { vf_cur_what = "mt collect"; mi_collect(vf_rng_chance(&t.rng, 1, 2)); g_collects.fetch_add(1, std::memory_order_relaxed); }
  }
  // terminate with live blocks: everything we still hold is handed to the other slots (they will read and free it after we are gone)
  for (auto& b : t.mine) { int to = (slot + 1 + (int)vf_rng_below(&t.rng, (uint64_t)(T - 1))) % T; if (C.subprocs > 1 && (to % 2) != (slot % 2)) to = (slot + 2) % T; if (to == slot) { do_free(t, b, false); } else send_to(to, b); }
  t.mine.clear();
  g_thread_exits.fetch_add(1, std::memory_order_relaxed);
  if (C.exit_mode == 1 || (C.exit_mode == 2 && vf_rng_chance(&t.rng, 1, 2))) { vf_cur_what = "mi_thread_done"; mi_thread_done(); }
  // respawn: a successor takes over the slot (its allocations may adopt what we abandon)
  if (a->gen + 1 < C.rounds) spawn_exit_thread(a->gen + 1, slot);
  else g_ex_finished.fetch_add(1, std::memory_order_release);
  g_ex_live_threads.fetch_sub(1);
}
static void exit_final_body(void* arg) {
  // the last survivor: waits until every slot finished its generations, then frees everything that is still in the mailboxes
  ThreadCtx& t = *(ThreadCtx*)arg;
  { uint64_t spins = 0; while (g_ex_finished.load(std::memory_order_acquire) < C.threads) { service_bigfree(t, -1); vf_user_yield("all generations finished"); if (++spins > 2000000000ull) vf_trip("harness", "", "exit_final_body stuck"); } }
  for (int s = 0; s < C.threads; s++) { std::vector<MBlk> in; recv_all(s, in); for (auto& b : in) { verify(b, "block left behind by a terminated thread"); do_free(t, b, true); } }
  vf_cur_what = "survivor collect";
  mi_collect(true);
}

// ------------------------------------------------------------------------------------------------
// scenario arena (C14): concurrent multi-block claims in one exclusive arena
// ------------------------------------------------------------------------------------------------
static mi_arena_id_t g_arena_id; static uint8_t* g_arena_base; static size_t g_arena_size;
static std::atomic<int> g_ar_done(0);
static std::atomic<uint64_t> g_ar_by_len[9];
// 10 stamps of 16 bytes: the first and the last 16 bytes of the block and one at a pseudo-random 16-byte aligned offset in each of 8 disjoint slices
static inline size_t stamp_off(uint64_t id, int k, size_t L) {
  if (k == 0) return 0;
  if (k == 1) return L - 16;
  size_t slice = (L - 64) / 8, lo = 32 + (size_t)(k - 2) * slice;
  return (lo + (size_t)(vf_mix64(id * 31 + (uint64_t)k) % (slice - 16))) & ~(size_t)15;
}
static void stamp(const MBlk& b) {
  uint8_t* p = (uint8_t*)b.p; size_t L = b.u;
  vf_touch_lo = (uintptr_t)p; vf_touch_hi = (uintptr_t)p + L; vf_in_harness = 1;
  for (int k = 0; k < 10; k++) { size_t o = stamp_off(b.id, k, L); memcpy(p + o, &b.id, 8); uint64_t inv = ~b.id; memcpy(p + o + 8, &inv, 8); }
  vf_in_harness = 0;
}
static void check_stamp(const MBlk& b, const char* when) {
  uint8_t* p = (uint8_t*)b.p; size_t L = b.u;
  vf_touch_lo = (uintptr_t)p; vf_touch_hi = (uintptr_t)p + L; vf_in_harness = 1;
  for (int k = 0; k < 10; k++) { size_t o = stamp_off(b.id, k, L); uint64_t a, c; memcpy(&a, p + o, 8); memcpy(&c, p + o + 8, 8);
    if (a != b.id || c != ~b.id) { vf_in_harness = 0; vf_trip("contents", "C14", "%s: arena block id=%llu %p (+%zu): stamp %d at offset %zu reads %llx/%llx (another claim covers the same memory?)", when, (unsigned long long)b.id, b.p, L, k, o, (unsigned long long)a, (unsigned long long)c); } }
  vf_in_harness = 0;
  g_verified.fetch_add(1, std::memory_order_relaxed);
}
static void arena_body(void* arg) {
  ThreadCtx& t = *(ThreadCtx*)arg;
  mi_heap_t* h = mi_heap_new_in_arena(g_arena_id);
  if (h == nullptr) vf_trip("harness", "", "mi_heap_new_in_arena failed");
  for (uint64_t op = 0; op < C.ops; op++) {
    vf_cur_op = op;
    unsigned r = (unsigned)vf_rng_below(&t.rng, 100);
    if (r < 55 && t.mine.size() < 6) {
      size_t blocks = 1 + (size_t)vf_rng_below(&t.rng, 7);
      if (vf_rng_chance(&t.rng, 1, 4)) blocks = 1;
      size_t n = blocks * 32 * MiB - 2 * MiB - (size_t)vf_rng_below(&t.rng, 8 * MiB);
      if (blocks == 1) n = 17 * MiB + (size_t)vf_rng_below(&t.rng, 12 * MiB);
      vf_cur_what = "arena claim";
      void* p = mi_heap_malloc(h, n);
      g_claims.fetch_add(1, std::memory_order_relaxed);
      if (p == nullptr) { g_claim_fail.fetch_add(1, std::memory_order_relaxed); continue; }
      if ((uint8_t*)p < g_arena_base || (uint8_t*)p + n > g_arena_base + g_arena_size)
        vf_trip("outside-arena", "C14,C15", "heap bound to the arena returned %p (+%zu) outside the arena [%p,+%zu)", p, n, (void*)g_arena_base, g_arena_size);
      MBlk b; b.p = p; b.n = n; b.u = mi_usable_size(p); b.id = g_ids.fetch_add(1, std::memory_order_relaxed);
      Event e; e.ts = g_ts.fetch_add(1, std::memory_order_relaxed); e.id = b.id; e.p = (uintptr_t)p; e.u = b.u; e.kind = 1; e.tid = t.tid; e.sp = t.sp; t.log.push_back(e);
      stamp(b);
      g_ar_by_len[blocks].fetch_add(1, std::memory_order_relaxed);
      g_allocs.fetch_add(1, std::memory_order_relaxed);
      t.mine.push_back(b);
    }
    else if (!t.mine.empty()) {
      size_t i = (size_t)vf_rng_below(&t.rng, t.mine.size());
      MBlk b = t.mine[i]; t.mine[i] = t.mine.back(); t.mine.pop_back();
      check_stamp(b, "before free");
      Event e; e.ts = g_ts.fetch_add(1, std::memory_order_relaxed); e.id = b.id; e.p = (uintptr_t)b.p; e.u = b.u; e.kind = 0; e.tid = t.tid; e.sp = t.sp; t.log.push_back(e);
      vf_cur_what = "arena free";
      mi_free(b.p);
      g_frees_local.fetch_add(1, std::memory_order_relaxed);
    }
    else if (r >= 90) { vf_cur_what = "arena collect"; if (vf_rng_chance(&t.rng, 1, 2)) vf_clock_advance_ms(200); mi_collect(vf_rng_chance(&t.rng, 1, 2)); g_collects.fetch_add(1, std::memory_order_relaxed); }
  }
  for (auto& b : t.mine) { check_stamp(b, "final"); Event e; e.ts = g_ts.fetch_add(1, std::memory_order_relaxed); e.id = b.id; e.p = (uintptr_t)b.p; e.u = b.u; e.kind = 0; e.tid = t.tid; e.sp = t.sp; t.log.push_back(e); mi_free(b.p); }
  t.mine.clear();
  vf_cur_what = "arena heap delete";
  mi_collect(true);
  mi_heap_delete(h);
  g_ar_done.fetch_add(1, std::memory_order_release);
}
static size_t g_probe_single = 0, g_probe_multi = 0; static int g_probe_whole = -1;
static void arena_probe(void) {
  // after everything has been freed and every worker thread has terminated (true quiescence: a purge that runs in an exiting
  // thread temporarily claims the blocks it purges): the arena can be allocated completely again
  vf_cur_what = "capacity probe";
  mi_collect(true);
  mi_heap_t* h = mi_heap_new_in_arena(g_arena_id);
  size_t blocks = g_arena_size / (32 * MiB);
  // (a) one request spanning (almost) the whole arena: needs every block
  size_t whole = g_arena_size - 8 * MiB;   // still needs every block (the segment header, padding and guard pages of hardened builds need some room)
  void* w = mi_heap_malloc(h, whole);
  g_probe_whole = (w != nullptr);
  if (w == nullptr) { mi_register_output(nullptr, nullptr); mi_debug_show_arenas(); }
  if (w == nullptr) vf_trip("arena-not-empty", "C14", "after all blocks were freed a request for the whole arena (%zu of %zu bytes, %zu blocks) failed: some claim was left behind", whole, g_arena_size, blocks);
  mi_free(w);
  mi_collect(true);
  // (b) single-block segments until NULL: must be exactly the number of blocks
  std::vector<void*> ps;
  for (;;) { void* p = mi_heap_malloc(h, 20 * MiB); if (p == nullptr) break; ps.push_back(p); if (ps.size() > blocks + 8) break; }
  g_probe_single = ps.size();
  for (void* p : ps) mi_free(p);
  if (ps.size() != blocks)
    vf_trip("arena-capacity", "C14", "after all blocks were freed %zu single-block segments could be allocated from an arena of %zu blocks", ps.size(), blocks);
  mi_collect(true);
  // (c) k-block segments until NULL (k >= 3: the search that may cross bitmap words).  First-fit inside each 64-block word gives at least
  // floor(bits of the word / k) per word (a claim that crosses into a word takes fewer than k of its bits, i.e. costs it at most the one segment it provides);
  // an empty arena that yields fewer has blocks that cannot be allocated
  for (size_t k : { (size_t)3, (size_t)(5 + (g_arena_size / (32 * MiB)) % 4) }) {
    std::vector<void*> qs;
    for (;;) { void* p = mi_heap_malloc(h, k * 32 * MiB - 8 * MiB); if (p == nullptr) break; qs.push_back(p); if (qs.size() > blocks) break; }
    size_t least = 0; for (size_t b = 0; b < blocks; b += 64) least += ((blocks - b < 64 ? blocks - b : 64) / k);
    g_probe_multi += qs.size();
    for (void* p : qs) mi_free(p);
    mi_collect(true);
    if (qs.size() < least || qs.size() > blocks / k)
      vf_trip("arena-capacity", "C14", "after all blocks were freed %zu segments of %zu blocks each could be allocated from an empty arena of %zu blocks (at least %zu and at most %zu fit)", qs.size(), k, blocks, least, blocks / k);
  }
  mi_heap_delete(h);
}

// ------------------------------------------------------------------------------------------------
// result
// ------------------------------------------------------------------------------------------------
static size_t g_abandoned_left = 0, g_big_nonarena = 0; static int g_final_checked = 0; static long g_arena_inuse_end = -1;
// arena blocks in use, as reported by the allocator's own diagnostic output ("total inuse blocks : N")
static std::string g_capture;
static void capture_out(const char* msg, void*) { if (g_capture.size() < (1u << 22)) g_capture += msg; }
static long arena_inuse_blocks() {
  g_capture.clear();
  mi_register_output(&capture_out, nullptr);
  mi_debug_show_arenas();
  mi_register_output(&vf_output_cb, nullptr);
  // the last line that speaks of blocks "inuse" / "in use" and the last number on it (robust against rewording of the diagnostic, see DESIGN.md 7.4)
  long n = -1;
  {
    std::string low = g_capture; for (auto& ch : low) ch = (char)tolower((unsigned char)ch);
    size_t pos = std::string::npos, p1 = low.rfind("inuse"), p2 = low.rfind("in use");
    if (p1 != std::string::npos) pos = p1;
    if (p2 != std::string::npos && (pos == std::string::npos || p2 > pos)) pos = p2;
    if (pos != std::string::npos) {
      size_t eol = low.find('\n', pos); if (eol == std::string::npos) eol = low.size();
      size_t e = eol; while (e > pos && !isdigit((unsigned char)low[e - 1])) e--;
      size_t b = e; while (b > pos && isdigit((unsigned char)low[b - 1])) b--;
      if (e > b) n = strtol(low.c_str() + b, nullptr, 10);
    }
  }
  g_capture.clear();
  return n;
}
static void result_body(FILE* f) {
  vf_sched_stats_t st; vf_sched_get_stats(&st);
  fprintf(f, "\"scenario\":\"%s\",\"variant\":\"%s\",\"seed\":%llu,\"threads\":%d,\"hash\":\"%016llx\",", C.scenario.c_str(), C.variant.c_str(), (unsigned long long)C.seed, C.threads,
          (unsigned long long)(st.sched_hash ^ (g_allocs.load() * 1000003ull) ^ (g_frees_remote.load() << 20)));
  fprintf(f, "\"mt\":{\"allocs\":%llu,\"alloc_null\":%llu,\"local_frees\":%llu,\"remote_frees\":%llu,\"sends\":%llu,\"recvs\":%llu,\"verified\":%llu,\"collects\":%llu,\"thread_starts\":%llu,\"thread_exits\":%llu,"
             "\"heap_deletes\":%llu,\"claims\":%llu,\"claims_failed\":%llu,\"events\":%llu,\"max_live_in_replay\":%llu,\"abandoned_blocks_left\":%zu,\"final_checked\":%d,\"probe_single\":%zu,\"probe_multi\":%zu,\"probe_whole\":%d,\"subproc_allocs_checked\":%llu,\"destroyable_heap_adoption_patterns\":%llu,\"arena_inuse_end\":%ld},",
          (unsigned long long)g_allocs.load(), (unsigned long long)g_alloc_null.load(), (unsigned long long)g_frees_local.load(), (unsigned long long)g_frees_remote.load(), (unsigned long long)g_sends.load(),
          (unsigned long long)g_recvs.load(), (unsigned long long)g_verified.load(), (unsigned long long)g_collects.load(), (unsigned long long)g_thread_starts.load(), (unsigned long long)g_thread_exits.load(),
          (unsigned long long)g_heap_deletes.load(), (unsigned long long)g_claims.load(), (unsigned long long)g_claim_fail.load(), (unsigned long long)g_events, (unsigned long long)g_max_live_replay,
          g_abandoned_left, g_final_checked, g_probe_single, g_probe_multi, g_probe_whole, (unsigned long long)g_subproc_checked, (unsigned long long)g_destroyable_patterns.load(), g_arena_inuse_end);
  fprintf(f, "\"sched\":{\"mode\":%d,\"policy\":%d,\"points\":%llu,\"switches\":%llu,\"forced\":%llu,\"spurious_cas\":%llu,\"delays\":%llu,\"hash\":\"%016llx\",\"budget_exceeded\":%d,\"threads_created\":%d,\"delayed_stores\":%llu,\"loads_overtaking\":%llu},",
          C.sched.mode, C.sched.policy, (unsigned long long)st.points, (unsigned long long)st.switches, (unsigned long long)st.forced_switches, (unsigned long long)st.spurious, (unsigned long long)st.delays,
          (unsigned long long)st.sched_hash, st.budget_exceeded, st.threads_created, (unsigned long long)st.delayed_stores, (unsigned long long)st.loads_overtaking);
  fputs("\"funcs\":{", f); vf_sched_dump_funcs(f, 14); fputs("},", f);
  if (C.scenario == "tiny" || C.scenario == "tinyx") {
    fprintf(f, "\"tiny\":{\"prog\":%llu,\"desc\":\"%s\",\"o_phase1\":%ld,\"o_phase2\":%ld,\"script_fired\":%d,\"points\":[", (unsigned long long)g_tiny_prog, g_tiny_desc.c_str(), g_tiny_o_phase1, g_tiny_o_phase2, st.script_fired);
    for (int i = 0; i <= g_tiny_nT; i++) fprintf(f, "%s%ld", i ? "," : "", vf_thread_points(i));
    fputs("],\"cas\":[", f);
    for (int i = 0; i <= g_tiny_nT; i++) fprintf(f, "%s%ld", i ? "," : "", vf_thread_cas_count(i));
    fputs("]},", f);
  }
  if (C.scenario == "prodcons") fprintf(f, "\"reuse_phases\":%llu,", (unsigned long long)g_pc_reuse_checked);
  if (C.scenario == "prodcons") { fputs("\"areas_series\":[", f); for (size_t i = 0; i < g_pc_areas.size(); i += (g_pc_areas.size() > 40 ? g_pc_areas.size() / 40 : 1)) fprintf(f, "%s%zu", i ? "," : "", g_pc_areas[i]); fputs("],", f); }
  if (C.scenario == "arena") { fputs("\"claims_by_blocks\":[", f); for (int i = 1; i <= 7; i++) fprintf(f, "%s%llu", i > 1 ? "," : "", (unsigned long long)g_ar_by_len[i].load()); fputs("],", f); }
  mi_stats_t ms; memset(&ms, 0, sizeof(ms)); mi_stats_merge(); mi_stats_get(sizeof(ms), &ms);
  fprintf(f, "\"mi\":{\"segments_abandoned_total\":%lld,\"pages_abandoned_total\":%lld,\"arena_rollbacks\":%lld,\"arena_purges\":%lld,\"segments_total\":%lld,\"threads_total\":%lld},",
          (long long)ms.segments_abandoned.total, (long long)ms.pages_abandoned.total, (long long)ms.arena_rollback_count.total, (long long)ms.arena_purges.total, (long long)ms.segments.total, (long long)ms.threads.total);
  vf_os_counts_t c; vf_os_get_counts(&c);
  fprintf(f, "\"os\":{\"mmap\":%llu,\"munmap\":%llu,\"mprotect\":%llu,\"madvise\":%llu}", (unsigned long long)c.calls[0], (unsigned long long)c.calls[1], (unsigned long long)c.calls[2], (unsigned long long)c.calls[3]);
}

static void final_exit_checks() {
  // C09: once the last block was freed and the survivors collected, nothing abandoned may be left
  g_final_checked = 1;
  vf_cur_what = "final checks at quiescence";
  mi_collect(true); mi_collect(true);
  if (C.subprocs > 1) {
    // abandoned memory is only adopted inside its own sub-process: one more thread per sub-process force-collects (which releases every abandoned segment that holds no block any more)
    for (int i = 0; i < 2; i++) {
      pthread_t th;
      pthread_create(&th, nullptr, [](void* a) -> void* { mi_subproc_add_current_thread(*(mi_subproc_id_t*)a); void* p = mi_malloc(64); mi_free(p); mi_collect(true); mi_collect(true); return nullptr; }, &g_subproc[i]);
      pthread_join(th, nullptr);
    }
    mi_collect(true);
  }
  if (mi_option_is_enabled(mi_option_visit_abandoned)) {
    CountCtx c;
    mi_abandoned_visit_blocks(mi_subproc_main(), -1, true, &count_blocks_visitor, &c);
    for (int i = 0; i < 2 && C.subprocs > 1; i++) mi_abandoned_visit_blocks(g_subproc[i], -1, true, &count_blocks_visitor, &c);
    g_abandoned_left = c.used;
    if (c.used != 0)
      vf_trip("abandoned-leak", "C09", "every block was freed and the survivors force-collected, but mi_abandoned_visit_blocks still reports %zu blocks in %zu areas", c.used, c.areas);
  }
  g_arena_inuse_end = arena_inuse_blocks();
  // every thread but this one has terminated, every block was freed and this (main) thread force-collected twice, which adopts whatever was abandoned in its sub-process:
  // no arena block may still be claimed by a segment (a segment that can neither be found for adoption nor freed is leaked)
  if (g_arena_inuse_end > 0)
    vf_trip("arena-segment-leaked", "C09,C11", "every block was freed, all other threads have terminated and the main thread (and one fresh thread per sub-process) force-collected, but %ld arena blocks are still in use "
            "(mi_abandoned_visit_blocks reports %zu blocks): a segment was neither released nor left adoptable", g_arena_inuse_end, g_abandoned_left);
  // OS-allocated segments (arena allocation disabled): all of them must be unmapped by now
  if (mi_option_is_enabled(mi_option_disallow_arena_alloc) && C.subprocs <= 1) {
    std::vector<vf_os_region_t> rs(2048); size_t n = vf_os_regions(rs.data(), rs.size());
    size_t big = 0; for (size_t i = 0; i < n && i < rs.size(); i++) if (rs[i].len >= 1 * MiB) big++;
    g_big_nonarena = big;
    if (big != 0) vf_trip("os-region-not-unmapped", "C09,C11", "every block was freed and the survivors force-collected, but %zu OS segments are still mapped (abandoned memory leaked)", big);
  }
  // the sub-processes are empty now (no thread, no abandoned segment): deleting them must be accepted, and the default sub-process must go on working
  if (C.subprocs > 1) {
    vf_cur_what = "mi_subproc_delete";
    mi_subproc_delete(g_subproc[0]); mi_subproc_delete(g_subproc[1]); mi_subproc_delete(mi_subproc_main() /* NULL: ignored */);
    void* p = mi_malloc(4000); if (p == nullptr) vf_trip("wellformed-refused", "C06", "mi_malloc failed after the sub-processes were deleted"); memset(p, 0x5d, 4000); mi_free(p);
    mi_collect(true);
  }
}

int main(int argc, char** argv) {
  C.scenario = vf_getarg(argc, argv, "--scenario", "xfree");
  C.prop = vf_getarg(argc, argv, "--prop", "C02");
  C.variant = vf_getarg(argc, argv, "--variant", "rel-h");
  C.seed = (uint64_t)vf_getarg_ll(argc, argv, "--seed", 1);
  C.threads = (int)vf_getarg_ll(argc, argv, "--threads", 3);
  C.ops = (uint64_t)vf_getarg_ll(argc, argv, "--ops", 200);
  C.rounds = (int)vf_getarg_ll(argc, argv, "--rounds", 50);
  C.live = (int)vf_getarg_ll(argc, argv, "--live", 64);
  C.exit_mode = (int)vf_getarg_ll(argc, argv, "--exit-mode", 0);
  C.subprocs = (int)vf_getarg_ll(argc, argv, "--subprocs", 0);
  C.arena_blocks = (int)vf_getarg_ll(argc, argv, "--arena-blocks", 100);
  C.debug = vf_getarg_ll(argc, argv, "--debug", 0) != 0;
  memset(&C.sched, 0, sizeof(C.sched));
  std::string mode = vf_getarg(argc, argv, "--mode", "baton"), pol = vf_getarg(argc, argv, "--policy", "targeted");
  C.sched.mode = (mode == "off" ? VF_MODE_OFF : mode == "delay" ? VF_MODE_DELAY : VF_MODE_BATON);
  C.sched.policy = (pol == "uniform" ? VF_POL_UNIFORM : pol == "pct" ? VF_POL_PCT : pol == "script" ? VF_POL_SCRIPT : VF_POL_TARGETED);
  static std::string script = vf_getarg(argc, argv, "--script", "");
  C.sched.script = script.c_str();
  g_tiny_prog = (uint64_t)vf_getarg_ll(argc, argv, "--prog", 1);
  C.sched.seed = C.seed;
  C.sched.p_other_den = (unsigned)vf_getarg_ll(argc, argv, "--p-other", 16);
  C.sched.p_hot_den = (unsigned)vf_getarg_ll(argc, argv, "--p-hot", 2);
  C.sched.p_spurious_den = (unsigned)vf_getarg_ll(argc, argv, "--spurious", 8);
  C.sched.delay_den = (unsigned)vf_getarg_ll(argc, argv, "--delay-den", 64);
  C.sched.tso_den = (unsigned)vf_getarg_ll(argc, argv, "--tso", 0);
  C.sched.pct_depth = (int)vf_getarg_ll(argc, argv, "--pct-depth", 2);
  C.sched.pct_steps = (uint64_t)vf_getarg_ll(argc, argv, "--pct-steps", 200000);
  C.sched.step_budget = (uint64_t)vf_getarg_ll(argc, argv, "--step-budget", 400000000ll);
  static std::string hot = vf_getarg(argc, argv, "--hot",
    "mi_free_block_delayed_mt,mi_free_block_mt,_mi_page_thread_free_collect,_mi_page_try_use_delayed_free,_mi_page_use_delayed_free,_mi_heap_delayed_free,_mi_free_delayed_block,"
    "_mi_page_queue_append,mi_heap_absorb,_mi_arena_segment,mi_segment_abandon,mi_segment_reclaim,mi_segment_try_reclaim,_mi_segment_attempt_reclaim,mi_bitmap_try_find_claim_field_across,_mi_bitmap_try_claim,"
    "_mi_bitmap_claim_across,_mi_bitmap_unclaim_across,mi_arena_try_purge,mi_arena_purge,_mi_arena_free,mi_arena_try_claim");
  C.sched.hot = hot.c_str();
  if (C.threads > MAXT) C.threads = MAXT;

  if (C.scenario == "xfree" || C.scenario == "tiny") REF = "C02"; else if (C.scenario == "tinyx") REF = "C09,C02"; else if (C.scenario == "prodcons") REF = "C08"; else if (C.scenario == "exit") REF = "C09,C02";   /* a double hand-out or changed contents after adoption refutes both */ else if (C.scenario == "heapdel") REF = "C10"; else REF = "C14";
  static std::string refs = REF; REF = refs.c_str();
  vf_result_body = &result_body;
  vf_crash_refutes = REF;
  vf_install_crash_handler();
  mi_register_error(&vf_error_cb, nullptr);
  mi_register_output(&vf_output_cb, nullptr);
  // initialise the main thread's heap before anything is scheduled
  { void* p = mi_malloc(16); mi_free(p); }

  if (C.scenario == "arena") {
    g_arena_size = (size_t)C.arena_blocks * 32 * MiB;
    size_t reserve = g_arena_size + 64 * MiB;
    uint8_t* raw = (uint8_t*)vf_real_mmap(nullptr, reserve, PROT_NONE, MAP_PRIVATE | MAP_ANONYMOUS | MAP_NORESERVE, -1, 0);
    if (raw == (uint8_t*)MAP_FAILED) vf_trip("harness", "", "cannot reserve %zu bytes of address space", reserve);
    g_arena_base = (uint8_t*)(((uintptr_t)raw + 32 * MiB - 1) & ~(uintptr_t)(32 * MiB - 1));
    const bool is_zero = ((vf_mix64(C.seed ^ 0x5a17) & 1) != 0);   // fresh PROT_NONE memory is zero, but the caller may not promise it: then the arena keeps no dirty bitmap
    if (!mi_manage_os_memory_ex(g_arena_base, g_arena_size, false /* committed */, false /* large */, is_zero, -1, true /* exclusive */, &g_arena_id))
      vf_trip("harness", "", "mi_manage_os_memory_ex failed");
    size_t asz = 0; uint8_t* ab = (uint8_t*)mi_arena_area(g_arena_id, &asz);
    if (ab < g_arena_base || ab + asz > g_arena_base + g_arena_size) vf_trip("arena-area", "C15", "mi_arena_area [%p,+%zu) is not inside the region given to mi_manage_os_memory_ex [%p,+%zu)", (void*)ab, asz, (void*)g_arena_base, g_arena_size);
    g_arena_base = ab; g_arena_size = asz;
  }
  if (C.subprocs > 1) { g_subproc[0] = mi_subproc_new(); g_subproc[1] = mi_subproc_new(); }

  vf_sched_init(&C.sched);
  if (C.scenario == "xfree") { for (int i = 0; i < C.threads; i++) vf_thread_create(&xfree_body, new_ctx(1)); }
  else if (C.scenario == "prodcons") { vf_thread_create(&producer_body, new_ctx(2)); for (int i = 1; i < C.threads; i++) vf_thread_create(&consumer_body, new_ctx(3)); }
  else if (C.scenario == "heapdel") { vf_thread_create(&hd_owner_body, new_ctx(4)); for (int i = 1; i < C.threads; i++) vf_thread_create(&hd_freer_body, new_ctx(5)); }
  else if (C.scenario == "exit") {
    // contexts 0..T-1 are reserved so that mailbox index == slot
    for (int s = 0; s < C.threads; s++) new_ctx(900);
    for (int s = 0; s < C.threads; s++) spawn_exit_thread(0, s);
    vf_thread_create(&exit_final_body, new_ctx(6));
  }
  else if (C.scenario == "arena") { for (int i = 0; i < C.threads; i++) vf_thread_create(&arena_body, new_ctx(7)); }
  else if (C.scenario == "tinyx") {
    g_tiny_nT = (C.threads >= 4 ? 3 : 2);
    vf_thread_create(&tinyx_a_body, new_ctx(10));
    for (int k = 0; k < g_tiny_nT; k++) { g_tiny_t[k].ctx = new_ctx(11); vf_thread_create(&tinyx_t_body, &g_tiny_t[k]); }
  }
  else if (C.scenario == "tiny") {
    g_tiny_nT = (C.threads >= 4 ? 3 : 2);
    vf_thread_create(&tiny_o_body, new_ctx(8));
    for (int k = 0; k < g_tiny_nT; k++) { g_tiny_t[k].ctx = new_ctx(9); vf_thread_create(&tiny_t_body, &g_tiny_t[k]); }
  }
  else vf_trip("harness", "", "unknown scenario");
  vf_run_all();
  vf_mode = 0;

  // all threads have terminated: offline checks
  vf_cur_what = "offline lifetime replay";
  replay_lifetimes();
  if (C.scenario == "prodcons") prodcons_check_bounded();
  if (C.scenario == "arena") arena_probe();
  if (C.scenario == "exit" || C.scenario == "xfree" || C.scenario == "tiny" || C.scenario == "tinyx" || C.scenario == "heapdel") final_exit_checks();
  if (vf_err_count != 0 && C.scenario == "arena") {
    // a heap bound to a full arena reports "unable to allocate memory" (ENOMEM) for every failed claim: expected
    int n = vf_err_count; if (n > VF_MAX_ERRS) n = VF_MAX_ERRS; bool only = true;
    for (int i = 0; i < n; i++) if (vf_err_codes[i] != ENOMEM) only = false;
    if (only) vf_err_reset();
  }
  if (vf_err_count != 0 && C.scenario == "heapdel") {
    // pages of a deleted tagged heap are adopted at the end by a thread that has no heap with that tag: mimalloc reports that as an error (EFAULT) by design and uses the adopting heap
    int n = vf_err_count; if (n > VF_MAX_ERRS) n = VF_MAX_ERRS; bool only = true;
    for (int i = 0; i < n; i++) if (vf_err_codes[i] != EFAULT) only = false;
    // (release builds deliver the error code without the message text)
    if (only && g_hd_tagged_rounds.load() > 0 && (strstr(vf_last_msgs, "cannot be reclaimed by a heap with the same tag") != nullptr || !C.debug)) vf_err_reset();
  }
  if (vf_err_count != 0) vf_trip("unexpected-error", REF, "mimalloc reported error %d (%s): %s", (int)vf_err_codes[0], strerror(vf_err_codes[0]), vf_last_msgs);
  vf_sched_stats_t st; vf_sched_get_stats(&st);
  if (st.budget_exceeded) { vf_trip("harness", "", "step budget exceeded: inconclusive"); }
  vf_finish_ok();
}
