// ovr_matrix.cpp -- C19: run with the mimalloc override active (LD_PRELOAD of the shared library, or linked with the static override object).
// No mimalloc header is used: the program only sees the platform's allocation entry points. mi_* symbols are looked up weakly.
#define _GNU_SOURCE 1
#include <cstdio>
#include <cstdarg>
#include <cstdlib>
#include <cstring>
#include <cerrno>
#include <cstdint>
#include <malloc.h>
#include <unistd.h>
#include <new>
#include <string>
#include <vector>
#include <map>
#include <sstream>
#include <dirent.h>
// glibc/libstdc++ declare the aligned entry points with alloc_align/assume_aligned attributes: keep the compiler from folding the alignment tests
extern "C" { void* __libc_malloc(size_t); void* __libc_calloc(size_t, size_t); void* __libc_realloc(void*, size_t); void __libc_free(void*); void* __libc_memalign(size_t, size_t);
             void* __libc_valloc(size_t); void* __libc_pvalloc(size_t); int __posix_memalign(void**, size_t, size_t) __attribute__((weak)); }
static inline uintptr_t ADDR(const void* p) { __asm__ volatile("" : "+r"(p)); return (uintptr_t)p; }

extern "C" {
  bool   mi_is_in_heap_region(const void* p) __attribute__((weak));
  size_t mi_usable_size(const void* p) __attribute__((weak));
  int    mi_version(void) __attribute__((weak));
  void   mi_register_error(void (*fun)(int, void*), void* arg) __attribute__((weak));
  void   cfree(void* p) __attribute__((weak));
  void*  pvalloc(size_t) ;
}

static unsigned long long n_pairs = 0, n_allocs = 0, n_internal = 0, n_errors = 0;
static int g_nh_calls = 0;
static void probe_new_handler() { if (++g_nh_calls >= 2) std::set_new_handler(nullptr); }
static void fail(const char* fmt, ...) __attribute__((format(printf, 1, 2)));
static void fail(const char* fmt, ...) {
  va_list ap; va_start(ap, fmt); char b[1024]; vsnprintf(b, sizeof(b), fmt, ap); va_end(ap);
  printf("\nVFRESULT {\"trip\":{\"oracle\":\"override\",\"refutes\":[\"C19\"],\"detail\":\"");
  for (char* c = b; *c; c++) { if (*c == '"' || *c == '\\') putchar('\''); else if ((unsigned char)*c < 0x20) putchar(' '); else putchar(*c); }
  printf("\",\"op\":%llu,\"what\":\"matrix\"},\"pairs\":%llu}\n", n_pairs, n_pairs);
  fflush(stdout); _exit(10);
}
static void err_cb(int e, void*) { if (e == EOVERFLOW || e == ENOMEM) return;   /* the reports for the deliberately overflowing requests below */
  n_errors++; fail("the allocator reported error %d (%s): a pointer that is not its own reached it, or its heap was damaged", e, strerror(e)); }

static void must_be_ours(const char* who, void* p, size_t n) {
  n_allocs++;
  if (p == nullptr) fail("%s(%zu) returned NULL", who, n);
  if (!mi_is_in_heap_region(p)) fail("%s(%zu) returned %p which is not memory of the overriding allocator (mi_is_in_heap_region is false)", who, n, p);
  if (mi_usable_size(p) < n) fail("%s(%zu): mi_usable_size(%p) = %zu", who, n, p, mi_usable_size(p));
  if (malloc_usable_size(p) < n) fail("%s(%zu): malloc_usable_size(%p) = %zu", who, n, p, malloc_usable_size(p));
}
static void fillp(void* p, size_t n, unsigned char seed) { for (size_t i = 0; i < n; i++) ((unsigned char*)p)[i] = (unsigned char)(seed + i * 7); }
static void checkp(const char* who, void* p, size_t n, unsigned char seed) { for (size_t i = 0; i < n; i++) if (((unsigned char*)p)[i] != (unsigned char)(seed + i * 7)) fail("%s: byte %zu of %zu changed", who, i, n); }

enum { A_malloc, A_calloc, A_realloc0, A_posix_memalign, A_aligned_alloc, A_memalign, A_valloc, A_pvalloc, A_reallocarray, A_strdup, A_strndup, A_getline, A_asprintf, A_memstream, A_realpath,
       A_new, A_newarr, A_new_nothrow, A_newarr_nothrow, A_new_aligned, A_newarr_aligned, A_new_aligned_nothrow, A_newarr_aligned_nothrow, A_libc_malloc, A_libc_calloc, A_libc_memalign, A_libc_valloc, A_libc_pvalloc, A_posix_memalign2, A__N };
static const char* A_names[] = { "malloc", "calloc", "realloc(NULL)", "posix_memalign", "aligned_alloc", "memalign", "valloc", "pvalloc", "reallocarray(NULL)", "strdup", "strndup", "getline", "asprintf", "open_memstream", "realpath",
       "operator new", "operator new[]", "operator new(nothrow)", "operator new[](nothrow)", "operator new(align_val_t)", "operator new[](align_val_t)", "operator new(align_val_t,nothrow)", "operator new[](align_val_t,nothrow)", "__libc_malloc", "__libc_calloc", "__libc_memalign", "__libc_valloc", "__libc_pvalloc", "__posix_memalign" };
enum { B_free, B_realloc_grow, B_realloc_shrink, B_usable_free, B_reallocarray, B_cfree, B_delete, B_deletearr, B_delete_sized, B_delete_nothrow, B_delete_aligned, B_deletearr_sized, B_deletearr_nothrow, B_deletearr_aligned, B_delete_sized_aligned, B_deletearr_sized_aligned, B_delete_aligned_nothrow, B_deletearr_aligned_nothrow, B_libc_free, B_libc_realloc, B__N };
static const char* B_names[] = { "free", "realloc(grow)", "realloc(shrink)", "malloc_usable_size+free", "reallocarray", "cfree", "operator delete", "operator delete[]", "operator delete(sized)", "operator delete(nothrow)", "operator delete(align_val_t)", "operator delete[](sized)", "operator delete[](nothrow)", "operator delete[](align_val_t)", "operator delete(sized,align_val_t)", "operator delete[](sized,align_val_t)", "operator delete(align_val_t,nothrow)", "operator delete[](align_val_t,nothrow)", "__libc_free", "__libc_realloc" };

static size_t g_align = 64;
static void* do_alloc(int a, size_t n, size_t* eff) {
  void* p = nullptr; *eff = n;
  switch (a) {
    case A_malloc: p = malloc(n); break;
    case A_calloc: p = calloc(n ? (n + 2) / 3 : 1, 3); *eff = (n ? (n + 2) / 3 : 1) * 3; if (p) for (size_t i = 0; i < *eff; i++) if (((char*)p)[i]) fail("calloc(%zu) not zero at %zu", *eff, i); break;
    case A_realloc0: p = realloc(nullptr, n); break;
    case A_posix_memalign: { int rc = posix_memalign(&p, g_align, n); if (rc != 0) fail("posix_memalign(%zu,%zu) returned %d", g_align, n, rc); if (ADDR(p) % g_align) fail("posix_memalign alignment"); break; }
    case A_aligned_alloc: *eff = (n + g_align - 1) / g_align * g_align; if (*eff == 0) *eff = g_align; p = aligned_alloc(g_align, *eff); if (ADDR(p) % g_align) fail("aligned_alloc alignment"); break;
    case A_memalign: p = memalign(g_align * 2, n); if (ADDR(p) % (g_align * 2)) fail("memalign alignment"); break;
    case A_valloc: p = valloc(n); if (ADDR(p) % 4096) fail("valloc alignment"); break;
    case A_pvalloc: p = pvalloc(n); if (ADDR(p) % 4096) fail("pvalloc alignment"); *eff = (n + 4095) / 4096 * 4096; if (n == 0) *eff = 0; break;
    case A_reallocarray: p = reallocarray(nullptr, (n + 4) / 5, 5); *eff = (n + 4) / 5 * 5; break;
    case A_strdup: case A_strndup: { size_t L = (n > 0 ? n - 1 : 0); char* s = (char*)malloc(L + 1); memset(s, 'x', L); s[L] = 0; p = (a == A_strdup ? strdup(s) : strndup(s, (n % 3 == 0 ? (size_t)-1 : n % 3 == 1 ? L + 10 : L))); if (p && strcmp((char*)p, s) != 0) fail("strdup contents"); free(s); *eff = L + 1; break; }
    case A_getline: { FILE* f = tmpfile(); size_t L = (n > 2 ? n - 2 : 1); for (size_t i = 0; i < L; i++) fputc('y', f); fputc('\n', f); rewind(f); char* line = nullptr; size_t cap = 0; ssize_t got = getline(&line, &cap, f); fclose(f);
                      if (got != (ssize_t)L + 1) fail("getline length"); p = line; *eff = L + 2; n_internal++; break; }
    case A_asprintf: { size_t L = (n > 0 ? n - 1 : 0); char* s = nullptr; if (asprintf(&s, "%*s", (int)L, "") != (int)L) fail("asprintf length"); p = s; *eff = L + 1; n_internal++; break; }
    case A_memstream: { char* b = nullptr; size_t sz = 0; FILE* f = open_memstream(&b, &sz); for (size_t i = 0; i < n; i++) fputc('z', f); fclose(f); p = b; *eff = n + 1; n_internal++; break; }
    case A_realpath: { p = realpath("/usr/../usr/bin/../lib", nullptr); *eff = (p ? strlen((char*)p) + 1 : 0); n_internal++; break; }
    case A_new: p = ::operator new(n); break;
    case A_newarr: p = ::operator new[](n); break;
    case A_new_nothrow: p = ::operator new(n, std::nothrow); break;
    case A_newarr_nothrow: p = ::operator new[](n, std::nothrow); break;
    case A_new_aligned: p = ::operator new(n, std::align_val_t(g_align)); if (ADDR(p) % g_align) fail("aligned new alignment"); break;
    case A_newarr_aligned: p = ::operator new[](n, std::align_val_t(g_align)); if (ADDR(p) % g_align) fail("aligned new[] alignment"); break;
    case A_new_aligned_nothrow: p = ::operator new(n, std::align_val_t(g_align), std::nothrow); break;
    case A_newarr_aligned_nothrow: p = ::operator new[](n, std::align_val_t(g_align), std::nothrow); if (ADDR(p) % g_align) fail("aligned new[](nothrow) alignment"); break;
    // glibc's internal names of the same entry points (exported by glibc and forwarded by the override; found never called by the coverage run of round 7)
    case A_libc_malloc: p = __libc_malloc(n); break;
    case A_libc_calloc: p = __libc_calloc(n ? n : 1, 1); *eff = (n ? n : 1); if (p) for (size_t i = 0; i < *eff; i++) if (((char*)p)[i]) fail("__libc_calloc(%zu) not zero at %zu", *eff, i); break;
    case A_libc_memalign: p = __libc_memalign(g_align, n); if (ADDR(p) % g_align) fail("__libc_memalign alignment"); break;
    case A_libc_valloc: p = __libc_valloc(n); if (ADDR(p) % 4096) fail("__libc_valloc alignment"); break;
    case A_libc_pvalloc: p = __libc_pvalloc(n); if (ADDR(p) % 4096) fail("__libc_pvalloc alignment"); *eff = (n + 4095) / 4096 * 4096; if (n == 0) *eff = 0; break;
    case A_posix_memalign2: { if (!__posix_memalign) { p = malloc(n); break; } int rc = __posix_memalign(&p, g_align, n); if (rc != 0) fail("__posix_memalign(%zu,%zu) returned %d", g_align, n, rc); if (ADDR(p) % g_align) fail("__posix_memalign alignment"); break; }
  }
  return p;
}

static void do_release(int a, int b, void* p, size_t n) {
  unsigned char seed = (unsigned char)(a * 16 + b);
  bool text = (a == A_strdup || a == A_strndup || a == A_getline || a == A_asprintf || a == A_memstream || a == A_realpath);
  if (!text) fillp(p, n, seed);
  std::string keep; if (text) keep.assign((char*)p, n ? n - 1 : 0);
  auto verify = [&](const char* who, void* q, size_t m) { if (text) { if (memcmp(q, keep.data(), m < keep.size() ? m : keep.size()) != 0) fail("%s after %s: text changed", who, A_names[a]); } else checkp(who, q, m, seed); };
  switch (b) {
    case B_free: free(p); break;
    case B_realloc_grow: { void* q = realloc(p, n * 2 + 17); must_be_ours("realloc", q, n * 2 + 17); verify("realloc(grow)", q, n); free(q); break; }
    case B_realloc_shrink: { size_t m = n / 2 + 1; void* q = realloc(p, m); must_be_ours("realloc", q, m); verify("realloc(shrink)", q, m < n ? m : n); free(q); break; }
    case B_usable_free: { size_t u = malloc_usable_size(p); if (u < n) fail("malloc_usable_size after %s(%zu) = %zu", A_names[a], n, u); free(p); break; }
    case B_reallocarray: { void* q = reallocarray(p, 3, n + 1); must_be_ours("reallocarray", q, 3 * (n + 1)); verify("reallocarray", q, n); free(q); break; }
    case B_cfree: if (cfree) cfree(p); else free(p); break;
    case B_delete: ::operator delete(p); break;
    case B_deletearr: ::operator delete[](p); break;
    case B_delete_sized: ::operator delete(p, n); break;
    case B_delete_nothrow: ::operator delete(p, std::nothrow); break;
    case B_delete_aligned: if (ADDR(p) % g_align == 0) ::operator delete(p, std::align_val_t(g_align)); else free(p); break;
    case B_deletearr_sized: ::operator delete[](p, n); break;
    case B_deletearr_nothrow: ::operator delete[](p, std::nothrow); break;
    case B_deletearr_aligned: if (ADDR(p) % g_align == 0) ::operator delete[](p, std::align_val_t(g_align)); else free(p); break;
    case B_delete_sized_aligned: if (ADDR(p) % g_align == 0) ::operator delete(p, n, std::align_val_t(g_align)); else free(p); break;
    case B_deletearr_sized_aligned: if (ADDR(p) % g_align == 0) ::operator delete[](p, n, std::align_val_t(g_align)); else free(p); break;
    case B_delete_aligned_nothrow: if (ADDR(p) % g_align == 0) ::operator delete(p, std::align_val_t(g_align), std::nothrow); else free(p); break;
    case B_deletearr_aligned_nothrow: if (ADDR(p) % g_align == 0) ::operator delete[](p, std::align_val_t(g_align), std::nothrow); else free(p); break;
    case B_libc_free: __libc_free(p); break;
    case B_libc_realloc: { void* q = __libc_realloc(p, n * 2 + 17); must_be_ours("__libc_realloc", q, n * 2 + 17); verify("__libc_realloc", q, n); free(q); break; }
  }
}

int main(int argc, char** argv) {
  (void)argc; (void)argv;
  if (!mi_is_in_heap_region || !mi_usable_size || !mi_version) { printf("\nVFRESULT {\"trip\":{\"oracle\":\"harness\",\"refutes\":[],\"detail\":\"mimalloc is not loaded in this process\",\"op\":0,\"what\":\"start\"}}\n"); return 10; }
  if (mi_register_error) mi_register_error(&err_cb, nullptr);
  static const size_t sizes[] = { 1, 24, 100, 1000, 5000, 70000, 300000, 2 * 1024 * 1024 + 1 };
  static const size_t aligns[] = { 16, 64, 4096 };
  for (size_t ai = 0; ai < 3; ai++) {
    g_align = aligns[ai];
    for (size_t si = 0; si < sizeof(sizes) / sizeof(sizes[0]); si++) for (int a = 0; a < A__N; a++) for (int b = 0; b < B__N; b++) {
      size_t n = sizes[si];
      if ((a == A_getline || a == A_asprintf || a == A_memstream) && n > 300000) continue;
      if (a == A_realpath && si > 0) continue;
      size_t eff = 0;
      void* p = do_alloc(a, n, &eff);
      must_be_ours(A_names[a], p, eff);
      do_release(a, b, p, eff);
      n_pairs++;
    }
  }
  // standard return values
  { void* p = (void*)0x1; int rc = posix_memalign(&p, 3, 100); if (rc != EINVAL) fail("posix_memalign(align 3) returned %d, expected EINVAL", rc); if (p != (void*)0x1) fail("posix_memalign modified *p on error"); }
  { void* p = calloc((size_t)-1 / 2, 4); if (p != nullptr) fail("calloc overflow returned non-NULL"); }
  { errno = 0; void* p = reallocarray(nullptr, (size_t)-1 / 2, 4); if (p != nullptr || errno != ENOMEM) fail("reallocarray overflow: %p errno %d", p, errno); }
  { void* p = malloc(0); if (p == nullptr) fail("malloc(0) returned NULL"); free(p); free(nullptr); ::operator delete(nullptr); }
  // requests that must fail do so with the standard result in every form
  { const size_t huge = (size_t)-1 / 2 + 4096;
    for (size_t k = 0; k < 5000; k += 511) { void* p = pvalloc((size_t)-1 - k); if (p != nullptr) fail("pvalloc(SIZE_MAX-%zu) returned %p", k, p); }
    if (malloc(huge) != nullptr || calloc(1, huge) != nullptr || valloc(huge) != nullptr || memalign(64, huge) != nullptr || aligned_alloc(64, huge) != nullptr) fail("an oversized request did not return NULL");
    for (size_t a = 1; a < sizeof(void*); a *= 2) { void* p = (void*)0x1; int rc = posix_memalign(&p, a, 64); if (rc != EINVAL || p != (void*)0x1) fail("posix_memalign(alignment %zu) returned %d (expected EINVAL, *memptr untouched)", a, rc); }
    { void* p = (void*)0x1; int rc = posix_memalign(&p, 64, huge); if (rc != ENOMEM || p != (void*)0x1) fail("posix_memalign(too large) returned %d", rc); }
    if (::operator new(huge, std::nothrow) != nullptr) fail("operator new(nothrow) of an oversized request did not return nullptr");
    // the C++ new-handler: the overriding operator new must call it on failure, and the override must not change what std::get_new_handler reports
    { g_nh_calls = 0; std::set_new_handler(&probe_new_handler);
      if (std::get_new_handler() != &probe_new_handler) fail("std::get_new_handler() does not return the handler installed with std::set_new_handler (the override object replaces the function)");
      void* q = ::operator new(huge, std::nothrow);       // the handler uninstalls itself on its second call, then the request fails for good
      if (q != nullptr) fail("operator new(nothrow) of an oversized request did not return nullptr");
      if (g_nh_calls != 2) fail("a failing operator new(nothrow) called the installed new-handler %d times (expected 2: once, and once more after which the handler uninstalls itself)", g_nh_calls);
      std::set_new_handler(nullptr); }
    if (::operator new[](huge, std::nothrow) != nullptr) fail("operator new[](nothrow) of an oversized request did not return nullptr");
    if (::operator new(huge, std::align_val_t(64), std::nothrow) != nullptr) fail("operator new(align_val_t,nothrow) of an oversized request did not return nullptr");
    if (::operator new[](huge, std::align_val_t(64), std::nothrow) != nullptr) fail("operator new[](align_val_t,nothrow) of an oversized request did not return nullptr");
    void* keep = malloc(100); memset(keep, 7, 100); void* q = realloc(keep, huge); if (q != nullptr) fail("realloc to an oversized size returned non-NULL"); for (int i = 0; i < 100; i++) if (((char*)keep)[i] != 7) fail("failed realloc changed the block"); free(keep); }
  // C++ library and libc internal allocations end up in the same allocator
  { std::string s; for (int i = 0; i < 2000; i++) s += "abcdefgh"; must_be_ours("std::string", (void*)s.data(), s.size());
    std::vector<double> v(10000, 1.5); must_be_ours("std::vector", v.data(), v.size() * sizeof(double));
    std::map<int, std::string> m; for (int i = 0; i < 500; i++) m[i] = std::string(100, 'q'); must_be_ours("std::map node string", (void*)m[7].data(), 100);
    std::ostringstream os; for (int i = 0; i < 3000; i++) os << i << ' '; std::string t = os.str(); must_be_ours("ostringstream", (void*)t.data(), t.size());
    struct dirent** nl = nullptr; int cnt = scandir("/usr", &nl, nullptr, alphasort); if (cnt > 0) { must_be_ours("scandir", nl, (size_t)cnt * sizeof(void*)); for (int i = 0; i < cnt; i++) { must_be_ours("scandir entry", nl[i], 8); free(nl[i]); } free(nl); }
    FILE* f = fopen("/proc/self/maps", "r"); if (f) { char* line = nullptr; size_t cap = 0; while (getline(&line, &cap, f) > 0) { } must_be_ours("getline buffer", line, 1); free(line); fclose(f); }
    n_internal += 6; }
  printf("\nVFRESULT {\"errs\":%llu,\"ovr\":{\"pairs\":%llu,\"allocations_checked\":%llu,\"libc_internal_allocators\":%llu,\"alloc_entry_points\":%d,\"release_entry_points\":%d,\"mi_version\":%d}}\n",
         n_errors, n_pairs, n_allocs, n_internal, (int)A__N, (int)B__N, mi_version());
  return 0;
}
