/* ovr_c.c -- C19, plain C program (no C++ runtime in the process): the C entry points only */
#define _GNU_SOURCE 1
#include <stdio.h>
#include <stdlib.h>
#include <string.h>
#include <stdint.h>
#include <errno.h>
#include <malloc.h>
#include <stdbool.h>
#include <unistd.h>
#include <sys/mman.h>
bool   mi_is_in_heap_region(const void* p) __attribute__((weak));
size_t mi_usable_size(const void* p) __attribute__((weak));
void*  pvalloc(size_t);
static unsigned long long n = 0;
#define FAIL(msg, ...) do { printf("\nVFRESULT {\"trip\":{\"oracle\":\"override\",\"refutes\":[\"C19\"],\"detail\":\"" msg "\",\"op\":%llu,\"what\":\"c\"}}\n", __VA_ARGS__, n); fflush(stdout); _exit(10); } while (0)
static void ours(const char* who, void* p, size_t sz) { n++; if (!p) FAIL("%s returned NULL", who); if (!mi_is_in_heap_region(p)) FAIL("%s: pointer is not memory of the overriding allocator", who); if (mi_usable_size(p) < sz || malloc_usable_size(p) < sz) FAIL("%s: usable size too small", who); }
int main(void) {
  if (!mi_is_in_heap_region || !mi_usable_size) { printf("\nVFRESULT {\"trip\":{\"oracle\":\"harness\",\"refutes\":[],\"detail\":\"mimalloc is not loaded\",\"op\":0,\"what\":\"start\"}}\n"); return 10; }
  static const size_t sizes[] = { 1, 40, 999, 4097, 100000, 3000000 };
  for (int r = 0; r < 50; r++) for (size_t i = 0; i < 6; i++) {
    size_t s = sizes[i]; void* p; void* q;
    p = malloc(s); ours("malloc", p, s); memset(p, 1, s); q = realloc(p, s * 2); ours("realloc", q, s * 2); free(q);
    p = calloc(s, 2); ours("calloc", p, s * 2); free(p);
    if (posix_memalign(&p, 256, s) != 0) FAIL("%s failed", "posix_memalign"); ours("posix_memalign", p, s); p = realloc(p, s + 1); ours("realloc", p, s + 1); free(p);
    p = aligned_alloc(64, (s + 63) / 64 * 64); ours("aligned_alloc", p, s); free(p);
    p = memalign(32, s); ours("memalign", p, s); q = reallocarray(p, 2, s); ours("reallocarray", q, 2 * s); free(q);
    p = valloc(s); ours("valloc", p, s); free(p);
    p = pvalloc(s); ours("pvalloc", p, s); free(p);
    { char* t = (char*)malloc(s + 1); memset(t, 'k', s); t[s] = 0; char* d = strdup(t); ours("strdup", d, s + 1); char* e = strndup(t, s / 2); ours("strndup", e, s / 2 + 1); free(d); free(e); free(t); }
    { char* rp = realpath("/usr/lib/..", NULL); ours("realpath", rp, 4); free(rp); }
  }
  /* strndup(s, k) may read at most k bytes of s: the source is an array of exactly k bytes without a terminator that ends at an inaccessible page */
  {
    const size_t ps = (size_t)sysconf(_SC_PAGESIZE);
    char* m = (char*)mmap(NULL, 2 * ps, PROT_READ | PROT_WRITE, MAP_PRIVATE | MAP_ANONYMOUS, -1, 0);
    if (m == MAP_FAILED || mprotect(m + ps, ps, PROT_NONE) != 0) FAIL("%s failed", "mmap for the strndup probe");
    static const size_t ks[] = { 1, 7, 16, 100, 4096 };
    for (size_t i = 0; i < 5; i++) {
      const size_t k = ks[i]; char* src = m + ps - k; memset(src, 'q', k);
      char* e = strndup(src, k); ours("strndup of an unterminated array", e, k + 1);
      if (strlen(e) != k || memcmp(e, src, k) != 0) FAIL("%s: wrong copy", "strndup of an unterminated array");
      free(e);
    }
    munmap(m, 2 * ps);
  }
  printf("\nVFRESULT {\"errs\":0,\"ovr\":{\"c_allocations_checked\":%llu}}\n", n);
  return 0;
}
