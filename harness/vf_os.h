/* vf_os.h -- OS shim in front of mmap/munmap/mprotect/madvise/clock_gettime (linked with
   -Wl,--wrap=mmap,--wrap=munmap,--wrap=mprotect,--wrap=madvise,--wrap=clock_gettime).
   Only references from the link inputs (mimalloc object + harness) are wrapped. */
#ifndef VF_OS_H
#define VF_OS_H
#include <stddef.h>
#include <stdint.h>
#include <stdio.h>
#ifdef __cplusplus
extern "C" {
#endif

enum { VF_OS_MMAP = 0, VF_OS_MUNMAP = 1, VF_OS_MPROTECT = 2, VF_OS_MADVISE = 3, VF_OS__NCLASS = 4 };
enum { VF_PG_NONE = 0, VF_PG_RW = 1, VF_PG_PURGED = 2 };

/* raw (unwrapped) calls for the harness itself */
void* vf_real_mmap(void* addr, size_t len, int prot, int flags, int fd, long off);
int   vf_real_munmap(void* addr, size_t len);
int   vf_real_mprotect(void* addr, size_t len, int prot);

/* fault plan: fail the k-th (1-based) call of `cls` with `err`; persistent: also every later call until vf_os_heal() */
void vf_os_plan_fault(int cls, uint64_t k, int persistent, int err);
void vf_os_heal(void);
/* optional filter: only count/fail calls of a sub kind: mprotect: 1 = PROT_NONE, 2 = RW ; madvise: 1 = purge (DONTNEED/FREE), 2 = other ; 0 = all */
void vf_os_plan_filter(int cls, int subkind);

/* virtual clock */
void vf_clock_advance_ms(int64_t ms);
int64_t vf_clock_offset_ms(void);

/* purge range callback: called (outside the shim lock) BEFORE madvise(DONTNEED|FREE) / mprotect(PROT_NONE) is executed */
typedef void (*vf_os_range_cb)(int cls, void* addr, size_t len, int arg);
void vf_os_set_purge_cb(vf_os_range_cb cb);

typedef struct vf_os_counts_s {
  uint64_t calls[VF_OS__NCLASS];       /* calls seen (incl. failed) */
  uint64_t failed_real[VF_OS__NCLASS]; /* refused by the real OS    */
  uint64_t injected[VF_OS__NCLASS];    /* refused by the fault plan */
  uint64_t purge_calls;                /* madvise DONTNEED/FREE + mprotect NONE */
  uint64_t purge_bytes;
  uint64_t commit_calls;               /* mprotect RW */
  uint64_t mmap_bytes, munmap_bytes;
  uint64_t unknown_range_calls;        /* calls on memory the shim did not see being mapped (harness regions) */
  uint64_t clock_calls;
} vf_os_counts_t;
void vf_os_get_counts(vf_os_counts_t* out);

/* ledger queries */
typedef struct vf_os_region_s { uintptr_t base; size_t len; uint64_t ordinal; } vf_os_region_t;
size_t vf_os_regions(vf_os_region_t* out, size_t max);       /* live mappings made through the shim */
size_t vf_os_mapped_bytes(void);
/* pages in ledger state RW that are resident by mincore, in bytes, over [base,base+len) (whole ledger if base==0) */
size_t vf_os_committed_resident(uintptr_t base, size_t len);
size_t vf_os_state_bytes(int state);                          /* bytes in the given ledger page state */
int    vf_os_page_state(const void* p);                       /* -1 if not inside a ledger region */
void   vf_os_dump_regions(FILE* f, size_t max);               /* JSON array of [base,len,ordinal] */

#ifdef __cplusplus
}
#endif
#endif
