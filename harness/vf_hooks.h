/* vf_hooks.h -- included through `#include MI_VERIF_HOOKS` from include/mimalloc/atomic.h
   (twice: MI_VERIF_HOOKS_PART == 1 after the atomics selection, == 2 at the end of the header).
   Turns every mi_atomic(...) operation, mi_atomic_yield and mi_lock_* into a call-out to the
   schedule controller (vf_sched.c).  C only (mimalloc is compiled as C in every variant we build).
   Every wrapper evaluates each argument exactly once (mimalloc passes `field++`). */
#if MI_VERIF_HOOKS_PART == 1
#ifndef VF_HOOKS_PART1_H
#define VF_HOOKS_PART1_H
#ifdef __cplusplus
#error "vf_hooks.h supports C compilation of mimalloc only"
#endif

enum { VF_K_LOAD=0, VF_K_STORE, VF_K_XCHG, VF_K_CASW, VF_K_CASS, VF_K_FADD, VF_K_FSUB, VF_K_FAND, VF_K_FOR,
       VF_K_YIELD, VF_K_LOCK, VF_K_TRYLOCK, VF_K_UNLOCK, VF_K_USER, VF_K__N };

extern volatile int vf_mode;   /* 0 = off: wrappers cost one predictable branch */
void vf_point_slow(int kind, const volatile void* addr, const char* func);
int  vf_spurious_slow(const char* func);   /* 1 = let this weak CAS fail spuriously */
void vf_yield_slow(const char* func);
void vf_lock_contended_slow(const char* func);

#define VF_POINT(k,a)  do { if (__builtin_expect(vf_mode != 0, 0)) vf_point_slow((k),(a),__func__); } while(0)

#undef  mi_atomic
#define mi_atomic(name)  vfa_##name

#define vfa_load_explicit(p,mo) __extension__({ \
  __typeof__(p) _vf_p = (p); VF_POINT(VF_K_LOAD,_vf_p); atomic_load_explicit(_vf_p,(mo)); })
/* a store that is not seq_cst may stay in the (simulated) store buffer of its thread while that thread's next few atomic loads execute
   (store -> load reordering, allowed on every supported CPU incl. x86): vf_store_delay_slow then keeps it and performs it later */
int  vf_store_delay_slow(volatile void* addr, unsigned size, unsigned long long value, const char* func);
#define vfa_store_explicit(p,x,mo) __extension__({ \
  __typeof__(p) _vf_p = (p); __typeof__(x) _vf_x = (x); VF_POINT(VF_K_STORE,_vf_p); \
  if (!(__builtin_expect(vf_mode != 0, 0) && (mo) != memory_order_seq_cst && sizeof(*_vf_p) <= 8 && \
        vf_store_delay_slow((volatile void*)_vf_p, (unsigned)sizeof(*_vf_p), (unsigned long long)(uintptr_t)_vf_x, __func__))) \
    atomic_store_explicit(_vf_p,_vf_x,(mo)); })
#define vfa_exchange_explicit(p,x,mo) __extension__({ \
  __typeof__(p) _vf_p = (p); __typeof__(x) _vf_x = (x); VF_POINT(VF_K_XCHG,_vf_p); atomic_exchange_explicit(_vf_p,_vf_x,(mo)); })
#define vfa_fetch_add_explicit(p,x,mo) __extension__({ \
  __typeof__(p) _vf_p = (p); __typeof__(x) _vf_x = (x); VF_POINT(VF_K_FADD,_vf_p); atomic_fetch_add_explicit(_vf_p,_vf_x,(mo)); })
#define vfa_fetch_sub_explicit(p,x,mo) __extension__({ \
  __typeof__(p) _vf_p = (p); __typeof__(x) _vf_x = (x); VF_POINT(VF_K_FSUB,_vf_p); atomic_fetch_sub_explicit(_vf_p,_vf_x,(mo)); })
#define vfa_fetch_and_explicit(p,x,mo) __extension__({ \
  __typeof__(p) _vf_p = (p); __typeof__(x) _vf_x = (x); VF_POINT(VF_K_FAND,_vf_p); atomic_fetch_and_explicit(_vf_p,_vf_x,(mo)); })
#define vfa_fetch_or_explicit(p,x,mo) __extension__({ \
  __typeof__(p) _vf_p = (p); __typeof__(x) _vf_x = (x); VF_POINT(VF_K_FOR,_vf_p); atomic_fetch_or_explicit(_vf_p,_vf_x,(mo)); })
#define vfa_compare_exchange_strong_explicit(p,e,d,ms,mf) __extension__({ \
  __typeof__(p) _vf_p = (p); __typeof__(e) _vf_e = (e); __typeof__(d) _vf_d = (d); VF_POINT(VF_K_CASS,_vf_p); \
  atomic_compare_exchange_strong_explicit(_vf_p,_vf_e,_vf_d,(ms),(mf)); })
/* a weak CAS may fail spuriously: *expected is reloaded (a value the location really holds) and false returned */
#define vfa_compare_exchange_weak_explicit(p,e,d,ms,mf) __extension__({ \
  __typeof__(p) _vf_p = (p); __typeof__(e) _vf_e = (e); __typeof__(d) _vf_d = (d); _Bool _vf_r; VF_POINT(VF_K_CASW,_vf_p); \
  if (__builtin_expect(vf_mode != 0, 0) && vf_spurious_slow(__func__)) { *_vf_e = atomic_load_explicit(_vf_p,(mf)); _vf_r = 0; } \
  else { _vf_r = atomic_compare_exchange_weak_explicit(_vf_p,_vf_e,_vf_d,(ms),(mf)); } \
  _vf_r; })

#endif /* VF_HOOKS_PART1_H */

#elif MI_VERIF_HOOKS_PART == 2
#ifndef VF_HOOKS_PART2_H
#define VF_HOOKS_PART2_H

static inline void vf_wrapped_yield(const char* func) {
  if (__builtin_expect(vf_mode != 0, 0)) vf_yield_slow(func);
  (mi_atomic_yield)();
}
#if defined(MI_USE_PTHREADS)
static inline void vf_wrapped_lock_acquire(mi_lock_t* lock, const char* func) {
  if (__builtin_expect(vf_mode != 0, 0)) {
    vf_point_slow(VF_K_LOCK, lock, func);
    /* never block while holding the baton: spin on try-lock, handing the baton on */
    while (!(mi_lock_try_acquire)(lock)) { vf_lock_contended_slow(func); }
    return;
  }
  (mi_lock_acquire)(lock);
}
static inline bool vf_wrapped_lock_try_acquire(mi_lock_t* lock, const char* func) {
  if (__builtin_expect(vf_mode != 0, 0)) vf_point_slow(VF_K_TRYLOCK, lock, func);
  return (mi_lock_try_acquire)(lock);
}
static inline void vf_wrapped_lock_release(mi_lock_t* lock, const char* func) {
  (mi_lock_release)(lock);
  if (__builtin_expect(vf_mode != 0, 0)) vf_point_slow(VF_K_UNLOCK, lock, func);
}
#define mi_lock_acquire(l)      vf_wrapped_lock_acquire((l),__func__)
#define mi_lock_try_acquire(l)  vf_wrapped_lock_try_acquire((l),__func__)
#define mi_lock_release(l)      vf_wrapped_lock_release((l),__func__)
#endif
#define mi_atomic_yield()       vf_wrapped_yield(__func__)

#endif /* VF_HOOKS_PART2_H */
#endif
