// seq.hpp -- shared declarations of the single-thread history driver (drv_seq)
#pragma once
#include <mimalloc.h>
#include <mimalloc-stats.h>
#include <vector>
#include <map>
#include <set>
#include <string>
#include <cstdint>
#include <cstdio>
#include <cstring>
#include <cstdlib>
#include "vf_common.h"
#include "vf_shadow.hpp"
#include "vf_os.h"

namespace seq {

struct HeapEnt { mi_heap_t* h = nullptr; bool alive = false; int arena = -1; };
struct ArenaInfo { mi_arena_id_t id; uintptr_t lo, hi; uintptr_t given_lo, given_hi; bool exclusive; };

struct Config {
  std::string profile = "general";
  std::string prop = "C01";
  std::string variant = "rel";     // rel | dbg | sec | asan | ...  (padding: dbg, sec)
  uint64_t seed = 1;
  uint64_t ops = 4000;
  bool padding = false;            // variant has MI_PADDING (usable == requested, expand refuses)
  bool debug = false;              // variant has MI_DEBUG > 0
  bool secure = false;
  bool tolerate_enomem = false;    // 'unable to allocate memory' reports are expected (heaps bound to a full arena)
  bool allow_null = false;         // allocation failure is legitimate (fault plans active)
  int  clock_jitter = 0;           // advance the virtual clock by random amounts between ops (C13, C18)
  bool purge_cb = false;           // check purge ranges against the shadow model (C13)
  bool tags_in_use = false;        // heaps with heap tags exist: the by-design EFAULT report of an adoption without a tag-matched heap is tolerated
  int  flip_options = 0;           // C13: change run-time options with mi_option_set in the middle of the history (1 in N operations)
  bool threads = false;            // helper-thread ops allowed (remote frees, thread exit)
  size_t max_live_bytes = 192u << 20;
  size_t max_live_blocks = 20000;
  uint64_t size_cap = 0;           // 0 = profile default
  bool abandon_ok = false;         // forced abandonment is configured (target_segments_per_thread > 0): live blocks may sit in abandoned segments
                                   // (visible through mi_abandoned_visit_blocks only) and heap attribution is not stable
  std::string generic;             // if set: what the generic oracles (overlap, contents, crash, unexpected error) refute
  int  size_mode = 0;              // 0 default mix, 1 mostly >= 1 MiB (large and huge)
  int  workload = 0;               // OS profiles: which workload
  std::string faults;              // fault plan  cls:k:persistent:errno[:subkind];...
  int  reps = 6;                   // ledger profile: repetitions
  std::string scenario = "all";    // purge profile: pages | segments | all
  int  trace = 0;
};

// entry points (for evidence)
#define VF_EPS(X) \
  X(malloc) X(zalloc) X(calloc) X(mallocn) X(malloc_small) X(zalloc_small) \
  X(heap_malloc) X(heap_zalloc) X(heap_calloc) X(heap_mallocn) X(heap_malloc_small) \
  X(malloc_aligned) X(zalloc_aligned) X(calloc_aligned) X(malloc_aligned_at) X(zalloc_aligned_at) X(calloc_aligned_at) \
  X(heap_malloc_aligned) X(heap_zalloc_aligned) X(heap_calloc_aligned) X(heap_malloc_aligned_at) X(heap_zalloc_aligned_at) X(heap_calloc_aligned_at) \
  X(posix_memalign) X(memalign) X(aligned_alloc) X(valloc) X(pvalloc) \
  X(new_) X(new_nothrow) X(new_aligned) X(new_aligned_nothrow) X(new_n) X(heap_alloc_new) X(heap_alloc_new_n) \
  X(strdup) X(strndup) X(heap_strdup) X(heap_strndup) X(wcsdup) X(mbsdup) X(dupenv_s) \
  X(realloc) X(reallocn) X(reallocf) X(reallocarray) X(reallocarr) X(rezalloc) X(recalloc) \
  X(heap_realloc) X(heap_reallocn) X(heap_reallocf) X(heap_rezalloc) X(heap_recalloc) \
  X(realloc_aligned) X(realloc_aligned_at) X(rezalloc_aligned) X(rezalloc_aligned_at) X(recalloc_aligned) X(recalloc_aligned_at) \
  X(heap_realloc_aligned) X(heap_realloc_aligned_at) X(heap_rezalloc_aligned) X(heap_rezalloc_aligned_at) X(heap_recalloc_aligned) X(heap_recalloc_aligned_at) \
  X(new_realloc) X(new_reallocn) X(expand) \
  X(free) X(free_size) X(free_size_aligned) X(free_aligned) X(cfree) \
  X(heap_new) X(heap_delete) X(heap_destroy) X(heap_set_default) X(heap_collect) X(collect) \
  X(usable_size) X(heap_contains_block) X(heap_check_owned) X(check_owned) X(is_in_heap_region) X(heap_visit_blocks) \
  X(remote_free_batch) X(thread_alloc_exit)

enum EP {
#define X(n) EP_##n,
  VF_EPS(X)
#undef X
  EP__N
};
extern const char* const ep_names[EP__N];

struct State {
  Config cfg;
  vf_rng_t rng;
  vf::Shadow sm;
  std::vector<HeapEnt> heaps;   // [0] = backing heap of the main thread
  std::vector<ArenaInfo> arenas; // arenas created by the harness (C15)
  uint64_t n_arena_inside = 0, n_arena_outside = 0, n_arena_null = 0;
  int cur_default = 0;
  uint64_t ep_count[EP__N] = {0};
  uint64_t op_index = 0;
  // evidence counters
  uint64_t n_alloc = 0, n_alloc_null = 0, n_free = 0, n_realloc = 0, n_realloc_inplace = 0, n_realloc_moved = 0, n_realloc_null = 0, n_realloc_mustfail = 0;
  uint64_t n_expand_ok = 0, n_expand_null = 0, n_zero_checked = 0, n_zero_bytes = 0, n_zero_reused_dirty = 0, n_zgrow_inplace = 0, n_zgrow_moved = 0;
  uint64_t n_aligned = 0, n_interior = 0, n_walks = 0, n_walk_patterns = 0, n_walk_blocks = 0, n_conserv = 0, n_queries = 0, n_heap_new = 0, n_heap_delete = 0, n_heap_destroy = 0;
  uint64_t n_drain = 0, n_remote_batches = 0, n_thread_exits = 0, n_foreign = 0, n_purge_ranges = 0, n_clock_ms = 0;
  uint64_t max_live_blocks = 0, max_live_bytes = 0;
  std::set<size_t> bins_hit;      // distinct mi_good_size(n) for n <= 64 KiB
  uint64_t kind_hits[4] = {0,0,0,0};   // small / medium / large / huge allocations
  std::map<size_t, uint64_t> align_hist;
  std::set<uintptr_t> dirty_freed;  // addresses of blocks that were freed while completely dirty (bounded)
  uint64_t hash = 1469598103934665603ull;  // hash of the executed op list
  int  force_heap = -1;           // >= 0: heap_* entry points use this heap index
  bool walk_disabled = false;     // after a forged free-list link was consumed the allocator legitimately lost free blocks: walks are not judged any more
  bool region_check = false;      // every returned pointer must lie inside memory mimalloc obtained from the OS (C17)
  bool pending_remote = false;    // cross-thread frees were issued since the last collect (C12: walks are judged without pending remote frees)
  uint64_t n_alloc_via_realloc_null = 0, n_option_flips = 0;
  int foreign_live = 0;           // blocks allocated by exited helper threads that are not yet attributed to a heap
  // phase
  int phase = 0; uint64_t phase_left = 0; int victim_mode = 0; size_t victim_class = 0;
};

extern State* G;

// engine API (drv_seq.cpp)
const char* generic_refutes();
void   run_history(State& S);
void   history_begin(State& S);
void   history_step(State& S);
void   history_end(State& S);
void   checkpoint(State& S, bool full_walk);
size_t conservation_count(State& S);
void   check_conservation(State& S, const char* when, const char* refutes);
void   walk_compare(State& S, const char* refutes);
vf::Blk* accept_foreign(State& S, void* p, size_t n);
void   forget_foreign(State& S, vf::Blk* b);
vf::Blk* do_alloc(State& S, int force_ep = -1, size_t force_size = SIZE_MAX);
void   do_free(State& S, vf::Blk* b, int force_ep = -1);
void   free_all(State& S);
void   result_body(FILE* f);
void   arena_range_check(State& S, const void* p, size_t len, int heap_idx, const char* what);
size_t gen_size(State& S);

// other scenario files
void run_malformed(State& S);   // C06  (seq_malformed.cpp)
void run_hardening(State& S);   // C17  (seq_harden.cpp)
void run_os_profile(State& S);  // C07 / C11 / C18 (seq_os.cpp)
void run_arena_profile(State& S); // C15 (seq_arena.cpp)
void add_result_printer(void (*fn)(FILE*));   // extra  ,"key":value  fragments for the VFRESULT object

} // namespace seq
