// drv_arith.c -- C16: size-class and address arithmetic of the *compiled* allocator, enumerated over its relevant domain.
// The whole allocator is included as one translation unit so that static functions (mi_bin, mi_slice_bin, mi_fast_divide, ...) are reachable.
#include "static.c"      // from $REPO/src (-I on the command line)
#include "vf_common.h"

static unsigned long long n_sizes = 0, n_good = 0, n_malloc = 0, n_slice = 0, n_div = 0, n_util = 0, n_addr = 0, n_pages = 0, n_slice_positions = 0, n_interior = 0, n_bins_addr = 0, n_giant = 0, n_giant_skipped = 0;
static int full = 0, padding = 0;

static unsigned long long n_page_ends = 0, n_huge_align = 0;
static void body(FILE* f) {
  fprintf(f, "\"arith\":{\"sizes\":%llu,\"good_size\":%llu,\"malloc_checked\":%llu,\"slice_counts\":%llu,\"divisions\":%llu,\"util_inputs\":%llu,\"address_recoveries\":%llu,\"pages\":%llu,\"distinct_slice_positions\":%llu,\"interior_offsets\":%llu,\"bins_with_real_pages\":%llu,\"giant_blocks_checked\":%llu,\"giant_blocks_refused_by_the_os\":%llu,\"page_ends_checked\":%llu,\"huge_alignments_checked\":%llu,\"full\":%d}",
          n_sizes, n_good, n_malloc, n_slice, n_div, n_util, n_addr, n_pages, n_slice_positions, n_interior, n_bins_addr, n_giant, n_giant_skipped, n_page_ends, n_huge_align, full);
}
#define FAIL(...) vf_trip("arith", "C16", __VA_ARGS__)

// ---------------------------------------------------------------- size classes
static void check_size(size_t n, size_t* prev_bsize, size_t* prev_n) {
  n_sizes++;
  if (n <= MI_MEDIUM_OBJ_SIZE_MAX) {
    const size_t bin = mi_bin(n);
    if (bin == 0 || bin > MI_BIN_HUGE) FAIL("mi_bin(%zu) = %zu out of range", n, bin);
    const size_t bsize = _mi_bin_size(bin);
    if (bsize < n) FAIL("size class of %zu is %zu bytes (bin %zu): smaller than the request", n, bsize, bin);
    if (n > 64 && (bsize - n) > n / 4 + 8) FAIL("size class of %zu is %zu bytes: more than 25%% internal fragmentation", n, bsize);
    if (*prev_n <= n && *prev_bsize > bsize) FAIL("size classes not monotone: %zu -> %zu bytes but %zu -> %zu bytes", *prev_n, *prev_bsize, n, bsize);
    if (_mi_bin(n) != bin) FAIL("_mi_bin(%zu) = %zu differs from mi_bin = %zu", n, _mi_bin(n), bin);
    if (mi_bin(bsize) != bin) FAIL("mi_bin(bin size %zu) = %zu, expected %zu", bsize, mi_bin(bsize), bin);
    *prev_bsize = bsize; *prev_n = n;
  }
  // mi_good_size
  if (n <= (size_t)PTRDIFF_MAX - 65536) {
    const size_t g = mi_good_size(n);
    n_good++;
    if (g < n) FAIL("mi_good_size(%zu) = %zu < n", n, g);
    {
      const size_t g2 = mi_good_size(g);
      if (g2 != g) FAIL("mi_good_size not idempotent: %zu -> %zu -> %zu", n, g, g2);
      // asking for the good size must land in the same size class as the request itself (builds with padding: the padding is added to both)
      if (g + MI_PADDING_SIZE <= MI_MEDIUM_OBJ_SIZE_MAX && mi_bin(g + MI_PADDING_SIZE) != mi_bin(n + MI_PADDING_SIZE))
        FAIL("mi_malloc(mi_good_size(%zu) = %zu) uses size class %zu but mi_malloc(%zu) uses class %zu", n, g, (size_t)mi_bin(g + MI_PADDING_SIZE), n, (size_t)mi_bin(n + MI_PADDING_SIZE));
    }
    if (n > 64 && (g - n) > n / 4 + 4096 + 8) FAIL("mi_good_size(%zu) = %zu: more than 25%% internal fragmentation", n, g);
  }
}

static void check_malloc(size_t n) {
  // usable size of a real allocation equals mi_good_size for small and medium sizes (no-padding builds)
  void* p = mi_malloc(n);
  if (p == NULL) FAIL("mi_malloc(%zu) failed", n);
  const size_t u = mi_usable_size(p);
  n_malloc++;
  if (u < n) FAIL("mi_usable_size(mi_malloc(%zu)) = %zu", n, u);
  if (!padding && n <= MI_MEDIUM_OBJ_SIZE_MAX && u != mi_good_size(n)) FAIL("mi_usable_size(mi_malloc(%zu)) = %zu but mi_good_size = %zu", n, u, mi_good_size(n));
  mi_free(p);
}

// ---------------------------------------------------------------- span bins
static void check_slice_bins(void) {
  mi_heap_t* heap = mi_heap_get_default();
  size_t prev = 0;
  for (size_t c = 0; c <= MI_SLICES_PER_SEGMENT; c++) {
    const size_t bin = mi_slice_bin(c);
    n_slice++;
    if (bin > MI_SEGMENT_BIN_MAX) FAIL("mi_slice_bin(%zu) = %zu > MI_SEGMENT_BIN_MAX", c, bin);
    if (bin < prev) FAIL("mi_slice_bin not monotone at %zu: %zu after %zu", c, bin, prev);
    prev = bin;
    if (c > 0) {
      const size_t qcount = heap->tld->segments.spans[bin].slice_count;
      if (qcount < c) FAIL("span queue of bin %zu holds spans of up to %zu slices but a span of %zu slices maps to it", bin, qcount, c);
      if (bin >= 1 && qcount <= MI_SLICES_PER_SEGMENT && mi_slice_bin(qcount) != bin) FAIL("span queue %zu is labelled with %zu slices, which itself maps to bin %zu", bin, qcount, mi_slice_bin(qcount));
    }
  }
}

// ---------------------------------------------------------------- fast division used by the heap walk
static void check_fast_divide(void) {
  for (size_t bin = 1; bin < MI_BIN_HUGE; bin++) {
    const size_t bsize = _mi_bin_size(bin);
    if (bsize > UINT32_MAX) continue;
    uint64_t magic; size_t shift;
    mi_get_fast_divisor(bsize, &magic, &shift);
    const size_t limit = (bsize <= MI_SMALL_OBJ_SIZE_MAX ? MI_SMALL_PAGE_SIZE : (bsize <= MI_MEDIUM_OBJ_SIZE_MAX ? MI_MEDIUM_PAGE_SIZE : 4 * MI_MEDIUM_PAGE_SIZE)) + bsize;
    const size_t step = (full ? 1 : (bsize < 64 ? 1 : 7));
    for (size_t off = 0; off <= limit; off += step) {
      n_div++;
      const size_t q = mi_fast_divide(off, magic, shift);
      if (q != off / bsize) FAIL("mi_fast_divide(%zu / %zu) = %zu, expected %zu", off, bsize, q, off / bsize);
    }
    // multiples and their neighbours (the values the walk really uses)
    for (size_t k = 0; k * bsize <= limit + 8 * bsize; k++) {
      for (int d = -1; d <= 1; d++) {
        if (k == 0 && d < 0) continue;
        const size_t off = k * bsize + (size_t)d; if (off > UINT32_MAX) continue;
        n_div++;
        if (mi_fast_divide(off, magic, shift) != off / bsize) FAIL("mi_fast_divide(%zu / %zu) = %zu, expected %zu", off, bsize, mi_fast_divide(off, magic, shift), off / bsize);
      }
    }
  }
  // large block sizes (pages with several blocks > medium do not exist, but the function is total for divisors <= UINT32_MAX)
  vf_rng_t r; vf_rng_seed(&r, 99);
  for (int i = 0; i < (full ? 2000000 : 200000); i++) {
    size_t d = 1 + (size_t)vf_rng_below(&r, (i % 3 == 0) ? 64 * 1024 : 16 * 1024 * 1024);
    size_t n = (size_t)vf_rng_below(&r, 32u * 1024 * 1024);
    uint64_t magic; size_t shift; mi_get_fast_divisor(d, &magic, &shift);
    n_div++;
    if (mi_fast_divide(n, magic, shift) != n / d) FAIL("mi_fast_divide(%zu / %zu) = %zu, expected %zu", n, d, mi_fast_divide(n, magic, shift), n / d);
  }
}

// ---------------------------------------------------------------- utilities
static void check_util_one(size_t a, size_t b) {
  n_util++;
  // overflow detecting multiply against 128-bit arithmetic
  size_t total = 0; bool ov = mi_mul_overflow(a, b, &total);
  unsigned __int128 wide = (unsigned __int128)a * b;
  bool wov = (wide > (unsigned __int128)SIZE_MAX);
  if (ov != wov) FAIL("mi_mul_overflow(%zu,%zu) = %d, expected %d", a, b, (int)ov, (int)wov);
  if (!ov && total != (size_t)wide) FAIL("mi_mul_overflow(%zu,%zu) product %zu, expected %zu", a, b, total, (size_t)wide);
  size_t t2 = 0; bool ov2 = mi_count_size_overflow(a, b, &t2);
  if (a == 1) { if (ov2 || t2 != b) FAIL("mi_count_size_overflow(1,%zu)", b); }
  else { if (ov2 != wov) FAIL("mi_count_size_overflow(%zu,%zu) = %d, expected %d", a, b, (int)ov2, (int)wov); if (!ov2 && t2 != (size_t)wide) FAIL("mi_count_size_overflow(%zu,%zu) total", a, b); }
  // bit scans
  if (a != 0) {
    size_t lz = mi_clz(a), tz = mi_ctz(a), bs = mi_bsr(a);
    size_t elz = (size_t)__builtin_clzl(a), etz = (size_t)__builtin_ctzl(a);
    if (lz != elz || tz != etz || bs != (MI_SIZE_BITS - 1 - elz)) FAIL("bit scan of %zx: clz %zu ctz %zu bsr %zu", a, lz, tz, bs);
  }
  else { if (mi_clz(0) != MI_SIZE_BITS || mi_ctz(0) != MI_SIZE_BITS) FAIL("mi_clz(0)/mi_ctz(0)"); }
  // align up / down, divide up (power of two and general alignments)
  size_t al = (b == 0 ? 1 : b);
  if (al <= ((size_t)1 << 40) && a <= SIZE_MAX - al) {
    size_t up = _mi_align_up(a, al), dn = _mi_align_down(a, al), du = _mi_divide_up(a, al);
    if (up % al != 0 || up < a || up - a >= al) FAIL("_mi_align_up(%zu,%zu) = %zu", a, al, up);
    if (dn % al != 0 || dn > a || a - dn >= al) FAIL("_mi_align_down(%zu,%zu) = %zu", a, al, dn);
    if (du != a / al + (a % al != 0)) FAIL("_mi_divide_up(%zu,%zu) = %zu", a, al, du);
  }
}
static void check_utils(void) {
  static const size_t grid[] = { 0, 1, 2, 3, 7, 8, 9, 15, 16, 17, 63, 64, 65, 4095, 4096, 4097, 65535, 65536, 65537, (size_t)1 << 31, ((size_t)1 << 32) - 1, (size_t)1 << 32, ((size_t)1 << 32) + 1,
                                (size_t)1 << 33, (size_t)1 << 47, ((size_t)1 << 62), ((size_t)1 << 63) - 1, (size_t)1 << 63, ((size_t)1 << 63) + 1, SIZE_MAX / 3, SIZE_MAX / 2, SIZE_MAX / 2 + 1, SIZE_MAX - 1, SIZE_MAX };
  const size_t G = sizeof(grid) / sizeof(grid[0]);
  for (size_t i = 0; i < G; i++) for (size_t j = 0; j < G; j++) check_util_one(grid[i], grid[j]);
  for (size_t i = 0; i < G; i++) if (grid[i] > 1) { check_util_one(grid[i], SIZE_MAX / grid[i]); check_util_one(grid[i], SIZE_MAX / grid[i] + 1); check_util_one(SIZE_MAX / grid[i], grid[i]); check_util_one(SIZE_MAX / grid[i] + 1, grid[i]); }
  vf_rng_t r; vf_rng_seed(&r, 12345);
  for (int i = 0; i < (full ? 10000000 : 1000000); i++) {
    size_t a = vf_rng_next(&r), b = vf_rng_next(&r);
    unsigned sa = (unsigned)vf_rng_below(&r, 64), sb = (unsigned)vf_rng_below(&r, 64);
    check_util_one(a >> sa, b >> sb);
  }
}

// ---------------------------------------------------------------- address recovery on real pages
static unsigned char seen_slice[MI_SLICES_PER_SEGMENT + 1];
static void check_block_addresses(void* p, size_t n) {
  mi_segment_t* seg = _mi_ptr_segment(p);
  mi_page_t* page = _mi_segment_page_of(seg, p);
  if (((uintptr_t)seg & (MI_SEGMENT_SIZE - 1)) != 0 || (uint8_t*)p < (uint8_t*)seg) FAIL("_mi_ptr_segment(%p) = %p", p, (void*)seg);
  if (_mi_ptr_page(p) != page) FAIL("_mi_ptr_page(%p) differs from _mi_segment_page_of", p);
  const size_t bsize = mi_page_block_size(page);
  if (bsize < n) FAIL("page block size %zu < requested %zu", bsize, n);
  size_t psize = 0; uint8_t* pstart = _mi_segment_page_start(seg, page, &psize);
  if ((uint8_t*)p < pstart || (uint8_t*)p + bsize > pstart + psize) FAIL("block %p (+%zu) is not inside the page area [%p,+%zu) computed for it", p, bsize, (void*)pstart, psize);
  if (((uint8_t*)p - pstart) % bsize != 0) FAIL("block %p is not at a multiple of the block size %zu from the page start %p", p, bsize, (void*)pstart);
  if (pstart != page->page_start) FAIL("page_start field %p differs from _mi_segment_page_start %p", (void*)page->page_start, (void*)pstart);
  size_t sidx = (size_t)(mi_page_to_slice(page) - seg->slices);
  if (sidx <= MI_SLICES_PER_SEGMENT && !seen_slice[sidx]) { seen_slice[sidx] = 1; n_slice_positions++; }
  // interior addresses: every one must lead back to the same segment, page and block start
  size_t limit = bsize;
  if (limit > MI_BLOCK_ALIGNMENT_MAX) limit = MI_BLOCK_ALIGNMENT_MAX;      // documented reach of interior pointers in huge blocks
  size_t offs[40]; int no = 0;
  offs[no++] = 0; offs[no++] = 1; offs[no++] = limit / 2; offs[no++] = limit - 1; offs[no++] = limit / 3; offs[no++] = 7; offs[no++] = 8;
  for (size_t s = MI_SEGMENT_SLICE_SIZE; s < limit && no < 36; s *= 2) { offs[no++] = s - 1; offs[no++] = s; offs[no++] = s + 1; }
  if (full) for (size_t s = MI_SEGMENT_SLICE_SIZE; s < limit && no < 40; s += (limit / 4) + 1) offs[no++] = s;
  for (int i = 0; i < no; i++) {
    size_t o = offs[i]; if (o >= limit) continue;
    uint8_t* q = (uint8_t*)p + o;
    n_addr++; n_interior++;
    mi_segment_t* s2 = _mi_ptr_segment(q);
    if (s2 != seg) { if (bsize <= MI_SEGMENT_SIZE - MI_SEGMENT_SLICE_SIZE) FAIL("_mi_ptr_segment(%p = block %p + %zu) = %p, expected %p", (void*)q, p, o, (void*)s2, (void*)seg); else continue; }
    mi_page_t* pg2 = _mi_segment_page_of(seg, q);
    if (pg2 != page) FAIL("_mi_segment_page_of(block %p + %zu) = %p, expected page %p (block size %zu, slice index %zu)", p, o, (void*)pg2, (void*)page, bsize, sidx);
    mi_block_t* b2 = _mi_page_ptr_unalign(page, q);
    if ((void*)b2 != p) FAIL("_mi_page_ptr_unalign(block %p + %zu) = %p (block size %zu, shift %u)", p, o, (void*)b2, bsize, (unsigned)page->block_size_shift);
  }
  // the shift is only set for powers of two
  if (page->block_size_shift != 0 && ((size_t)1 << page->block_size_shift) != bsize) FAIL("block_size_shift %u set for block size %zu", (unsigned)page->block_size_shift, bsize);
}

static void check_addresses(void) {
  // every bin: several pages at different positions of the segment (filler pages of other sizes shift the position), every block of a page for small counts
  vf_rng_t r; vf_rng_seed(&r, 4242);
  void** hold = (void**)malloc(sizeof(void*) * 400000); size_t nh = 0;
  for (size_t bin = 1; bin < MI_BIN_HUGE; bin++) {
    const size_t bsize = _mi_bin_size(bin);
    if (bsize > MI_MEDIUM_OBJ_SIZE_MAX) break;
    const size_t n = bsize - (padding ? MI_PADDING_SIZE : 0);
    n_bins_addr++;
    const int pages_wanted = (full ? 12 : 4);
    size_t per_page = (bsize <= MI_SMALL_OBJ_SIZE_MAX ? MI_SMALL_PAGE_SIZE : MI_MEDIUM_PAGE_SIZE) / bsize; if (per_page == 0) per_page = 1;
    // (at least two pages are filled COMPLETELY: the last blocks of a page -- handed out only when all others are live -- are where an area that is one block too long shows)
    size_t count = per_page * (size_t)pages_wanted; if (count > 3000) count = (2 * per_page + 64 > 3000 ? 2 * per_page + 64 : 3000);
    mi_page_t* prev_page = NULL; void* lastp[4] = { NULL, NULL, NULL, NULL };
    for (size_t i = 0; i < count && nh < 399000; i++) {
      void* p = mi_malloc(n); if (p == NULL) FAIL("mi_malloc(%zu) failed", n);
      hold[nh++] = p;
      mi_page_t* pg = _mi_ptr_page(p);
      if (pg != prev_page) { for (int k = 0; k < 4; k++) if (lastp[k] != NULL) check_block_addresses(lastp[k], n); check_block_addresses(p, n); prev_page = pg; n_page_ends++; }
      lastp[i & 3] = p;
      if (i % (per_page > 64 ? per_page / 16 : 1) == 0 || i < 4 || i + 4 > count) check_block_addresses(p, n);
      // a filler of a random other size now and then, so that the next page of this bin starts at another slice
      if (i % per_page == per_page - 1 && nh < 399000) hold[nh++] = mi_malloc(1 + (size_t)vf_rng_below(&r, 200000));
    }
    n_pages += (unsigned long long)pages_wanted;
    // free most of it again (keep some so that segments stay fragmented)
    if (nh > 200000) { for (size_t i = 0; i < nh; i++) if (i % 5 != 0) { mi_free(hold[i]); hold[i] = NULL; } size_t k = 0; for (size_t i = 0; i < nh; i++) if (hold[i]) hold[k++] = hold[i]; nh = k; }
  }
  // large pages of many slice counts, and huge blocks
  static const size_t larges[] = { 65 * 1024, 100 * 1024, 128 * 1024 + 1, 300 * 1024, 512 * 1024, 512 * 1024 + 1, 1024 * 1024, 3 * 1024 * 1024 + 17, 8 * 1024 * 1024, 15 * 1024 * 1024, 16 * 1024 * 1024 - 4096, 16 * 1024 * 1024,
                                   16 * 1024 * 1024 + 1, 20 * 1024 * 1024, 33 * 1024 * 1024, 70 * 1024 * 1024 };
  for (int rep = 0; rep < (full ? 6 : 2); rep++) for (size_t i = 0; i < sizeof(larges) / sizeof(larges[0]); i++) {
    void* p = mi_malloc(larges[i]); if (p == NULL) FAIL("mi_malloc(%zu) failed", larges[i]);
    check_block_addresses(p, larges[i]);
    if (nh < 399000 && (i + (size_t)rep) % 3 == 0) hold[nh++] = p; else mi_free(p);
    if (nh < 399000) hold[nh++] = mi_malloc(1 + (size_t)vf_rng_below(&r, 900000));
  }
  // blocks of 4 GiB and more (address space only, never touched): the arithmetic must not be done in 32 bits
  {
    static const size_t giants[] = { ((size_t)4 << 30) - 12 * 1024 * 1024 + 1, ((size_t)4 << 30) + 3 * 1024 * 1024 + 5, ((size_t)4 << 30), ((size_t)6 << 30) + 777, ((size_t)8 << 30) + 64 * 1024 + 24, ((size_t)5 << 30) - 8 };
    for (size_t i = 0; i < sizeof(giants) / sizeof(giants[0]); i++) {
      void* p = mi_malloc(giants[i]); if (p == NULL) { n_giant_skipped++; continue; }      // the OS may refuse that much address space: not a verdict
      check_block_addresses(p, giants[i]); n_giant++;
      mi_free(p);
      for (size_t a = 64 * 1024; a <= MI_BLOCK_ALIGNMENT_MAX; a *= 16) {
        void* q = mi_malloc_aligned(giants[i], a); if (q == NULL) { n_giant_skipped++; continue; }
        mi_page_t* page = _mi_ptr_page(q);
        mi_block_t* b = _mi_page_ptr_unalign(page, q);
        size_t bs = mi_page_block_size(page);
        n_addr++; n_giant++;
        if ((uint8_t*)b > (uint8_t*)q || (uint8_t*)q + giants[i] > (uint8_t*)b + bs || (uint8_t*)b != page->page_start) FAIL("aligned pointer %p (n=%zu, a=%zu) into a giant block resolves to block %p of size %zu (page start %p)", q, giants[i], a, (void*)b, bs, (void*)page->page_start);
        if (mi_usable_size(q) < giants[i] || (uint8_t*)q + mi_usable_size(q) > (uint8_t*)b + bs) FAIL("mi_usable_size(%p) = %zu for an aligned giant block of %zu bytes (block %p, size %zu)", q, mi_usable_size(q), giants[i], (void*)b, bs);
        mi_free(q);
      }
    }
  }
  // aligned allocations: the pointer handed out is interior to a block; it must resolve to that block
  for (int i = 0; i < (full ? 20000 : 3000); i++) {
    size_t a = (size_t)1 << vf_rng_below(&r, 21), n = 1 + (size_t)vf_rng_below(&r, 100000);
    void* p = mi_malloc_aligned(n, a); if (p == NULL) FAIL("mi_malloc_aligned(%zu,%zu) failed", n, a);
    mi_page_t* page = _mi_ptr_page(p);
    mi_block_t* b = _mi_page_ptr_unalign(page, p);
    size_t bs = mi_page_block_size(page);
    n_addr++;
    if ((uint8_t*)b > (uint8_t*)p || (uint8_t*)p + n > (uint8_t*)b + bs || ((uint8_t*)b - page->page_start) % bs != 0) FAIL("aligned pointer %p (n=%zu, a=%zu) resolves to block %p of size %zu", p, n, a, (void*)b, bs);
    mi_free(p);
  }
  // alignments above MI_BLOCK_ALIGNMENT_MAX: the block lives in a huge page of its own whose single block spans the whole over-allocated area
  {
    static const size_t ns[] = { 1, 1024, 4096, 8192, 12288, 20480, 65536, 100000, 1 << 20, 5 << 20, (17 << 20) + 5 };
    for (size_t a = 2 * MI_BLOCK_ALIGNMENT_MAX; a <= 8 * MI_BLOCK_ALIGNMENT_MAX; a *= 2) for (size_t i = 0; i < sizeof(ns) / sizeof(ns[0]); i++) {
      const size_t n = ns[i];
      uint8_t* p = (uint8_t*)mi_malloc_aligned(n, a); if (p == NULL) FAIL("mi_malloc_aligned(%zu,%zu) failed", n, a);
      mi_page_t* page = _mi_ptr_page(p);
      mi_block_t* b = _mi_page_ptr_unalign(page, p);
      const size_t bs = mi_page_block_size(page);
      n_addr++; n_huge_align++;
      if (((uintptr_t)p & (a - 1)) != 0) FAIL("mi_malloc_aligned(%zu,%zu) returned %p", n, a, (void*)p);
      if ((uint8_t*)b > p || p + n > (uint8_t*)b + bs || (uint8_t*)b != page->page_start) FAIL("pointer %p (n=%zu, alignment %zu) resolves to block %p of size %zu (page start %p)", (void*)p, n, a, (void*)b, bs, (void*)page->page_start);
      const size_t u = mi_usable_size(p);
      if (u < n || p + u > (uint8_t*)b + bs) FAIL("mi_usable_size(%p) = %zu for %zu bytes with alignment %zu (block %p, size %zu)", (void*)p, u, n, a, (void*)b, bs);
      p[0] = 1; p[n - 1] = 2; p[u - 1] = 3;
      mi_free(p);
    }
  }
  for (size_t i = 0; i < nh; i++) mi_free(hold[i]);
  free(hold);
}

int main(int argc, char** argv) {
  full = (int)vf_getarg_ll(argc, argv, "--full", 0);
  padding = (MI_PADDING_SIZE > 0);
  vf_result_body = &body;
  vf_crash_refutes = "C16";
  vf_install_crash_handler();
  mi_register_error(&vf_error_cb, NULL);
  mi_register_output(&vf_output_cb, NULL);
  // 1. all sizes 0..2*MI_MEDIUM_OBJ_SIZE_MAX, then every class boundary +-2 up to PTRDIFF_MAX
  size_t pb = 0, pn = 0;
  vf_cur_what = "size classes";
  for (size_t n = 0; n <= 2 * MI_MEDIUM_OBJ_SIZE_MAX; n++) check_size(n, &pb, &pn);
  for (size_t n = 2 * MI_MEDIUM_OBJ_SIZE_MAX; n < (size_t)PTRDIFF_MAX / 2; n += n / 8) for (int d = -2; d <= 2; d++) { size_t t1 = 0, t2 = 0; check_size(n + (size_t)d, &t1, &t2); }
  for (int k = 17; k < 63; k++) for (int d = -2; d <= 2; d++) { size_t t1 = 0, t2 = 0; check_size(((size_t)1 << k) + (size_t)d, &t1, &t2); }
  for (size_t d = 0; d < 70000; d += 4099) { size_t t1 = 0, t2 = 0; check_size((size_t)PTRDIFF_MAX - 65536 - d, &t1, &t2); }
  // 2. usable size of real allocations
  vf_cur_what = "usable size of real allocations";
  for (size_t n = 0; n <= MI_MEDIUM_OBJ_SIZE_MAX + 1; n += (full || n < 4096 ? 1 : 13)) check_malloc(n);
  for (size_t bin = 1; bin < MI_BIN_HUGE; bin++) { size_t b = _mi_bin_size(bin); if (b > 4 * 1024 * 1024) break; for (int d = -1; d <= 1; d++) check_malloc(b + (size_t)d); }
  // the class a request lands in must not depend on the history of the heap: with pages of many classes alive, sweep again
  // downwards, upwards and in random order (blocks are kept, so the direct page table of the heap is fully populated)
  vf_cur_what = "usable size with a populated heap";
  {
    enum { KEEP = 4096 };
    static void* keep[KEEP]; size_t nk = 0;
    for (size_t n = 8; n <= MI_SMALL_SIZE_MAX + 256 && nk < KEEP; n += 8) { keep[nk++] = mi_malloc(n); }            // one live block per small class
    for (size_t n = MI_SMALL_SIZE_MAX + 256; n-- > 0; ) { void* p = mi_malloc(n); n_malloc++;
      if (!padding && mi_usable_size(p) != mi_good_size(n)) FAIL("descending sweep: mi_usable_size(mi_malloc(%zu)) = %zu but mi_good_size = %zu", n, mi_usable_size(p), mi_good_size(n));
      if (mi_usable_size(p) < n) FAIL("descending sweep: usable %zu < %zu", mi_usable_size(p), n);
      mi_free(p); }
    for (size_t n = 0; n <= MI_SMALL_SIZE_MAX + 256; n++) { void* p = mi_malloc(n); n_malloc++;
      if (!padding && mi_usable_size(p) != mi_good_size(n)) FAIL("second ascending sweep: mi_usable_size(mi_malloc(%zu)) = %zu but mi_good_size = %zu", n, mi_usable_size(p), mi_good_size(n));
      mi_free(p); }
    vf_rng_t r; vf_rng_seed(&r, 777);
    for (int i = 0; i < (full ? 2000000 : 200000); i++) { size_t n = (size_t)vf_rng_below(&r, (i & 7) ? MI_SMALL_SIZE_MAX + 64 : MI_MEDIUM_OBJ_SIZE_MAX + 64); void* p = (i & 1) ? mi_malloc(n) : mi_zalloc(n); n_malloc++;
      if (!padding && n <= MI_MEDIUM_OBJ_SIZE_MAX && mi_usable_size(p) != mi_good_size(n)) FAIL("random order: mi_usable_size(mi_malloc(%zu)) = %zu but mi_good_size = %zu", n, mi_usable_size(p), mi_good_size(n));
      if (mi_usable_size(p) < n) FAIL("random order: usable %zu < %zu", mi_usable_size(p), n);
      if (nk < KEEP && (i % 97) == 0) keep[nk++] = p; else mi_free(p); }
    for (size_t i = 0; i < nk; i++) mi_free(keep[i]);
  }
  vf_cur_what = "span bins"; check_slice_bins();
  vf_cur_what = "fast divide"; check_fast_divide();
  vf_cur_what = "utilities"; check_utils();
  vf_err_reset();   // debug builds report every overflowing mi_count_size_overflow through the error callback (EOVERFLOW): expected here
  vf_cur_what = "address recovery"; check_addresses();
  if (vf_err_count != 0) vf_trip("unexpected-error", "C16", "mimalloc reported error %d: %s", (int)vf_err_codes[0], vf_last_msgs);
  vf_finish_ok();
}
