// seq_arena.cpp -- C15: arena-bound heaps stay inside their arena; exclusive arenas stay private; memory handed to
// mi_manage_os_memory_ex is only used within the bounds given.
#include "seq.hpp"
#include <sys/mman.h>
#include <thread>
#include <system_error>

namespace seq {

static const size_t KiB = 1024, MiB = 1024 * 1024;
struct Guard { uint8_t* p; size_t len; uint8_t v; };
static std::vector<Guard> g_guards;
static uint64_t g_ar_threads = 0, g_ar_thread_blocks = 0, g_ar_full_events = 0, g_ar_bound_allocs = 0, g_ar_other_allocs = 0, g_ar_geoms = 0;
static std::string g_geom;

static uint64_t g_ar_tagged_heaps = 0;
static void check_guards(const char* when) {
  for (auto& g : g_guards) for (size_t i = 0; i < g.len; i++) if (g.p[i] != g.v)
    vf_trip("outside-given-bounds", "C15", "%s: byte %zu of the canary zone %p next to a region given to mi_manage_os_memory_ex was changed to 0x%02x", when, i, (void*)g.p, g.p[i]);
}

// a region with deliberately awkward geometry: start = 32MiB-aligned base + k*4KiB, odd size; canary (committed case) or PROT_NONE (uncommitted case) around it
static void make_arena(State& S, bool exclusive) {
  size_t nb = 3 + (size_t)vf_rng_below(&S.rng, 6);                       // 3..8 arena blocks
  size_t off = (vf_rng_chance(&S.rng, 1, 3) ? 0 : (size_t)vf_rng_below(&S.rng, 8192) * 4096);
  size_t size = nb * 32 * MiB + (vf_rng_chance(&S.rng, 1, 3) ? 0 : (size_t)vf_rng_below(&S.rng, 4096) * 4096);
  bool committed = vf_rng_chance(&S.rng, 1, 2);
  size_t reserve = size + off + 64 * MiB + 2 * MiB;
  uint8_t* raw = (uint8_t*)vf_real_mmap(nullptr, reserve, PROT_NONE, MAP_PRIVATE | MAP_ANONYMOUS | MAP_NORESERVE, -1, 0);
  if (raw == (uint8_t*)MAP_FAILED) vf_trip("harness", "", "cannot reserve address space");
  uint8_t* base = (uint8_t*)((((uintptr_t)raw + 1 * MiB) + 32 * MiB - 1) & ~(uintptr_t)(32 * MiB - 1));
  uint8_t* start = base + off;
  const size_t G = 64 * KiB;
  if (committed) {
    vf_real_mprotect(start - G, size + 2 * G, PROT_READ | PROT_WRITE);
    Guard g1 = { start - G, G, 0xC5 }, g2 = { start + size, G, 0x5C };
    memset(g1.p, g1.v, G); memset(g2.p, g2.v, G);
    g_guards.push_back(g1); g_guards.push_back(g2);
  }
  mi_arena_id_t id = 0;
  bool ok = mi_manage_os_memory_ex(start, size, committed, false, true /* zero */, -1, exclusive, &id);
  if (!ok) {
    // the region may be too small after alignment: that is a legitimate refusal, but then nothing of it may be used
    char b[128]; snprintf(b, sizeof(b), "[refused nb=%zu off=%zu size=%zu] ", nb, off, size); g_geom += b;
    return;
  }
  size_t asz = 0; uint8_t* ab = (uint8_t*)mi_arena_area(id, &asz);
  if (ab == nullptr || ab < start || ab + asz > start + size)
    vf_trip("arena-area-outside-given", "C15", "mi_arena_area = [%p,+%zu) is not contained in the region [%p,+%zu) given to mi_manage_os_memory_ex", (void*)ab, asz, (void*)start, size);
  ArenaInfo ai; ai.id = id; ai.lo = (uintptr_t)ab; ai.hi = (uintptr_t)ab + asz; ai.given_lo = (uintptr_t)start; ai.given_hi = (uintptr_t)start + size; ai.exclusive = exclusive;
  S.arenas.push_back(ai);
  // the heap bound to the arena: plain, or one that can be destroyed (such a heap must never adopt abandoned pages), and sometimes a second one with a heap tag
  mi_heap_t* h = (vf_rng_chance(&S.rng, 1, 3) ? mi_heap_new_ex(0, true /* allow destroy */, id) : mi_heap_new_in_arena(id));
  if (h == nullptr) vf_trip("harness", "", "mi_heap_new_in_arena failed");
  HeapEnt e; e.h = h; e.alive = true; e.arena = (int)S.arenas.size() - 1;
  S.heaps.push_back(e);
  if (vf_rng_chance(&S.rng, 1, 2)) {
    mi_heap_t* ht = mi_heap_new_ex(1 + (int)vf_rng_below(&S.rng, 3), false, id);
    if (ht != nullptr) { HeapEnt et; et.h = ht; et.alive = true; et.arena = (int)S.arenas.size() - 1; S.heaps.push_back(et); g_ar_tagged_heaps++; }
  }
  g_ar_geoms++;
  // the arena is empty: a modest request from the heap bound to it must succeed (a bound heap refuses only when its arena is full) -- whatever the arena options say
  { void* q = mi_heap_malloc(h, 1000); if (q == nullptr) vf_trip("bound-heap-refuses-empty-arena", "C15,C13", "mi_heap_malloc(1000) from a heap bound to a fresh, empty arena of %zu blocks returned NULL", nb); mi_free(q); }
  char b[160]; snprintf(b, sizeof(b), "[arena#%zu blocks=%zu off=%zuK size=%zuK committed=%d excl=%d area=%zuMiB] ", S.arenas.size() - 1, nb, off / 1024, size / 1024, (int)committed, (int)exclusive, asz >> 20); g_geom += b;
}

static int bound_heap(State& S) {
  std::vector<int> c; for (size_t i = 1; i < S.heaps.size(); i++) if (S.heaps[i].alive && S.heaps[i].arena >= 0) c.push_back((int)i);
  return c.empty() ? -1 : c[vf_rng_below(&S.rng, c.size())];
}

static size_t arena_size_gen(State& S) {
  unsigned r = (unsigned)vf_rng_below(&S.rng, 100);
  if (r < 40) return 1 + (size_t)vf_rng_below(&S.rng, 2048);
  if (r < 70) return 2048 + (size_t)vf_rng_below(&S.rng, 60 * KiB);
  if (r < 90) return 64 * KiB + (size_t)vf_rng_below(&S.rng, 2 * MiB);
  if (r < 97) return 2 * MiB + (size_t)vf_rng_below(&S.rng, 20 * MiB);
  return 20 * MiB + (size_t)vf_rng_below(&S.rng, 60 * MiB);
}

// a thread with its own heap bound to arena j: allocates, then terminates with live blocks (its segments inside the arena are abandoned)
static void thread_in_arena(State& S, int j) {
  struct TB { void* p; size_t n; };
  std::vector<TB> out, out_unbound;
  mi_arena_id_t id = S.arenas[j].id;
  uint64_t seed = vf_rng_next(&S.rng);
  uintptr_t lo = S.arenas[j].lo, hi = S.arenas[j].hi;
  const bool excl = S.arenas[j].exclusive;
  bool bad = false; void* badp = nullptr;
  try {
    std::thread t([&]() {
      vf_rng_t r; vf_rng_seed(&r, seed);
      const unsigned kind = (unsigned)vf_rng_below(&r, 4);
      mi_heap_t* h = (kind == 0 ? mi_heap_new_ex(1 + (int)vf_rng_below(&r, 3), false, id) : kind == 1 ? mi_heap_new_ex(0, true, id) : mi_heap_new_in_arena(id));
      if (h == nullptr) return;
      // some blocks from an UNBOUND heap with a heap tag as well: when they are adopted later they must not end up in a heap that is bound to an arena
      if (vf_rng_chance(&r, 1, 2)) {
        mi_heap_t* hu = mi_heap_new_ex(1 + (int)vf_rng_below(&r, 3), false, (mi_arena_id_t)0);
        if (hu != nullptr) for (int i = 0; i < 20; i++) { size_t n = 1 + (size_t)vf_rng_below(&r, 3000); void* p = mi_heap_malloc(hu, n); if (p) { memset(p, 0x78, n); TB tb = { p, n }; out_unbound.push_back(tb); } }
      }
      for (int i = 0; i < 60; i++) {
        size_t n = 1 + (size_t)vf_rng_below(&r, (i % 10 == 0) ? 300 * KiB : 4000);
        void* p = mi_heap_malloc(h, n);
        if (p == nullptr) continue;
        if ((uintptr_t)p < lo || (uintptr_t)p + n > hi) { bad = true; badp = p; }
        memset(p, 0x77, n);
        TB tb = { p, n }; out.push_back(tb);
      }
      // the default heap of this thread must stay outside the exclusive arena
      for (int i = 0; i < 20; i++) { void* q = mi_malloc(500); if (q && excl && (uintptr_t)q >= lo && (uintptr_t)q < hi) { bad = true; badp = q; } mi_free(q); }
      mi_heap_delete(h);   // the heap goes away, its live blocks stay where they are (inside the arena)
      // ... but its pages must not become pages of this thread's default heap: allocations of the same size classes must still come from outside the exclusive arena
      if (excl) for (size_t i = 0; i < out.size(); i++) {
        void* q = mi_malloc(out[i].n);
        if (q && (uintptr_t)q >= lo && (uintptr_t)q < hi) { bad = true; badp = q; }
        mi_free(q);
      }
    });
    t.join();
  } catch (const std::system_error& e) { vf_trip("harness", "", "cannot create a thread: %s", e.what()); }
  if (bad) vf_trip("outside-bound-arena", "C15", "a thread's arena-bound heap / default heap returned %p on the wrong side of exclusive arena #%d [%p,%p)", badp, j, (void*)lo, (void*)hi);
  for (auto& tb : out_unbound) {
    if (excl && (uintptr_t)tb.p >= lo && (uintptr_t)tb.p < hi) vf_trip("exclusive-arena-leaked", "C15", "a thread's unbound tagged heap returned %p inside exclusive arena #%d", tb.p, j);
    out.push_back(tb);
  }
  for (auto& tb : out) {
    size_t u = mi_usable_size(tb.p);
    vf::Blk* b = S.sm.add(tb.p, tb.n, u, -1, 0, 0, false, EP_heap_malloc);
    S.sm.fill(b);
    S.foreign_live++; S.n_foreign++; g_ar_thread_blocks++;
  }
  g_ar_threads++; S.n_thread_exits++;
}

static void arena_print(FILE* f) {
  fprintf(f, ",\"arena\":{\"arenas\":%llu,\"bound_allocs\":%llu,\"other_allocs\":%llu,\"inside_checks\":%llu,\"outside_checks\":%llu,\"null_when_full\":%llu,\"threads\":%llu,\"thread_blocks\":%llu,\"geometry\":",
          (unsigned long long)g_ar_geoms, (unsigned long long)g_ar_bound_allocs, (unsigned long long)g_ar_other_allocs, (unsigned long long)G->n_arena_inside, (unsigned long long)G->n_arena_outside,
          (unsigned long long)G->n_arena_null, (unsigned long long)g_ar_threads, (unsigned long long)g_ar_thread_blocks);
  vf_json_str(f, g_geom.c_str());
  fputs("}", f);
}

void run_arena_profile(State& S) {
  add_result_printer(&arena_print);
  S.sm.refutes_generic = "C15";
  S.cfg.threads = true;      // conservation uses the range form (blocks of terminated threads)
  S.cfg.tolerate_enomem = true;
  S.cfg.tags_in_use = true;
  // some ordinary allocation first (so that the default heap has cached free spans), then the arenas
  for (int i = 0; i < 200; i++) do_alloc(S, EP_malloc, arena_size_gen(S) % (256 * KiB));
  int na = 1 + (int)vf_rng_below(&S.rng, 3);
  for (int j = 0; j < na; j++) make_arena(S, j == 0 ? true : vf_rng_chance(&S.rng, 2, 3));
  if (S.arenas.empty()) make_arena(S, true);
  // unbound heaps with the heap tags used above (pages are adopted into a heap with a matching tag -- which must still be on the right side of every exclusive arena)
  std::vector<int> unbound_tagged;
  for (int tag = 1; tag <= 3; tag++) { mi_heap_t* hu = mi_heap_new_ex(tag, false, (mi_arena_id_t)0); if (hu) { HeapEnt eu; eu.h = hu; eu.alive = true; eu.arena = -1; S.heaps.push_back(eu); unbound_tagged.push_back((int)S.heaps.size() - 1); } }
  static const int bound_eps[] = { EP_heap_malloc, EP_heap_zalloc, EP_heap_calloc, EP_heap_mallocn, EP_heap_malloc_small, EP_heap_malloc_aligned, EP_heap_zalloc_aligned_at, EP_heap_strdup };
  static const int other_eps[] = { EP_malloc, EP_zalloc, EP_calloc, EP_malloc_small, EP_malloc_aligned, EP_new_nothrow, EP_strdup, EP_posix_memalign };
  for (S.op_index = 0; S.op_index < S.cfg.ops; S.op_index++) {
    vf_cur_op = S.op_index;
    unsigned r = (unsigned)vf_rng_below(&S.rng, 100);
    bool over = (S.sm.live_bytes > S.cfg.max_live_bytes || S.sm.live.size() > 6000);
    if (r < 36 && !over) {
      int hi = bound_heap(S); if (hi < 0) continue;
      S.force_heap = hi;
      int ep = bound_eps[vf_rng_below(&S.rng, sizeof(bound_eps) / sizeof(bound_eps[0]))];
      size_t n = arena_size_gen(S);
      if (ep == EP_heap_malloc_small) n = n % 1024;
      S.cfg.size_cap = 8 * MiB;
      vf::Blk* b = do_alloc(S, ep, n);
      S.cfg.size_cap = 0;
      S.force_heap = -1;
      if (b) g_ar_bound_allocs++; else g_ar_full_events++;
    }
    else if (r < 62 && !over) {
      int ep = other_eps[vf_rng_below(&S.rng, sizeof(other_eps) / sizeof(other_eps[0]))];
      S.cfg.size_cap = 4 * MiB;
      if (!unbound_tagged.empty() && vf_rng_chance(&S.rng, 1, 3)) { S.force_heap = unbound_tagged[vf_rng_below(&S.rng, unbound_tagged.size())]; ep = (vf_rng_chance(&S.rng, 1, 2) ? EP_heap_malloc : EP_heap_zalloc); }
      vf::Blk* b = do_alloc(S, ep, arena_size_gen(S) % (3 * MiB));
      S.force_heap = -1;
      S.cfg.size_cap = 0;
      if (b) g_ar_other_allocs++;
    }
    else if (r < 90) {
      if (S.sm.live.empty()) continue;
      vf::Blk* b = S.sm.live[vf_rng_below(&S.rng, S.sm.live.size())];
      if (b->heap < 0) S.foreign_live--;
      do_free(S, b);
    }
    else if (r < 94) { int j = (int)vf_rng_below(&S.rng, S.arenas.size()); thread_in_arena(S, j); }
    else if (r < 97) { vf_cur_what = "collect"; mi_collect(vf_rng_chance(&S.rng, 1, 2)); }
    else {
      // fill a bound heap until it refuses: it must return NULL, never memory from elsewhere (checked by the range oracle on every block)
      int hi = bound_heap(S); if (hi < 0) continue;
      S.force_heap = hi;
      std::vector<vf::Blk*> got;
      for (int i = 0; i < 40; i++) { vf::Blk* b = do_alloc(S, EP_heap_malloc, 20 * MiB + (size_t)vf_rng_below(&S.rng, 10 * MiB)); if (!b) break; got.push_back(b); }
      S.force_heap = -1;
      for (vf::Blk* b : got) do_free(S, b);
    }
    if ((S.op_index & 255) == 255) { check_guards("periodic"); check_conservation(S, "periodic", "C15,C12"); }
    if ((S.op_index & 1023) == 1023) { S.sm.verify_all("periodic"); }
  }
  S.sm.verify_all("end");
  check_guards("end");
  free_all(S);
  mi_collect(true);
  check_guards("after freeing everything");
}

} // namespace seq
