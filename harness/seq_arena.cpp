#include "seq.hpp"
namespace seq {
void run_arena_profile(State&) {}
}
