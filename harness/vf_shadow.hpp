// vf_shadow.hpp -- shadow model of live blocks at the API boundary (single-thread exact index) + content patterns.
// Memory for the model comes from libc (mimalloc is linked without override).
#pragma once
#include <map>
#include <vector>
#include <string>
#include <cstdint>
#include <cstring>
#include <cstdio>
#include "vf_common.h"

namespace vf {
// the address of a returned block for alignment oracles: mimalloc.h declares the aligned entry points with __attribute__((alloc_align)), so the compiler may fold
// `(uintptr_t)p % a == 0` on their results to true; the empty asm makes the value opaque (pointed out by a seeding sub-agent of round 7 whose first demonstration passed for that reason)
static inline uintptr_t addr(const void* p) { __asm__ volatile("" : "+r"(p)); return (uintptr_t)p; }

static const size_t BIG  = 512 * 1024;   // blocks with more patterned bytes are patterned sparsely
static const size_t EDGE = 64 * 1024;
static const size_t PGSZ = 4096;

static inline uint8_t pat_byte(uint64_t id, size_t i) { return (uint8_t)(vf_pat_word(id, i >> 3) >> (8 * (i & 7))); }

// write (check==false) or compare (check==true) pattern bytes [from,to) of block `id` at base p.
// returns SIZE_MAX if ok, else the offset of the first mismatch.
static inline size_t pat_range(uint8_t* p, uint64_t id, size_t from, size_t to, bool check) {
  size_t i = from;
  while (i < to && (i & 7) != 0) { uint8_t b = pat_byte(id, i); if (check) { if (p[i] != b) return i; } else p[i] = b; i++; }
  while (i + 8 <= to) {
    uint64_t w = vf_pat_word(id, i >> 3);
    if (check) { uint64_t v; memcpy(&v, p + i, 8); if (v != w) { for (size_t k = 0; k < 8; k++) if (p[i + k] != pat_byte(id, i + k)) return i + k; } }
    else memcpy(p + i, &w, 8);
    i += 8;
  }
  while (i < to) { uint8_t b = pat_byte(id, i); if (check) { if (p[i] != b) return i; } else p[i] = b; i++; }
  return SIZE_MAX;
}

// sparse coverage for a fill length L: calls f(from,to) for every covered range intersected with [0,limit)
template <class F> static inline void coverage(uint64_t id, size_t L, size_t limit, F f) {
  if (limit > L) limit = L;
  if (L <= BIG) { if (limit > 0) f((size_t)0, limit); return; }
  if (limit > 0) f((size_t)0, (limit < EDGE ? limit : EDGE));
  size_t tail = L - EDGE;
  for (size_t pg = (EDGE + PGSZ - 1) / PGSZ; (pg + 1) * PGSZ <= tail; pg++) {
    size_t o = pg * PGSZ + (size_t)(vf_mix64(id ^ (pg * 0x9E3779B97F4A7C15ull)) % (PGSZ - 8));
    if (o >= limit) break;
    f(o, (o + 8 <= limit ? o + 8 : limit));
  }
  if (limit > tail) f(tail, limit);
}

struct Blk {
  uint8_t* p = nullptr;
  size_t   n = 0;        // requested size
  size_t   u = 0;        // mi_usable_size observed right after the allocation returned
  int      heap = 0;     // index of the owning heap in the driver's heap table
  size_t   align = 0, off = 0;   // alignment contract (0 = plain)
  bool     zt = false;   // zero tracked: from a zeroing entry point and only grown by rezalloc/recalloc since
  uint64_t id = 0;
  int      ep = 0;       // entry point that produced it
  size_t   fill = 0;     // bytes [0,fill) carry the pattern of `id`
  size_t   live_idx = 0;
};

struct Shadow {
  std::map<uintptr_t, Blk*> by_addr;
  std::map<uint64_t, Blk*> by_id;
  std::vector<Blk*> live;
  uint64_t next_id = 1;
  size_t   live_bytes = 0;
  uint64_t verified_blocks = 0, verified_bytes = 0;
  const char* refutes_generic = "C01";   // what overlap / contents trips refute in the running profile

  static void touch_begin(const void* p, size_t len) { vf_touch_lo = (uintptr_t)p; vf_touch_hi = (uintptr_t)p + len; vf_in_harness = 1; }
  static void touch_end() { vf_in_harness = 0; }

  Blk* find_intersecting(uintptr_t a, size_t len) const {
    auto it = by_addr.lower_bound(a);
    if (it != by_addr.end() && it->first < a + len) return it->second;
    if (it != by_addr.begin()) { --it; Blk* b = it->second; size_t bl = (b->u ? b->u : 1); if ((uintptr_t)b->p + bl > a) return b; }
    return nullptr;
  }
  Blk* find_exact(const void* p) const { auto it = by_addr.find((uintptr_t)p); return (it == by_addr.end() ? nullptr : it->second); }

  // register a block that an allocation call just returned; exact overlap test
  Blk* add(void* p, size_t n, size_t u, int heap, size_t align, size_t off, bool zt, int ep, uint64_t force_id = 0) {
    size_t len = (u ? u : 1);
    Blk* o = find_intersecting((uintptr_t)p, len);
    if (o != nullptr) {
      vf_trip("overlap", refutes_generic, "new block %p [n=%zu u=%zu ep=%d] intersects live block id=%llu %p [n=%zu u=%zu ep=%d]",
              p, n, u, ep, (unsigned long long)o->id, (void*)o->p, o->n, o->u, o->ep);
    }
    Blk* b = new Blk();
    b->p = (uint8_t*)p; b->n = n; b->u = u; b->heap = heap; b->align = align; b->off = off; b->zt = zt; b->ep = ep;
    b->id = (force_id ? force_id : next_id++);
    b->live_idx = live.size(); live.push_back(b);
    by_addr[(uintptr_t)p] = b;
    by_id[b->id] = b;
    live_bytes += u;
    return b;
  }
  // remove from the model (call BEFORE the block is handed to a freeing call)
  void remove(Blk* b) {
    by_addr.erase((uintptr_t)b->p);
    by_id.erase(b->id);
    Blk* last = live.back(); live[b->live_idx] = last; last->live_idx = b->live_idx; live.pop_back();
    live_bytes -= b->u;
    delete b;
  }
  void fill(Blk* b) {
    size_t L = (b->zt ? b->n : b->u);
    b->fill = L;
    touch_begin(b->p, L);
    coverage(b->id, L, L, [&](size_t from, size_t to) { pat_range(b->p, b->id, from, to, false); });
    touch_end();
  }
  // verify pattern of [0,limit) (limit defaults to the whole fill)
  void verify(Blk* b, const char* when, size_t limit = SIZE_MAX, const char* refutes = nullptr) {
    if (limit > b->fill) limit = b->fill;
    size_t bad = SIZE_MAX;
    touch_begin(b->p, b->fill);
    coverage(b->id, b->fill, limit, [&](size_t from, size_t to) { if (bad == SIZE_MAX) bad = pat_range(b->p, b->id, from, to, true); });
    touch_end();
    verified_blocks++; verified_bytes += limit;
    if (bad != SIZE_MAX) {
      vf_trip("contents", refutes ? refutes : refutes_generic, "%s: block id=%llu %p n=%zu u=%zu ep=%d: byte %zu is 0x%02x, expected 0x%02x",
              when, (unsigned long long)b->id, (void*)b->p, b->n, b->u, b->ep, bad, b->p[bad], pat_byte(b->id, bad));
    }
  }
  // verify that bytes of an OLD block (id,fill_len) moved/kept at q are intact over [0,limit)
  void verify_moved(uint8_t* q, uint64_t id, size_t fill_len, size_t limit, const char* when, const char* refutes) {
    if (limit > fill_len) limit = fill_len;
    size_t bad = SIZE_MAX;
    touch_begin(q, limit);
    coverage(id, fill_len, limit, [&](size_t from, size_t to) { if (bad == SIZE_MAX) bad = pat_range(q, id, from, to, true); });
    touch_end();
    if (bad != SIZE_MAX) vf_trip("realloc-prefix", refutes, "%s: byte %zu of the re-allocated block %p is 0x%02x, expected 0x%02x (old id=%llu, old fill=%zu, limit=%zu)",
                                 when, bad, (void*)q, q[bad], pat_byte(id, bad), (unsigned long long)id, fill_len, limit);
  }
  void verify_all(const char* when) { for (Blk* b : live) verify(b, when); }
};

// scan [from,to) of p for a non-zero byte; full scan up to 32 MiB, sampled beyond. returns SIZE_MAX if all zero.
static inline size_t first_nonzero(const uint8_t* p, size_t from, size_t to) {
  if (to <= from) return SIZE_MAX;
  Shadow::touch_begin(p + from, to - from);
  size_t res = SIZE_MAX;
  if (to - from <= 32u * 1024 * 1024) {
    size_t i = from;
    while (i < to && ((uintptr_t)(p + i) & 7) != 0) { if (p[i]) { res = i; goto done; } i++; }
    while (i + 8 <= to) { uint64_t v; memcpy(&v, p + i, 8); if (v) { for (size_t k = 0; k < 8; k++) if (p[i + k]) { res = i + k; goto done; } } i += 8; }
    while (i < to) { if (p[i]) { res = i; goto done; } i++; }
  }
  else {
    for (size_t i = from; i < from + EDGE; i++) if (p[i]) { res = i; goto done; }
    for (size_t i = to - EDGE; i < to; i++) if (p[i]) { res = i; goto done; }
    for (size_t a = from + EDGE; a + PGSZ <= to - EDGE; a += PGSZ) { for (size_t k = 0; k < 64; k++) if (p[a + k * 61 % PGSZ]) { res = a + k * 61 % PGSZ; goto done; } }
  }
done:
  Shadow::touch_end();
  return res;
}

} // namespace vf
