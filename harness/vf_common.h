/* vf_common.h -- shared by all drivers: PRNG, trip/result reporting, crash handler, error callback capture.
   Protocol with the python side: the last stdout line starting with "VFRESULT " is a JSON object.
   exit 0 = case ran to its end, no oracle tripped; exit 10 = an oracle tripped ("trip" in the JSON);
   exit 11 = crash inside the case (VFCRASH line); anything else = harness failure. */
#ifndef VF_COMMON_H
#define VF_COMMON_H
#include <stdint.h>
#include <stddef.h>
#include <stdio.h>
#include <stdlib.h>
#include <string.h>
#include <stdarg.h>
#include <signal.h>
#include <unistd.h>
#include <errno.h>

#ifdef __cplusplus
extern "C" {
#endif

/* ---------- PRNG ---------- */
typedef struct { uint64_t s; } vf_rng_t;
static inline uint64_t vf_mix64(uint64_t x) { x ^= x >> 33; x *= 0xff51afd7ed558ccdull; x ^= x >> 33; x *= 0xc4ceb9fe1a85ec53ull; x ^= x >> 33; return x; }
static inline void     vf_rng_seed(vf_rng_t* r, uint64_t seed) { r->s = vf_mix64(seed + 0x9E3779B97F4A7C15ull) | 1; }
static inline uint64_t vf_rng_next(vf_rng_t* r) { uint64_t x = r->s; x ^= x << 13; x ^= x >> 7; x ^= x << 17; r->s = x; return x * 0x2545F4914F6CDD1Dull; }
static inline uint64_t vf_rng_below(vf_rng_t* r, uint64_t n) { return (n == 0 ? 0 : (vf_rng_next(r) >> 11) % n); }
static inline int      vf_rng_chance(vf_rng_t* r, unsigned num, unsigned den) { return (vf_rng_below(r, den) < num); }

/* ---------- progress markers for crash reports ---------- */
/* per thread (the crash handler runs in the faulting thread) */
extern __thread volatile uint64_t    vf_cur_op;       /* index of the operation being executed */
extern __thread volatile const char* vf_cur_what;     /* name of the operation / phase */
extern __thread volatile int         vf_in_harness;   /* 1 while the harness itself touches block memory (a fault there is "live block not accessible") */
extern __thread volatile uintptr_t   vf_touch_lo, vf_touch_hi;  /* the range the harness is touching */

/* ---------- trip: an oracle refuted something ---------- */
/* refutes: comma separated property ids whose statement this observation refutes.  Never returns. */
void vf_trip(const char* oracle, const char* refutes, const char* fmt, ...) __attribute__((noreturn, format(printf, 3, 4)));
/* the driver supplies this: prints the body of the VFRESULT JSON object (without braces), e.g.  "ops":123,"x":1 */
extern void (*vf_result_body)(FILE* f);
void vf_finish_ok(void) __attribute__((noreturn));
void vf_install_crash_handler(void);
/* property under test and what a crash inside the allocator refutes in this profile (used by crash handler) */
extern const char* vf_crash_refutes;

/* ---------- mimalloc error callback capture ---------- */
#define VF_MAX_ERRS 64
extern volatile int vf_err_count;
extern volatile int vf_err_codes[VF_MAX_ERRS];
void vf_error_cb(int err, void* arg);         /* pass to mi_register_error */
void vf_output_cb(const char* msg, void* arg); /* pass to mi_register_output: keeps the last messages */
extern char vf_last_msgs[4096];
int  vf_err_seen(int code);
void vf_err_reset(void);

/* ---------- misc ---------- */
static inline uint64_t vf_pat_word(uint64_t id, uint64_t widx) {
  /* 8 pattern bytes for word `widx` of block `id`; no byte is ever 0 */
  return vf_mix64(id * 0x9E3779B97F4A7C15ull + widx + 1) | 0x0101010101010101ull;
}
const char* vf_getarg(int argc, char** argv, const char* name, const char* dflt);
long long   vf_getarg_ll(int argc, char** argv, const char* name, long long dflt);
void        vf_json_str(FILE* f, const char* s);

#ifdef __cplusplus
}
#endif
#endif
