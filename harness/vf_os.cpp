/* vf_os.c -- OS shim + ledger + fault plan + virtual clock (see vf_os.h). */
#ifndef _GNU_SOURCE
#define _GNU_SOURCE
#endif
#include "vf_os.h"
#include <map>
#include <vector>
#include <sys/mman.h>
#include <errno.h>
#include <stdlib.h>
#include <string.h>
#include <time.h>
#include <sched.h>
#include <unistd.h>

extern "C" {
void* __real_mmap(void* addr, size_t len, int prot, int flags, int fd, off_t off);
int   __real_munmap(void* addr, size_t len);
int   __real_mprotect(void* addr, size_t len, int prot);
int   __real_madvise(void* addr, size_t len, int advice);
int   __real_clock_gettime(clockid_t clk, struct timespec* ts);
void* __wrap_mmap(void* addr, size_t len, int prot, int flags, int fd, off_t off);
int   __wrap_munmap(void* addr, size_t len);
int   __wrap_mprotect(void* addr, size_t len, int prot);
int   __wrap_madvise(void* addr, size_t len, int advice);
int   __wrap_clock_gettime(clockid_t clk, struct timespec* ts);
}

void* vf_real_mmap(void* addr, size_t len, int prot, int flags, int fd, long off) { return __real_mmap(addr, len, prot, flags, fd, (off_t)off); }
int   vf_real_munmap(void* addr, size_t len) { return __real_munmap(addr, len); }
int   vf_real_mprotect(void* addr, size_t len, int prot) { return __real_mprotect(addr, len, prot); }

#define PG 4096u

// ledger: mapped address space as maximal runs [start,end) of equal (page state, ordinal); sparse, so a 64 TiB
// NORESERVE mapping costs one entry
struct Run { uintptr_t end; uint8_t st; uint64_t ordinal; };
static std::map<uintptr_t, Run>* g_runs = nullptr;
static inline std::map<uintptr_t, Run>& runs() { if (!g_runs) g_runs = new std::map<uintptr_t, Run>(); return *g_runs; }
static uint64_t  g_ordinal = 0;
static volatile int g_lock = 0;
static vf_os_counts_t g_cnt;
static int64_t   g_clock_off_ns = 0;
static vf_os_range_cb g_purge_cb = NULL;

typedef struct plan_s { int active; int cls; uint64_t k; int persistent; int err; int fired; } plan_t;
#define MAX_PLANS 8
static plan_t g_plans[MAX_PLANS];
static int    g_filter[VF_OS__NCLASS];
static uint64_t g_fcount[VF_OS__NCLASS];   /* calls counted for the fault plan (after the filter) */

static void lock(void)   { while (__atomic_exchange_n(&g_lock, 1, __ATOMIC_ACQUIRE)) { sched_yield(); } }
static void unlock(void) { __atomic_store_n(&g_lock, 0, __ATOMIC_RELEASE); }

void vf_os_plan_fault(int cls, uint64_t k, int persistent, int err) {
  lock();
  for (int i = 0; i < MAX_PLANS; i++) if (!g_plans[i].active) {
    g_plans[i].active = 1; g_plans[i].cls = cls; g_plans[i].k = k; g_plans[i].persistent = persistent; g_plans[i].err = err; g_plans[i].fired = 0;
    break;
  }
  unlock();
}
void vf_os_heal(void) { lock(); for (int i = 0; i < MAX_PLANS; i++) g_plans[i].active = 0; unlock(); }
void vf_os_plan_filter(int cls, int subkind) { g_filter[cls] = subkind; }

/* returns errno to inject or 0; caller holds no lock */
static int fault_check(int cls, int subkind) {
  int err = 0;
  lock();
  g_cnt.calls[cls]++;
  if (g_filter[cls] == 0 || g_filter[cls] == subkind) {
    uint64_t n = ++g_fcount[cls];
    for (int i = 0; i < MAX_PLANS; i++) {
      plan_t* p = &g_plans[i];
      if (!p->active || p->cls != cls) continue;
      if (n == p->k || (p->persistent && n > p->k)) { err = p->err; p->fired++; if (!p->persistent) p->active = 0; break; }
    }
  }
  if (err) g_cnt.injected[cls]++;
  unlock();
  return err;
}

void vf_clock_advance_ms(int64_t ms) { __atomic_fetch_add(&g_clock_off_ns, ms * 1000000ll, __ATOMIC_RELAXED); }
int64_t vf_clock_offset_ms(void) { return __atomic_load_n(&g_clock_off_ns, __ATOMIC_RELAXED) / 1000000ll; }
void vf_os_set_purge_cb(vf_os_range_cb cb) { g_purge_cb = cb; }

/* ---- ledger ---- */
// make sure a run boundary exists at address a (if a is inside a run)
static void split_at(uintptr_t a) {
  auto& m = runs();
  auto it = m.upper_bound(a);
  if (it == m.begin()) return;
  --it;
  if (it->first < a && a < it->second.end) { Run r = it->second; it->second.end = a; m[a] = r; }
}
static void reg_unmap(uintptr_t ub, size_t ulen) {
  auto& m = runs();
  uintptr_t ue = ub + ulen;
  split_at(ub); split_at(ue);
  auto it = m.lower_bound(ub);
  while (it != m.end() && it->first < ue) it = m.erase(it);
}
static void reg_add(uintptr_t base, size_t len, uint8_t st, uint64_t ordinal) {
  Run r; r.end = base + len; r.st = st; r.ordinal = ordinal;
  runs()[base] = r;
}
/* set state over [a,a+len): returns 1 if some part was inside known regions */
static int reg_set_state(uintptr_t a, size_t len, int newstate) {
  auto& m = runs();
  uintptr_t e = a + len; int found = 0;
  a &= ~(uintptr_t)(PG - 1); e = (e + PG - 1) & ~(uintptr_t)(PG - 1);
  split_at(a); split_at(e);
  for (auto it = m.lower_bound(a); it != m.end() && it->first < e; ++it) {
    if (newstate == VF_PG_PURGED) { if (it->second.st == VF_PG_RW) it->second.st = VF_PG_PURGED; }
    else it->second.st = (uint8_t)newstate;
    found = 1;
  }
  return found;
}

void* __wrap_mmap(void* addr, size_t len, int prot, int flags, int fd, off_t off) {
  int err = fault_check(VF_OS_MMAP, 0);
  if (err) { errno = err; return MAP_FAILED; }
  void* p = __real_mmap(addr, len, prot, flags, fd, off);
  lock();
  if (p == MAP_FAILED) g_cnt.failed_real[VF_OS_MMAP]++;
  else {
    g_cnt.mmap_bytes += len;
    if (flags & MAP_FIXED) reg_unmap((uintptr_t)p, len);
    reg_add((uintptr_t)p, len, (prot & PROT_WRITE) ? VF_PG_RW : VF_PG_NONE, ++g_ordinal);
  }
  unlock();
  return p;
}

int __wrap_munmap(void* addr, size_t len) {
  int err = fault_check(VF_OS_MUNMAP, 0);
  if (err) { errno = err; return -1; }
  int r = __real_munmap(addr, len);
  lock();
  if (r != 0) g_cnt.failed_real[VF_OS_MUNMAP]++;
  else { g_cnt.munmap_bytes += len; reg_unmap((uintptr_t)addr, len); }
  unlock();
  return r;
}

int __wrap_mprotect(void* addr, size_t len, int prot) {
  int none = ((prot & (PROT_READ | PROT_WRITE)) == 0);
  if (none && g_purge_cb) g_purge_cb(VF_OS_MPROTECT, addr, len, prot);
  int err = fault_check(VF_OS_MPROTECT, none ? 1 : 2);
  if (err) { errno = err; return -1; }
  int r = __real_mprotect(addr, len, prot);
  lock();
  if (r != 0) g_cnt.failed_real[VF_OS_MPROTECT]++;
  else {
    if (none) { g_cnt.purge_calls++; g_cnt.purge_bytes += len; } else g_cnt.commit_calls++;
    if (!reg_set_state((uintptr_t)addr, len, none ? VF_PG_NONE : VF_PG_RW)) g_cnt.unknown_range_calls++;
  }
  unlock();
  return r;
}

int __wrap_madvise(void* addr, size_t len, int advice) {
  int purge = (advice == MADV_DONTNEED
#ifdef MADV_FREE
               || advice == MADV_FREE
#endif
              );
  if (purge && g_purge_cb) g_purge_cb(VF_OS_MADVISE, addr, len, advice);
  int err = fault_check(VF_OS_MADVISE, purge ? 1 : 2);
  if (err) { errno = err; return -1; }
  int r = __real_madvise(addr, len, advice);
  lock();
  if (r != 0) g_cnt.failed_real[VF_OS_MADVISE]++;
  else if (purge) {
    g_cnt.purge_calls++; g_cnt.purge_bytes += len;
    if (!reg_set_state((uintptr_t)addr, len, VF_PG_PURGED)) g_cnt.unknown_range_calls++;
  }
  unlock();
  return r;
}

int __wrap_clock_gettime(clockid_t clk, struct timespec* ts) {
  int r = __real_clock_gettime(clk, ts);
  __atomic_fetch_add(&g_cnt.clock_calls, 1, __ATOMIC_RELAXED);
  if (r == 0) {
    int64_t off = __atomic_load_n(&g_clock_off_ns, __ATOMIC_RELAXED);
    int64_t ns = (int64_t)ts->tv_nsec + off % 1000000000ll;
    ts->tv_sec += (time_t)(off / 1000000000ll);
    if (ns >= 1000000000ll) { ns -= 1000000000ll; ts->tv_sec++; }
    ts->tv_nsec = (long)ns;
  }
  return r;
}

void vf_os_get_counts(vf_os_counts_t* out) { lock(); *out = g_cnt; unlock(); }

// regions = maximal address ranges with the same mapping ordinal
size_t vf_os_regions(vf_os_region_t* out, size_t max) {
  lock();
  size_t n = 0;
  uintptr_t cb = 0, ce = 0; uint64_t co = 0; bool open = false;
  for (auto& kv : runs()) {
    if (open && kv.first == ce && kv.second.ordinal == co) { ce = kv.second.end; continue; }
    if (open) { if (out && n < max) { out[n].base = cb; out[n].len = ce - cb; out[n].ordinal = co; } n++; }
    cb = kv.first; ce = kv.second.end; co = kv.second.ordinal; open = true;
  }
  if (open) { if (out && n < max) { out[n].base = cb; out[n].len = ce - cb; out[n].ordinal = co; } n++; }
  unlock();
  return (out && n > max ? max : n);
}
size_t vf_os_mapped_bytes(void) { lock(); size_t s = 0; for (auto& kv : runs()) s += kv.second.end - kv.first; unlock(); return s; }

size_t vf_os_state_bytes(int state) {
  lock(); size_t s = 0;
  for (auto& kv : runs()) if (kv.second.st == state) s += kv.second.end - kv.first;
  unlock(); return s;
}

size_t vf_os_committed_resident(uintptr_t base, size_t len) {
  size_t total = 0;
  static unsigned char vec[16384];
  lock();
  for (auto& kv : runs()) {
    if (kv.second.st != VF_PG_RW) continue;
    uintptr_t b = kv.first, e = kv.second.end;
    if (base != 0) { if (base + len <= b || base >= e) continue; if (base > b) b = base; if (base + len < e) e = base + len; }
    b &= ~(uintptr_t)(PG - 1);
    for (uintptr_t a = b; a < e; ) {
      size_t chunk = e - a; if (chunk > sizeof(vec) * (size_t)PG) chunk = sizeof(vec) * (size_t)PG;
      size_t np = (chunk + PG - 1) / PG;
      if (mincore((void*)a, chunk, vec) == 0) { for (size_t p = 0; p < np; p++) if (vec[p] & 1) total += PG; }
      a += chunk;
    }
  }
  unlock();
  return total;
}

int vf_os_page_state(const void* p) {
  uintptr_t a = (uintptr_t)p; int st = -1;
  lock();
  auto& m = runs();
  auto it = m.upper_bound(a);
  if (it != m.begin()) { --it; if (a < it->second.end) st = it->second.st; }
  unlock();
  return st;
}

void vf_os_dump_regions(FILE* f, size_t max) {
  std::vector<vf_os_region_t> v(max ? max : 1);
  size_t n = vf_os_regions(v.data(), max);
  fputc('[', f);
  for (size_t i = 0; i < n && i < max; i++) fprintf(f, "%s[\"0x%lx\",%zu,%llu]", (i ? "," : ""), (unsigned long)v[i].base, v[i].len, (unsigned long long)v[i].ordinal);
  fputc(']', f);
}
