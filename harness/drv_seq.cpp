// drv_seq.cpp -- single-thread API history driver with an exact shadow model.
// One process = one case: (variant, environment, profile, seed, ops).
#include "seq.hpp"
#include <thread>
#include <climits>
#include <atomic>
#include <new>
#include <algorithm>
#include <system_error>

namespace seq {

const char* const ep_names[EP__N] = {
#define X(n) #n,
  VF_EPS(X)
#undef X
};

State* G = nullptr;

static const size_t KiB = 1024, MiB = 1024 * 1024;
static const size_t SMALL_OBJ_MAX = 8 * KiB, MEDIUM_OBJ_MAX = 64 * KiB, LARGE_OBJ_MAX = 16 * MiB, ALIGN_MAX_OFFSETTABLE = 16 * MiB;

// what do the generic oracles (overlap, contents, crash, unexpected error) refute in this profile?
const char* generic_refutes() {
  if (!G->cfg.generic.empty()) return G->cfg.generic.c_str();
  const std::string& p = G->cfg.profile;
  if (p == "general")  return "C01";
  if (p == "aligned")  return "C03";
  if (p == "realloc")  return "C05";
  if (p == "heaps")    return "C10";
  if (p == "malformed") return "C06";
  if (p == "hardening") return "C17";
  if (p == "options")  return "C13";
  if (p == "faults")   return "C07";
  if (p == "arena")    return "C15";
  return "C01";  // zero, walk, ledger, purge: a crash / overlap there is a C01-type failure (collateral for their own checks)
}

static inline uint64_t rnd(State& S) { return vf_rng_next(&S.rng); }
static inline uint64_t below(State& S, uint64_t n) { return vf_rng_below(&S.rng, n); }
static inline bool chance(State& S, unsigned num, unsigned den) { return vf_rng_chance(&S.rng, num, den) != 0; }
static inline void hmix(State& S, uint64_t v) { S.hash = (S.hash ^ v) * 1099511628211ull; }

#define TRACE(S, ...) do { if ((S).cfg.trace) { fprintf(stderr, "[%llu] ", (unsigned long long)(S).op_index); fprintf(stderr, __VA_ARGS__); fputc('\n', stderr); } } while (0)

static void check_errors(State& S, const char* what) {
  if (vf_err_count != 0 && S.cfg.tags_in_use) {
    // heap tags: when a thread that has no heap with tag t adopts a page with tag t, mimalloc reports "page with tag t cannot be reclaimed by a heap with the same tag"
    // (EFAULT) by design and uses the adopting heap; release builds deliver the code without the text
    int n = vf_err_count; if (n > VF_MAX_ERRS) n = VF_MAX_ERRS;
    bool only = true;
    for (int i = 0; i < n; i++) if (vf_err_codes[i] != EFAULT && !(vf_err_codes[i] == ENOMEM && (S.cfg.allow_null || S.cfg.tolerate_enomem))) only = false;
    // (debug builds print the text for the first `max_errors` reports only; after that the code arrives without any text)
    // (debug builds print the text for the first `max_errors` reports only; after that the code arrives without its text, so the text cannot be required)
    if (only) { vf_err_reset(); return; }
  }
  if (vf_err_count != 0 && (S.cfg.allow_null || S.cfg.tolerate_enomem)) {
    // under injected OS refusals "out of memory" reports are expected; anything else is not
    int n = vf_err_count; if (n > VF_MAX_ERRS) n = VF_MAX_ERRS;
    bool only_nomem = true;
    for (int i = 0; i < n; i++) if (vf_err_codes[i] != ENOMEM) only_nomem = false;
    if (only_nomem) { vf_err_reset(); return; }
  }
  if (vf_err_count != 0) {
    int code = vf_err_codes[0];
    vf_trip("unexpected-error", generic_refutes(), "%s: mimalloc reported error %d (%s) during a well-formed operation: %s", what, code, strerror(code), vf_last_msgs);
  }
  (void)S;
}

// ------------------------------------------------------------------------------------------------
// sizes, alignments
// ------------------------------------------------------------------------------------------------
static size_t around_boundary(State& S, size_t k) {
  size_t g = mi_good_size(k);
  switch (below(S, 5)) {
    case 0: return (g > 0 ? g - 1 : 0);
    case 1: return g;
    case 2: return g + 1;
    default: return k;
  }
}

size_t gen_size(State& S) {
  size_t cap = (S.cfg.size_cap ? (size_t)S.cfg.size_cap : SIZE_MAX);
  size_t n;
  if (S.cfg.size_mode == 1 && chance(S, 7, 10)) {
    unsigned q = (unsigned)below(S, 100);
    if (q < 50) n = 1 * MiB + (size_t)below(S, 7 * MiB);
    else if (q < 80) n = 8 * MiB + (size_t)below(S, 10 * MiB);
    else if (q < 97) n = LARGE_OBJ_MAX - 4096 + (size_t)below(S, 24 * MiB);
    else n = 64 * MiB + (size_t)below(S, 40 * MiB);
    return (n > cap ? cap : n);
  }
  unsigned r = (unsigned)below(S, 100);
  static const size_t specials[] = { 0, 1, 7, 8, 9, 15, 16, 17, 24, 31, 32, 33, 48, 63, 64, 65, 1023, 1024, 1025 };
  if (r < 5) n = specials[below(S, sizeof(specials) / sizeof(specials[0]))];
  else if (r < 45) n = around_boundary(S, 1 + (size_t)below(S, 1024));
  else if (r < 68) n = around_boundary(S, 1025 + (size_t)below(S, SMALL_OBJ_MAX - 1024));
  else if (r < 84) n = around_boundary(S, SMALL_OBJ_MAX - 8 + (size_t)below(S, MEDIUM_OBJ_MAX - SMALL_OBJ_MAX + 16));
  else if (r < 94) {
    static const size_t marks[] = { 64 * KiB, 128 * KiB, 512 * KiB, 1 * MiB, 2 * MiB };
    if (chance(S, 1, 3)) { size_t m = marks[below(S, 5)]; n = m - 2 + (size_t)below(S, 5); }
    else n = MEDIUM_OBJ_MAX + (size_t)below(S, 2 * MiB - MEDIUM_OBJ_MAX);
  }
  else if (r < 98) {
    if (chance(S, 1, 2)) n = LARGE_OBJ_MAX - 2 + (size_t)below(S, 5);
    else n = 2 * MiB + (size_t)below(S, 14 * MiB);
  }
  else {
    if (chance(S, 1, 6)) n = 64 * MiB + (size_t)below(S, 66 * MiB);
    else n = LARGE_OBJ_MAX + 1 + (size_t)below(S, 32 * MiB);
  }
  if (n > cap) n = (size_t)below(S, cap + 1);
  return n;
}

static void gen_align(State& S, size_t n, size_t* pa, size_t* po) {
  size_t a, o;
  unsigned r = (unsigned)below(S, 100);
  unsigned k;
  if (r < 50) k = (unsigned)below(S, 13);             // 1 .. 4 KiB
  else if (r < 85) k = 12 + (unsigned)below(S, 8);    // 4 KiB .. 512 KiB
  else if (r < 95) k = 19 + (unsigned)below(S, 6);    // 512 KiB .. 16 MiB
  else k = 25 + (unsigned)below(S, 3);                // 32 .. 128 MiB  (> half a segment: offset must be 0)
  a = (size_t)1 << k;
  unsigned ro = (unsigned)below(S, 100);
  if (a > ALIGN_MAX_OFFSETTABLE || ro < 40) o = 0;
  else if (ro < 60) o = (n > 0 ? (size_t)below(S, n) : 0);
  else if (ro < 70) o = n + (size_t)below(S, 4096);
  else if (ro < 82) o = (size_t)below(S, 2048) * 2 + 1;     // odd
  else if (ro < 92) o = a * (1 + (size_t)below(S, 3));      // multiple of a
  else o = (size_t)below(S, 64) * 8;
  if (S.cfg.debug) o &= ~(size_t)7;   // MI_DEBUG builds reject pointers that are not word aligned (known finding C03-dbg-unaligned; exercised by a dedicated case)
  *pa = a; *po = o;
}

// ------------------------------------------------------------------------------------------------
// allocation
// ------------------------------------------------------------------------------------------------
static int pick_heap(State& S, bool allow_backing = true) {
  if (S.force_heap >= 0 && S.heaps[S.force_heap].alive) return S.force_heap;
  std::vector<int> c;
  for (size_t i = (allow_backing ? 0 : 1); i < S.heaps.size(); i++) if (S.heaps[i].alive && S.heaps[i].arena < 0) c.push_back((int)i);
  if (c.empty()) return (allow_backing ? 0 : -1);
  return c[below(S, c.size())];
}

static void split_count(State& S, size_t n, size_t* count, size_t* size) {
  static const size_t sizes[] = { 1, 2, 3, 4, 7, 8, 16, 24, 40, 64 };
  size_t sz = sizes[below(S, 10)];
  if (n == 0) { *count = (chance(S, 1, 2) ? 0 : 5); *size = (*count == 0 ? sz : 0); return; }
  if (chance(S, 1, 4)) { *count = 1; *size = n; return; }
  *size = sz; *count = (n + sz - 1) / sz;
}

static int choose_alloc_ep(State& S) {
  const std::string& pr = S.cfg.profile;
  unsigned aligned_pct = 12, zero_pct = 30, heap_pct = 25, posix_pct = 6, new_pct = 5, str_pct = 2;
  if (pr == "aligned") { aligned_pct = 80; posix_pct = 10; zero_pct = 30; }
  else if (pr == "zero") { zero_pct = 80; aligned_pct = 25; new_pct = 0; str_pct = 0; posix_pct = 2; }
  else if (pr == "heaps") { heap_pct = 80; }
  else if (pr == "walk") { aligned_pct = 10; }
  bool zero = chance(S, zero_pct, 100), heap = chance(S, heap_pct, 100);
  unsigned r = (unsigned)below(S, 100);
  if (r < str_pct) { static const int e[] = { EP_strdup, EP_strndup, EP_heap_strdup, EP_heap_strndup, EP_strdup, EP_strndup, EP_wcsdup, EP_mbsdup, EP_dupenv_s }; return e[below(S, 9)]; }
  r -= str_pct;
  if (r < new_pct && !zero) {
    if (S.cfg.allow_null) return (chance(S, 1, 2) ? EP_new_nothrow : EP_new_aligned_nothrow);
    static const int e[] = { EP_new_, EP_new_nothrow, EP_new_aligned, EP_new_aligned_nothrow, EP_new_n, EP_heap_alloc_new, EP_heap_alloc_new_n }; return e[below(S, 7)];
  }
  r -= (r < new_pct ? r : new_pct);
  if (r < posix_pct && !zero) { static const int e[] = { EP_posix_memalign, EP_memalign, EP_aligned_alloc, EP_valloc, EP_pvalloc }; return e[below(S, 5)]; }
  if (chance(S, aligned_pct, 100)) {
    bool at = chance(S, 1, 2);
    if (heap) { if (zero) { static const int e[] = { EP_heap_zalloc_aligned, EP_heap_calloc_aligned, EP_heap_zalloc_aligned_at, EP_heap_calloc_aligned_at }; return e[(at ? 2 : 0) + below(S, 2)]; }
                return (at ? EP_heap_malloc_aligned_at : EP_heap_malloc_aligned); }
    if (zero) { static const int e[] = { EP_zalloc_aligned, EP_calloc_aligned, EP_zalloc_aligned_at, EP_calloc_aligned_at }; return e[(at ? 2 : 0) + below(S, 2)]; }
    return (at ? EP_malloc_aligned_at : EP_malloc_aligned);
  }
  if (heap) { if (zero) return (chance(S, 1, 2) ? EP_heap_zalloc : EP_heap_calloc);
              static const int e[] = { EP_heap_malloc, EP_heap_mallocn, EP_heap_malloc_small }; return e[below(S, 3)]; }
  if (zero) { static const int e[] = { EP_zalloc, EP_calloc, EP_zalloc_small }; return e[below(S, 3)]; }
  static const int e[] = { EP_malloc, EP_malloc, EP_mallocn, EP_malloc_small }; return e[below(S, 4)];
}

static bool ep_is_zero(int ep) {
  switch (ep) {
    case EP_zalloc: case EP_calloc: case EP_zalloc_small: case EP_heap_zalloc: case EP_heap_calloc:
    case EP_zalloc_aligned: case EP_calloc_aligned: case EP_zalloc_aligned_at: case EP_calloc_aligned_at:
    case EP_heap_zalloc_aligned: case EP_heap_calloc_aligned: case EP_heap_zalloc_aligned_at: case EP_heap_calloc_aligned_at:
      return true;
    default: return false;
  }
}

static void note_alloc_evidence(State& S, size_t n, size_t u) {
  if (n <= MEDIUM_OBJ_MAX) S.bins_hit.insert(mi_good_size(n));
  size_t k = (u <= SMALL_OBJ_MAX ? 0 : u <= MEDIUM_OBJ_MAX ? 1 : u <= LARGE_OBJ_MAX ? 2 : 3);
  S.kind_hits[k]++;
  if (S.sm.live.size() > S.max_live_blocks) S.max_live_blocks = S.sm.live.size();
  if (S.sm.live_bytes > S.max_live_bytes) S.max_live_bytes = S.sm.live_bytes;
}

// C15: a heap bound to an arena only returns memory inside it; memory of an exclusive arena is never given to other heaps
void arena_range_check(State& S, const void* p, size_t len, int heap_idx, const char* what) {
  if (S.arenas.empty() || heap_idx < 0) return;
  uintptr_t a = (uintptr_t)p, e = a + (len ? len : 1);
  int bound = S.heaps[heap_idx].arena;
  if (bound >= 0) {
    const ArenaInfo& ai = S.arenas[bound];
    if (a < ai.lo || e > ai.hi) vf_trip("outside-bound-arena", "C15", "%s from a heap bound to arena #%d returned [%p,+%zu) which is not inside the arena [%p,%p)", what, bound, p, len, (void*)ai.lo, (void*)ai.hi);
    S.n_arena_inside++;
  }
  else {
    for (size_t j = 0; j < S.arenas.size(); j++) {
      const ArenaInfo& ai = S.arenas[j];
      if (ai.exclusive && a < ai.given_hi && e > ai.given_lo)
        vf_trip("exclusive-arena-leaked", "C15", "%s from heap #%d (not bound to it) returned [%p,+%zu) inside exclusive arena #%zu [%p,%p)", what, heap_idx, p, len, j, (void*)ai.given_lo, (void*)ai.given_hi);
    }
    S.n_arena_outside++;
  }
}

// checks on a freshly returned block; registers it in the shadow model and patterns it
static vf::Blk* accept_block(State& S, void* p, size_t n, int heap, size_t a, size_t o, bool zero, int ep, bool skip_fill = false) {
  if (S.region_check && !mi_is_in_heap_region(p) && vf_os_page_state(p) < 0)
    vf_trip("outside-heap", "C17", "%s(n=%zu) returned %p which is outside every region the allocator obtained from the OS", ep_names[ep], n, p);
  size_t u = mi_usable_size(p);
  if (u < n) vf_trip("usable-size", "C03", "%s(n=%zu): mi_usable_size=%zu < requested", ep_names[ep], n, u);
  if (a != 0) {
    if (((vf::addr(p) + o) & (a - 1)) != 0) vf_trip("alignment", "C03", "%s(n=%zu, align=%zu, offset=%zu) returned %p: (p+offset) %% align = %zu", ep_names[ep], n, a, o, p, (size_t)(((uintptr_t)p + o) & (a - 1)));
    S.n_aligned++; S.align_hist[a]++;
  }
  else {
    size_t need = (n >= 16 ? 16 : 8);
    if ((vf::addr(p) & (need - 1)) != 0) vf_trip("alignment", "C03", "%s(n=%zu) returned %p which is not %zu-byte aligned", ep_names[ep], n, p, need);
  }
  if (zero) {
    size_t bad = vf::first_nonzero((const uint8_t*)p, 0, n);
    S.n_zero_checked++; S.n_zero_bytes += n;
    if (S.dirty_freed.count((uintptr_t)p)) S.n_zero_reused_dirty++;
    if (bad != SIZE_MAX) vf_trip("not-zero", "C04", "%s(n=%zu, align=%zu, offset=%zu) returned %p: byte %zu is 0x%02x", ep_names[ep], n, a, o, p, bad, ((uint8_t*)p)[bad]);
  }
  arena_range_check(S, p, u, heap, ep_names[ep]);
  vf::Blk* b = S.sm.add(p, n, u, heap, a, o, zero, ep);
  if (!skip_fill) S.sm.fill(b);
  S.n_alloc++; S.ep_count[ep]++;
  note_alloc_evidence(S, n, u);
  return b;
}

vf::Blk* do_alloc(State& S, int force_ep, size_t force_size) {
  int ep = (force_ep >= 0 ? force_ep : choose_alloc_ep(S));
  size_t n = (force_size != SIZE_MAX ? force_size : gen_size(S));
  size_t a = 0, o = 0, cnt = 0, sz = 0;
  int hi = S.cur_default;   // heap the block will belong to
  mi_heap_t* h = nullptr;
  void* p = nullptr;
  bool zero = ep_is_zero(ep);
  bool is_str = false;
  // a NULL pointer makes the realloc family behave as the corresponding allocation (incl. zero initialisation): one call in 8 goes that way
  const bool via_null = (force_ep < 0 && chance(S, 1, 8));
  vf_cur_what = ep_names[ep];
  switch (ep) {
    case EP_malloc: if (via_null) { S.n_alloc_via_realloc_null++; switch (below(S, 3)) { case 0: p = mi_realloc(nullptr, n); break; case 1: p = mi_reallocf(nullptr, n); break; default: p = mi_reallocn(nullptr, 1, n); break; } } else p = mi_malloc(n); break;
    case EP_zalloc: if (via_null) { S.n_alloc_via_realloc_null++; p = (chance(S, 1, 2) ? mi_rezalloc(nullptr, n) : mi_recalloc(nullptr, 1, n)); } else p = mi_zalloc(n); break;
    case EP_calloc: split_count(S, n, &cnt, &sz); n = cnt * sz; p = mi_calloc(cnt, sz); break;
    case EP_mallocn: split_count(S, n, &cnt, &sz); n = cnt * sz; p = mi_mallocn(cnt, sz); break;
    case EP_malloc_small: if (n > MI_SMALL_SIZE_MAX) n = (size_t)below(S, MI_SMALL_SIZE_MAX + 1); p = mi_malloc_small(n); break;
    case EP_zalloc_small: if (n > MI_SMALL_SIZE_MAX) n = (size_t)below(S, MI_SMALL_SIZE_MAX + 1); p = mi_zalloc_small(n); break;
    case EP_heap_malloc: hi = pick_heap(S); h = S.heaps[hi].h; if (via_null) { S.n_alloc_via_realloc_null++; p = mi_heap_realloc(h, nullptr, n); } else p = mi_heap_malloc(h, n); break;
    case EP_heap_zalloc: hi = pick_heap(S); h = S.heaps[hi].h; if (via_null) { S.n_alloc_via_realloc_null++; p = (chance(S, 1, 2) ? mi_heap_rezalloc(h, nullptr, n) : mi_heap_recalloc(h, nullptr, 1, n)); } else p = mi_heap_zalloc(h, n); break;
    case EP_heap_calloc: hi = pick_heap(S); h = S.heaps[hi].h; split_count(S, n, &cnt, &sz); n = cnt * sz; p = mi_heap_calloc(h, cnt, sz); break;
    case EP_heap_mallocn: hi = pick_heap(S); h = S.heaps[hi].h; split_count(S, n, &cnt, &sz); n = cnt * sz; p = mi_heap_mallocn(h, cnt, sz); break;
    case EP_heap_malloc_small: hi = pick_heap(S); h = S.heaps[hi].h; if (n > MI_SMALL_SIZE_MAX) n = (size_t)below(S, MI_SMALL_SIZE_MAX + 1); p = mi_heap_malloc_small(h, n); break;
    case EP_malloc_aligned: gen_align(S, n, &a, &o); o = 0; if (via_null) { S.n_alloc_via_realloc_null++; p = mi_realloc_aligned(nullptr, n, a); } else p = mi_malloc_aligned(n, a); break;
    case EP_zalloc_aligned: gen_align(S, n, &a, &o); o = 0; if (via_null) { S.n_alloc_via_realloc_null++; p = (chance(S, 1, 2) ? mi_rezalloc_aligned(nullptr, n, a) : mi_recalloc_aligned(nullptr, 1, n, a)); } else p = mi_zalloc_aligned(n, a); break;
    case EP_calloc_aligned: gen_align(S, n, &a, &o); o = 0; split_count(S, n, &cnt, &sz); n = cnt * sz; p = mi_calloc_aligned(cnt, sz, a); break;
    case EP_malloc_aligned_at: gen_align(S, n, &a, &o); if (via_null) { S.n_alloc_via_realloc_null++; p = mi_realloc_aligned_at(nullptr, n, a, o); } else p = mi_malloc_aligned_at(n, a, o); break;
    case EP_zalloc_aligned_at: gen_align(S, n, &a, &o); if (via_null) { S.n_alloc_via_realloc_null++; p = mi_rezalloc_aligned_at(nullptr, n, a, o); } else p = mi_zalloc_aligned_at(n, a, o); break;
    case EP_calloc_aligned_at: gen_align(S, n, &a, &o); split_count(S, n, &cnt, &sz); n = cnt * sz; p = mi_calloc_aligned_at(cnt, sz, a, o); break;
    case EP_heap_malloc_aligned: hi = pick_heap(S); h = S.heaps[hi].h; gen_align(S, n, &a, &o); o = 0; p = mi_heap_malloc_aligned(h, n, a); break;
    case EP_heap_zalloc_aligned: hi = pick_heap(S); h = S.heaps[hi].h; gen_align(S, n, &a, &o); o = 0; p = mi_heap_zalloc_aligned(h, n, a); break;
    case EP_heap_calloc_aligned: hi = pick_heap(S); h = S.heaps[hi].h; gen_align(S, n, &a, &o); o = 0; split_count(S, n, &cnt, &sz); n = cnt * sz; p = mi_heap_calloc_aligned(h, cnt, sz, a); break;
    case EP_heap_malloc_aligned_at: hi = pick_heap(S); h = S.heaps[hi].h; gen_align(S, n, &a, &o); p = mi_heap_malloc_aligned_at(h, n, a, o); break;
    case EP_heap_zalloc_aligned_at: hi = pick_heap(S); h = S.heaps[hi].h; gen_align(S, n, &a, &o); p = mi_heap_zalloc_aligned_at(h, n, a, o); break;
    case EP_heap_calloc_aligned_at: hi = pick_heap(S); h = S.heaps[hi].h; gen_align(S, n, &a, &o); split_count(S, n, &cnt, &sz); n = cnt * sz; p = mi_heap_calloc_aligned_at(h, cnt, sz, a, o); break;
    case EP_posix_memalign: {
      gen_align(S, n, &a, &o); o = 0; if (a < sizeof(void*)) a = sizeof(void*);
      void* q = (void*)(uintptr_t)0x5a5a; int rc = mi_posix_memalign(&q, a, n);
      if (rc == 0) p = q;
      else { if (q != (void*)(uintptr_t)0x5a5a) vf_trip("posix-memalign-outparam", "C06", "mi_posix_memalign(align=%zu,n=%zu) failed with %d but modified *p", a, n, rc);
             if (rc != ENOMEM) vf_trip("posix-memalign-code", "C06", "mi_posix_memalign(align=%zu,n=%zu) returned %d for a well-formed request", a, n, rc); p = nullptr; }
      break; }
    case EP_memalign: gen_align(S, n, &a, &o); o = 0; p = mi_memalign(a, n); break;
    case EP_aligned_alloc: gen_align(S, n, &a, &o); o = 0; p = mi_aligned_alloc(a, n); break;
    case EP_valloc: a = 4096; p = mi_valloc(n); break;
    case EP_pvalloc: a = 4096; n = (n + 4095) & ~(size_t)4095; p = mi_pvalloc(n); break;
    case EP_new_: p = mi_new(n); break;
    case EP_new_nothrow: p = mi_new_nothrow(n); break;
    case EP_new_aligned: gen_align(S, n, &a, &o); o = 0; p = mi_new_aligned(n, a); break;
    case EP_new_aligned_nothrow: gen_align(S, n, &a, &o); o = 0; p = mi_new_aligned_nothrow(n, a); break;
    case EP_new_n: split_count(S, n, &cnt, &sz); n = cnt * sz; p = mi_new_n(cnt, sz); break;
    case EP_heap_alloc_new: hi = pick_heap(S); h = S.heaps[hi].h; p = mi_heap_alloc_new(h, n); break;
    case EP_heap_alloc_new_n: hi = pick_heap(S); h = S.heaps[hi].h; split_count(S, n, &cnt, &sz); n = cnt * sz; p = mi_heap_alloc_new_n(h, cnt, sz); break;
    case EP_wcsdup: {            // 16-bit units, terminator included in the copy
      is_str = true;
      size_t L = (n / 2 > 4096 ? (size_t)below(S, 4097) : n / 2);
      unsigned short* src = (unsigned short*)malloc((L + 1) * sizeof(unsigned short));
      for (size_t i = 0; i < L; i++) src[i] = (unsigned short)(1 + (vf_mix64(S.op_index * 137 + i) % 65535));
      src[L] = 0;
      p = mi_wcsdup(src);
      n = (L + 1) * sizeof(unsigned short);
      if (p != nullptr && memcmp(p, src, n) != 0) vf_trip("strdup-contents", generic_refutes(), "mi_wcsdup: duplicate of a string of %zu 16-bit units differs from the source", L);
      if (mi_wcsdup(nullptr) != nullptr) vf_trip("strdup-contents", generic_refutes(), "mi_wcsdup(NULL) returned a block");
      free(src);
      break; }
    case EP_mbsdup: case EP_dupenv_s: {
      is_str = true;
      size_t L = (n > 4096 ? (size_t)below(S, 4097) : n);
      char* src = (char*)malloc(L + 1);
      for (size_t i = 0; i < L; i++) src[i] = (char)(1 + (vf_mix64(S.op_index * 139 + i) % 255));
      src[L] = 0;
      if (ep == EP_mbsdup) p = mi_mbsdup((const unsigned char*)src);
      else {
        // the value goes through the process environment (setenv copies it with the C library's allocator, which this harness does not replace)
        char* buf = (char*)0x1; size_t sz = (size_t)-1;
        if (setenv("VF_DUPENV_VALUE", src, 1) != 0) { free(src); return nullptr; }
        int rc = mi_dupenv_s(&buf, &sz, "VF_DUPENV_VALUE");
        if (rc != 0 && !(rc == ENOMEM && buf == nullptr)) vf_trip("strdup-contents", generic_refutes(), "mi_dupenv_s returned %d for a variable that is set", rc);
        p = (rc == 0 ? buf : nullptr);
        if (rc == 0 && (p == nullptr || sz != L)) vf_trip("strdup-contents", generic_refutes(), "mi_dupenv_s: buffer %p, reported length %zu for a value of %zu characters", p, sz, L);
        char* none = (char*)0x1; size_t nsz = 77;
        int rc2 = mi_dupenv_s(&none, &nsz, "VF_DUPENV_NOT_SET");
        if (rc2 != 0 || none != nullptr || nsz != 0) vf_trip("strdup-contents", generic_refutes(), "mi_dupenv_s of an unset variable: rc=%d buffer=%p size=%zu (expected 0, NULL, 0)", rc2, (void*)none, nsz);
        if (mi_dupenv_s(nullptr, &nsz, "VF_DUPENV_VALUE") != EINVAL || mi_dupenv_s(&none, &nsz, nullptr) != EINVAL) vf_trip("strdup-contents", generic_refutes(), "mi_dupenv_s accepted a NULL argument");
        unsetenv("VF_DUPENV_VALUE");
      }
      n = L + 1;
      if (p != nullptr && (memcmp(p, src, L) != 0 || ((char*)p)[L] != 0)) vf_trip("strdup-contents", generic_refutes(), "%s: duplicate of a %zu-byte string differs from the source", ep_names[ep], L);
      free(src);
      break; }
    case EP_strdup: case EP_strndup: case EP_heap_strdup: case EP_heap_strndup: {
      is_str = true;
      if (chance(S, 1, 16)) {      // documented corner cases of the family: a NULL source yields NULL (no block), mi_realpath returns an owned block with the resolved name
        if (mi_strdup(nullptr) != nullptr || mi_strndup(nullptr, 10) != nullptr || mi_heap_strdup(mi_heap_get_default(), nullptr) != nullptr || mi_heap_strndup(mi_heap_get_default(), nullptr, 3) != nullptr)
          vf_trip("strdup-contents", generic_refutes(), "a strdup-family call with a NULL source returned a block");
        char ref[PATH_MAX]; char* rp = realpath("/usr/../usr/lib/..", ref);
        char* mp = mi_realpath("/usr/../usr/lib/..", nullptr);
        if (rp != nullptr && mp == nullptr && S.cfg.allow_null) { vf_err_reset(); }      // (fault profiles: the copy may be refused by the OS)
        else if (rp != nullptr) {
          if (mp == nullptr || strcmp(mp, rp) != 0) vf_trip("strdup-contents", generic_refutes(), "mi_realpath returned %s, realpath says %s", mp ? mp : "NULL", rp);
          if (mi_usable_size(mp) < strlen(rp) + 1) vf_trip("usable-size", "C03", "mi_realpath: block of %zu usable bytes for a name of %zu characters", mi_usable_size(mp), strlen(rp));
          char buf[PATH_MAX]; char* rb = mi_realpath("/usr/../usr/lib/..", buf);     // (declared with the malloc attribute although it returns the caller's buffer here: compare laundered addresses)
          if (vf::addr(rb) != vf::addr(buf) || strcmp(buf, rp) != 0) vf_trip("strdup-contents", generic_refutes(), "mi_realpath with a caller buffer: wrong result");
        }
        mi_free(mp);
        if (mi_realpath("/nonexistent/verif/path", nullptr) != nullptr) vf_trip("strdup-contents", generic_refutes(), "mi_realpath of a missing path returned a block");
      }
      size_t L = (n > 8192 ? (size_t)below(S, 8193) : n);
      char* src = (char*)malloc(L + 1);
      for (size_t i = 0; i < L; i++) src[i] = (char)(1 + (vf_mix64(S.op_index * 131 + i) % 255));
      src[L] = 0;
      size_t m = L;
      if (ep == EP_heap_strdup || ep == EP_heap_strndup) { hi = pick_heap(S); h = S.heaps[hi].h; }
      if (ep == EP_strdup) p = mi_strdup(src);
      else if (ep == EP_heap_strdup) p = mi_heap_strdup(h, src);
      else { m = (chance(S, 1, 2) ? (size_t)below(S, L + 1) : L + (size_t)below(S, 16));
             // limits far beyond the string (a limit is not a size: SIZE_MAX is a legal "no limit"); added for seeded change C01-r7-3
             if (chance(S, 1, 6)) { static const size_t far[] = { SIZE_MAX, SIZE_MAX - 1, SIZE_MAX - 7, SIZE_MAX / 2, SIZE_MAX / 2 + 1, (size_t)1 << 32, (size_t)1 << 48 }; m = far[below(S, 7)]; }
             size_t eff = (m < L ? m : L);
             p = (ep == EP_strndup ? mi_strndup(src, m) : mi_heap_strndup(h, src, m)); m = eff; }
      n = m + 1;
      if (p != nullptr) {
        if (memcmp(p, src, m) != 0 || ((char*)p)[m] != 0) vf_trip("strdup-contents", generic_refutes(), "%s: duplicate of a %zu-byte string differs from the source", ep_names[ep], m);
      }
      free(src);
      break; }
    default: vf_trip("harness", "", "do_alloc: bad ep %d", ep);
  }
  (void)is_str;
  hmix(S, (uint64_t)ep * 1000003ull + n); hmix(S, a * 31 + o);
  TRACE(S, "%s n=%zu a=%zu o=%zu heap=%d -> %p", ep_names[ep], n, a, o, hi, p);
  if (p == nullptr) {
    S.n_alloc_null++;
    if (a > ALIGN_MAX_OFFSETTABLE && o != 0) { vf_err_reset(); return nullptr; }   // documented: no offset beyond half a segment
    if (hi >= 0 && S.heaps[hi].arena >= 0) { S.n_arena_null++; vf_err_reset(); return nullptr; }    // a heap bound to a full arena returns NULL (no OS fallback)
    if (!S.cfg.allow_null) {
      vf_os_counts_t c; vf_os_get_counts(&c);
      uint64_t refused = 0; for (int i = 0; i < VF_OS__NCLASS; i++) refused += c.failed_real[i] + c.injected[i];
      if (refused == 0 && n <= (1u << 30))
        vf_trip("wellformed-refused", "C06", "%s(n=%zu, align=%zu, offset=%zu) returned NULL although the OS refused nothing", ep_names[ep], n, a, o);
      vf_err_reset();
    }
    else vf_err_reset();
    return nullptr;
  }
  check_errors(S, ep_names[ep]);
  return accept_block(S, p, n, hi, a, o, zero, ep);
}

// ------------------------------------------------------------------------------------------------
// free
// ------------------------------------------------------------------------------------------------
void do_free(State& S, vf::Blk* b, int force_ep) {
  S.sm.verify(b, "before free");
  uint8_t* p = b->p; size_t n = b->n, a = b->align;
  if (!b->zt && S.dirty_freed.size() < 200000) S.dirty_freed.insert((uintptr_t)p);
  int ep = force_ep;
  if (ep < 0) {
    unsigned r = (unsigned)below(S, 100);
    ep = EP_free;
    if (r < 8) ep = EP_free_size;
    else if (r < 12 && a != 0 && ((uintptr_t)p & (a - 1)) == 0) ep = EP_free_size_aligned;
    else if (r < 16 && a != 0 && ((uintptr_t)p & (a - 1)) == 0) ep = EP_free_aligned;
    else if (r < 19 && mi_is_in_heap_region(p)) ep = EP_cfree;   // mi_cfree ignores pointers outside arena memory by design
  }
  hmix(S, 0xF0000000ull + b->id);
  TRACE(S, "%s %p id=%llu n=%zu", ep_names[ep], (void*)p, (unsigned long long)b->id, n);
  S.sm.remove(b);
  vf_cur_what = ep_names[ep];
  switch (ep) {
    case EP_free: mi_free(p); break;
    case EP_free_size: mi_free_size(p, n); break;
    case EP_free_size_aligned: mi_free_size_aligned(p, n, a); break;
    case EP_free_aligned: mi_free_aligned(p, a); break;
    case EP_cfree: mi_cfree(p); break;
    default: mi_free(p);
  }
  S.n_free++; S.ep_count[ep]++;
  check_errors(S, ep_names[ep]);
}

static vf::Blk* pick_victim(State& S) {
  if (S.sm.live.empty()) return nullptr;
  switch (S.victim_mode) {
    case 1: return S.sm.by_id.rbegin()->second;              // LIFO
    case 2: return S.sm.by_id.begin()->second;               // FIFO
    case 3: {                                                // same size class as the previous victim
      if (S.victim_class != 0) {
        for (int tries = 0; tries < 24; tries++) { vf::Blk* b = S.sm.live[below(S, S.sm.live.size())]; if (mi_good_size(b->n) == S.victim_class) return b; }
      }
      vf::Blk* b = S.sm.live[below(S, S.sm.live.size())]; S.victim_class = mi_good_size(b->n); return b; }
    case 4: {                                                // address neighbours: leaves stripes
      auto it = S.sm.by_addr.lower_bound((uintptr_t)S.sm.live[below(S, S.sm.live.size())]->p);
      if (it != S.sm.by_addr.end()) { auto nx = it; ++nx; if (nx != S.sm.by_addr.end() && chance(S, 1, 2)) { ++nx; if (nx != S.sm.by_addr.end()) return nx->second; } return it->second; }
      return S.sm.live[0]; }
    default: return S.sm.live[below(S, S.sm.live.size())];
  }
}

void free_all(State& S) {
  unsigned order = (unsigned)below(S, 4);
  S.n_drain++;
  while (!S.sm.live.empty()) {
    vf::Blk* b;
    if (order == 0) b = S.sm.by_id.rbegin()->second;
    else if (order == 1) b = S.sm.by_id.begin()->second;
    else if (order == 2) b = S.sm.by_addr.begin()->second;
    else b = S.sm.live[below(S, S.sm.live.size())];
    if (b->heap < 0) S.foreign_live--;
    do_free(S, b);
  }
}

// ------------------------------------------------------------------------------------------------
// realloc family / expand
// ------------------------------------------------------------------------------------------------
static size_t gen_newsize(State& S, vf::Blk* b, bool grow_only) {
  size_t n = b->n;
  unsigned r = (unsigned)below(S, 100);
  if (grow_only) {
    if (r < 25) return n + 1 + (size_t)below(S, 8);
    if (r < 45) return n + 1 + (size_t)below(S, (n < 64 ? 64 : n / 4));
    if (r < 65) { size_t u = b->u; return (u > n ? n + 1 + (size_t)below(S, u - n) : n + 1); }   // stays within the usable size: in place on rel
    if (r < 85) return n + n / 2 + 1;
    if (r < 97) return n * (2 + (size_t)below(S, 3)) + (size_t)below(S, 17);
    return n + (size_t)below(S, 3 * MiB);
  }
  if (r < 6) return 1;
  if (r < 10) return 0;
  if (r < 22) { size_t h = n / 2; return (h > 1 ? h - 1 + (size_t)below(S, 3) : 1); }
  if (r < 30) return n;
  if (r < 40) return n + 1;
  if (r < 46) return (n > 0 ? n - 1 : 0);
  if (r < 58) return n + n / 2 + (size_t)below(S, 9);
  if (r < 70) return n * (2 + (size_t)below(S, 3)) + (size_t)below(S, 9);
  if (r < 80) { size_t u = b->u; return (u > 0 ? (size_t)below(S, u + 2) : 1); }
  if (r < 84) return (b->u <= LARGE_OBJ_MAX ? LARGE_OBJ_MAX + 1 + (size_t)below(S, 8 * MiB) : 1 + (size_t)below(S, 4096));  // cross the huge boundary
  return gen_size(S);
}

static void do_realloc(State& S) {
  if (S.sm.live.empty()) return;
  vf::Blk* b = pick_victim(S);
  if (b->heap < 0 && false) return;
  const bool rel = !S.cfg.padding;
  const std::string& pr = S.cfg.profile;
  // choose the entry point
  bool want_zero = (b->zt ? chance(S, (pr == "zero" ? 95 : 60), 100) : chance(S, 10, 100));
  bool aligned = (b->align != 0 ? chance(S, 85, 100) : chance(S, (pr == "aligned" ? 30 : 6), 100));
  bool heapv = chance(S, 25, 100);
  bool grow_only = (b->zt && want_zero && chance(S, 90, 100));
  size_t nn = gen_newsize(S, b, grow_only);
  if (S.cfg.size_cap && nn > S.cfg.size_cap) nn = (size_t)below(S, (size_t)S.cfg.size_cap + 1);
  size_t a = 0, o = 0;
  bool same_ao = false;
  int ep;
  if (aligned) {
    if (b->align != 0) { a = b->align; o = b->off; same_ao = true; }
    else { gen_align(S, nn, &a, &o); if (a > 4096) a = (size_t)1 << below(S, 13); if (chance(S, 1, 2)) o = 0; }
    bool at = (o != 0 ? true : chance(S, 1, 3));
    if (!at) o = 0;
    if (same_ao && !at && b->off != 0) at = true, o = b->off;
    if (heapv) { if (want_zero) { static const int e[] = { EP_heap_rezalloc_aligned, EP_heap_recalloc_aligned, EP_heap_rezalloc_aligned_at, EP_heap_recalloc_aligned_at }; ep = e[(at ? 2 : 0) + below(S, 2)]; }
                 else ep = (at ? EP_heap_realloc_aligned_at : EP_heap_realloc_aligned); }
    else { if (want_zero) { static const int e[] = { EP_rezalloc_aligned, EP_recalloc_aligned, EP_rezalloc_aligned_at, EP_recalloc_aligned_at }; ep = e[(at ? 2 : 0) + below(S, 2)]; }
           else ep = (at ? EP_realloc_aligned_at : EP_realloc_aligned); }
  }
  else if (heapv) {
    if (want_zero) ep = (chance(S, 1, 2) ? EP_heap_rezalloc : EP_heap_recalloc);
    else { static const int e[] = { EP_heap_realloc, EP_heap_reallocn, EP_heap_reallocf }; ep = e[below(S, 3)]; }
  }
  else {
    if (want_zero) ep = (chance(S, 1, 2) ? EP_rezalloc : EP_recalloc);
    else { static const int e[] = { EP_realloc, EP_realloc, EP_reallocn, EP_reallocf, EP_reallocarray, EP_reallocarr, EP_new_realloc, EP_new_reallocn };
           ep = e[below(S, S.cfg.allow_null ? 6 : 8)]; }
  }
  bool is_zero_ep = (ep == EP_rezalloc || ep == EP_recalloc || ep == EP_heap_rezalloc || ep == EP_heap_recalloc ||
                     ep == EP_rezalloc_aligned || ep == EP_recalloc_aligned || ep == EP_rezalloc_aligned_at || ep == EP_recalloc_aligned_at ||
                     ep == EP_heap_rezalloc_aligned || ep == EP_heap_recalloc_aligned || ep == EP_heap_rezalloc_aligned_at || ep == EP_heap_recalloc_aligned_at);
  bool is_n = (ep == EP_reallocn || ep == EP_reallocarray || ep == EP_reallocarr || ep == EP_recalloc || ep == EP_heap_reallocn || ep == EP_heap_recalloc ||
               ep == EP_recalloc_aligned || ep == EP_recalloc_aligned_at || ep == EP_heap_recalloc_aligned || ep == EP_heap_recalloc_aligned_at || ep == EP_new_reallocn);
  size_t cnt = 0, sz = 0;
  if (is_n) { split_count(S, nn, &cnt, &sz); if (grow_only && cnt * sz <= b->n) { cnt = 1; sz = nn; } nn = cnt * sz; }
  int hi = S.cur_default; mi_heap_t* h = nullptr;
  if (heapv) { hi = pick_heap(S); h = S.heaps[hi].h; }
  // now and then a re-allocation that must fail: the call has to return NULL and leave the original block untouched and valid
  // (mi_reallocf: released); the failure is provoked by the request itself, so it is available on every build and heap state
  bool must_fail = (!S.cfg.allow_null && chance(S, (pr == "realloc" ? 7u : 3u), 100));
  if (must_fail) {
    if (ep == EP_new_realloc) ep = EP_realloc;            // the throwing forms abort() in a C build of mimalloc when they fail
    if (ep == EP_new_reallocn) ep = EP_reallocn;
    unsigned mode = (unsigned)below(S, 3);
    if (aligned && mode == 1) { static const size_t bad[] = { 24, 48, 100, 4097, 65537, ((size_t)1 << 20) * 3 }; a = bad[below(S, 6)]; same_ao = false; if (o >= a) o = 8; if (nn <= b->u) nn = b->u * 2 + 64; /* (a request that still fits is served in place whatever the alignment) */ }
    else if (aligned && mode == 2 && (ep == EP_realloc_aligned_at || ep == EP_rezalloc_aligned_at || ep == EP_recalloc_aligned_at || ep == EP_heap_realloc_aligned_at || ep == EP_heap_rezalloc_aligned_at || ep == EP_heap_recalloc_aligned_at))
      { a = (size_t)1 << 25; o = 8 * (1 + (size_t)below(S, 100)); same_ao = false; if (nn <= b->u) nn = b->u * 2 + 64; }
    else if (is_n) { sz = 8 + (size_t)below(S, 5000); cnt = SIZE_MAX / sz + 1 + (size_t)below(S, 1000); nn = SIZE_MAX; }
    else nn = (size_t)PTRDIFF_MAX + 1 + (size_t)below(S, 1u << 20);
    if (is_n && nn != SIZE_MAX) { cnt = 1; sz = nn; }      // (count x size forms: the enlarged size of the alignment modes)
    S.n_realloc_mustfail++;
  }

  // the old block: verify, snapshot, remove from the model (it is live until the call)
  S.sm.verify(b, "before realloc");
  vf::Blk old = *b;
  uint8_t* p = b->p;
  hmix(S, 0xA0000000ull + (uint64_t)ep * 7919 + nn); hmix(S, old.id);
  S.sm.remove(b); b = nullptr;
  size_t cons_before = 0; bool do_cons = (!S.cfg.threads && S.foreign_live == 0 && (must_fail || chance(S, 1, 16)));
  if (do_cons) cons_before = conservation_count(S);
  void* q = nullptr;
  vf_cur_what = ep_names[ep];
  errno = 0;
  switch (ep) {
    case EP_realloc: q = mi_realloc(p, nn); break;
    case EP_reallocn: q = mi_reallocn(p, cnt, sz); break;
    case EP_reallocf: q = mi_reallocf(p, nn); break;
    case EP_reallocarray: q = mi_reallocarray(p, cnt, sz); break;
    case EP_reallocarr: { void* pp = p; int rc = mi_reallocarr(&pp, cnt, sz); q = (rc == 0 ? pp : nullptr);
                          if (rc != 0 && pp != p) vf_trip("reallocarr-outparam", "C05,C06", "mi_reallocarr failed (%d) but changed the pointer", rc); break; }
    case EP_rezalloc: q = mi_rezalloc(p, nn); break;
    case EP_recalloc: q = mi_recalloc(p, cnt, sz); break;
    case EP_heap_realloc: q = mi_heap_realloc(h, p, nn); break;
    case EP_heap_reallocn: q = mi_heap_reallocn(h, p, cnt, sz); break;
    case EP_heap_reallocf: q = mi_heap_reallocf(h, p, nn); break;
    case EP_heap_rezalloc: q = mi_heap_rezalloc(h, p, nn); break;
    case EP_heap_recalloc: q = mi_heap_recalloc(h, p, cnt, sz); break;
    case EP_realloc_aligned: q = mi_realloc_aligned(p, nn, a); break;
    case EP_realloc_aligned_at: q = mi_realloc_aligned_at(p, nn, a, o); break;
    case EP_rezalloc_aligned: q = mi_rezalloc_aligned(p, nn, a); break;
    case EP_rezalloc_aligned_at: q = mi_rezalloc_aligned_at(p, nn, a, o); break;
    case EP_recalloc_aligned: q = ((S.op_index & 1) ? mi_aligned_recalloc(p, cnt, sz, a) : mi_recalloc_aligned(p, cnt, sz, a)); break;
    case EP_recalloc_aligned_at: q = ((S.op_index & 1) ? mi_aligned_offset_recalloc(p, cnt, sz, a, o) : mi_recalloc_aligned_at(p, cnt, sz, a, o)); break;
    case EP_heap_realloc_aligned: q = mi_heap_realloc_aligned(h, p, nn, a); break;
    case EP_heap_realloc_aligned_at: q = mi_heap_realloc_aligned_at(h, p, nn, a, o); break;
    case EP_heap_rezalloc_aligned: q = mi_heap_rezalloc_aligned(h, p, nn, a); break;
    case EP_heap_rezalloc_aligned_at: q = mi_heap_rezalloc_aligned_at(h, p, nn, a, o); break;
    case EP_heap_recalloc_aligned: q = mi_heap_recalloc_aligned(h, p, cnt, sz, a); break;
    case EP_heap_recalloc_aligned_at: q = mi_heap_recalloc_aligned_at(h, p, cnt, sz, a, o); break;
    case EP_new_realloc: q = mi_new_realloc(p, nn); break;
    case EP_new_reallocn: q = mi_new_reallocn(p, cnt, sz); break;
    default: vf_trip("harness", "", "do_realloc: bad ep");
  }
  S.n_realloc++; S.ep_count[ep]++;
  TRACE(S, "%s %p(id=%llu n=%zu u=%zu) -> n=%zu a=%zu o=%zu heap=%d : %p", ep_names[ep], (void*)p, (unsigned long long)old.id, old.n, old.u, nn, a, o, hi, q);
  if (must_fail && q != nullptr) vf_trip("malformed-accepted", "C06", "%s(%p, n=%zu [count %zu x %zu], align=%zu, offset=%zu) must fail but returned %p", ep_names[ep], (void*)p, nn, cnt, sz, a, o, q);
  if (q == nullptr) {
    S.n_realloc_null++;
    bool documented_null = must_fail || (a > ALIGN_MAX_OFFSETTABLE && o != 0) || (hi >= 0 && S.heaps[hi].arena >= 0) || (old.heap >= 0 && S.heaps[old.heap].arena >= 0 && !heapv);
    if (!S.cfg.allow_null && !documented_null) {
      vf_os_counts_t c; vf_os_get_counts(&c);
      uint64_t refused = 0; for (int i = 0; i < VF_OS__NCLASS; i++) refused += c.failed_real[i] + c.injected[i];
      if (refused == 0 && nn <= (1u << 30)) vf_trip("wellformed-refused", "C06,C05", "%s(%p, n=%zu, align=%zu, offset=%zu) returned NULL although the OS refused nothing", ep_names[ep], (void*)p, nn, a, o);
    }
    vf_err_reset();
    if (do_cons) {
      const bool f = (ep == EP_reallocf || ep == EP_heap_reallocf);
      size_t after = conservation_count(S);
      S.n_conserv++;
      if (after + (f ? 1 : 0) != cons_before)
        vf_trip("realloc-conservation", "C05", "%s failed (returned NULL): number of allocated blocks in the heaps went from %zu to %zu; the original block must %s", ep_names[ep], cons_before, after, f ? "have been released (reallocf)" : "still be allocated");
    }
    if (ep == EP_reallocf || ep == EP_heap_reallocf) return;       // old block was freed by contract
    // failure: the original block must be untouched and still valid
    vf::Blk* r = S.sm.add(p, old.n, old.u, old.heap, old.align, old.off, old.zt, old.ep, old.id);   // keep the old pattern identity
    r->fill = old.fill;
    S.sm.verify(r, "after failed realloc (original block must be untouched)", SIZE_MAX, "C05");
    return;
  }
  check_errors(S, ep_names[ep]);
  size_t u = mi_usable_size(q);
  if (u < nn) vf_trip("usable-size", "C05,C03", "%s -> usable size %zu < new size %zu", ep_names[ep], u, nn);
  // prefix preserved
  size_t keep = (old.n < nn ? old.n : nn);
  S.sm.verify_moved((uint8_t*)q, old.id, old.fill, keep, ep_names[ep], "C05");
  bool moved = (q != (void*)p);
  if (moved) S.n_realloc_moved++; else S.n_realloc_inplace++;
  // zero growth of a zero-tracked block through the rezalloc family
  bool keep_zt = false;
  if (old.zt && is_zero_ep) {
    if (nn > old.n) {
      size_t bad = vf::first_nonzero((const uint8_t*)q, old.n, nn);
      S.n_zero_checked++; S.n_zero_bytes += nn - old.n;
      if (moved) S.n_zgrow_moved++; else S.n_zgrow_inplace++;
      if (bad != SIZE_MAX) vf_trip("not-zero-grow", "C04", "%s grew a zero-initialised block from %zu to %zu bytes (%s): byte %zu is 0x%02x", ep_names[ep], old.n, nn, moved ? "moved" : "in place", bad, ((uint8_t*)q)[bad]);
      keep_zt = true;
    }
    else if (nn == old.n) keep_zt = true;
  }
  else if (old.ep == EP__N) { }
  if (old.n == 0 && p == nullptr) { }
  // alignment kept when re-allocating with the same alignment (and offset)
  size_t na = 0, no = 0;
  if (aligned && same_ao) {
    if (((vf::addr(q) + o) & (a - 1)) != 0) vf_trip("alignment", "C03", "%s(%p, n=%zu, align=%zu, offset=%zu) of a block allocated with the same alignment returned %p: (q+offset) %% align = %zu",
                                                    ep_names[ep], (void*)p, nn, a, o, q, (size_t)(((uintptr_t)q + o) & (a - 1)));
    na = a; no = o; S.n_aligned++;
  }
  else if (aligned && o == 0 && a > sizeof(void*) && (a & (a - 1)) == 0 && ((vf::addr(q)) & (a - 1)) != 0)
    // the aligned realloc entry points without an offset promise an aligned result (alloc_align attribute in mimalloc.h) whatever the old block was
    vf_trip("alignment", "C03", "%s(%p, n=%zu, align=%zu) returned %p which is not aligned to %zu (the old block was not allocated with that alignment)", ep_names[ep], (void*)p, nn, a, q, a);
  else if (!moved) { na = old.align; no = old.off; }
  else if (aligned && ((vf::addr(q) + o) & (a - 1)) == 0) { na = a; no = o; }
  else {
    size_t need = (nn >= 16 ? 16 : 8);
    if (!aligned && (vf::addr(q) & (need - 1)) != 0) vf_trip("alignment", "C03", "%s(n=%zu) returned %p which is not %zu-byte aligned", ep_names[ep], nn, q, need);
  }
  int nheap = (moved ? hi : old.heap);
  arena_range_check(S, q, u, nheap, ep_names[ep]);
  vf::Blk* nb = S.sm.add(q, nn, u, nheap, na, no, keep_zt, ep);   // overlap test: the old block's range was released only if it moved
  S.sm.fill(nb);
  note_alloc_evidence(S, nn, u);
  if (do_cons) {
    size_t after = conservation_count(S);
    S.n_conserv++;
    if (after != cons_before) vf_trip("realloc-conservation", "C05", "%s: number of allocated blocks in the heaps went from %zu to %zu; a successful re-allocation must leave it unchanged (old block %s)",
                                      ep_names[ep], cons_before, after, moved ? "released exactly once, new one allocated" : "kept");
  }
  (void)rel;
}

static void do_expand(State& S) {
  if (S.sm.live.empty()) return;
  vf::Blk* b = pick_victim(S);
  S.sm.verify(b, "before expand");
  size_t nn;
  unsigned r = (unsigned)below(S, 100);
  if (r < 40) nn = (b->u > 0 ? (size_t)below(S, b->u + 1) : 0);
  else if (r < 60) nn = b->u;
  else if (r < 80) nn = b->u + 1 + (size_t)below(S, 64);
  else nn = b->n;
  vf_cur_what = "expand";
  const bool ms_alias = chance(S, 1, 3);      // mi__expand: same contract, errno = ENOMEM on refusal
  errno = 0;
  void* q = (ms_alias ? mi__expand(b->p, nn) : mi_expand(b->p, nn));
  if (ms_alias && q == nullptr && errno != ENOMEM) vf_trip("expand-refused", "C05", "mi__expand(%p,%zu) returned NULL without setting errno to ENOMEM (errno=%d)", (void*)b->p, nn, errno);
  S.ep_count[EP_expand]++;
  hmix(S, 0xE0000000ull + nn);
  TRACE(S, "expand %p u=%zu -> %zu : %p", (void*)b->p, b->u, nn, q);
  if (q != nullptr && q != (void*)b->p) vf_trip("expand-moved", "C05", "mi_expand(%p,%zu) returned a different pointer %p", (void*)b->p, nn, q);
  if (q == nullptr) {
    S.n_expand_null++;
    if (!S.cfg.padding && nn <= b->u && nn > 0) vf_trip("expand-refused", "C05", "mi_expand(%p,%zu) failed although mi_usable_size is %zu", (void*)b->p, nn, b->u);
  }
  else {
    S.n_expand_ok++;
    if (nn > b->u) vf_trip("expand-beyond", "C05", "mi_expand(%p,%zu) succeeded beyond mi_usable_size %zu", (void*)b->p, nn, b->u);
    size_t u2 = mi_usable_size(b->p);
    if (u2 < nn) vf_trip("usable-size", "C05", "after mi_expand to %zu usable size is %zu", nn, u2);
    S.sm.verify(b, "after expand");
    if (nn > b->n) { b->n = nn; }
    if (b->zt) { b->zt = false; S.sm.fill(b); }
  }
  vf_err_reset();
}

// ------------------------------------------------------------------------------------------------
// heaps
// ------------------------------------------------------------------------------------------------
static void do_heap_new(State& S) {
  int alive = 0; for (auto& e : S.heaps) if (e.alive) alive++;
  if (alive >= 9) return;
  vf_cur_what = "heap_new";
  mi_heap_t* h = mi_heap_new();
  if (h == nullptr) { if (!S.cfg.allow_null) vf_trip("heap-new-failed", generic_refutes(), "mi_heap_new returned NULL"); return; }
  HeapEnt e; e.h = h; e.alive = true;
  S.heaps.push_back(e);
  S.n_heap_new++; S.ep_count[EP_heap_new]++;
  hmix(S, 0xB1);
  TRACE(S, "heap_new -> idx %zu %p", S.heaps.size() - 1, (void*)h);
}

static void expect_default(State& S, const char* when) {
  mi_heap_t* d = mi_heap_get_default();
  if (d != S.heaps[S.cur_default].h) vf_trip("default-heap", "C10", "%s: mi_heap_get_default() = %p, expected heap #%d %p", when, (void*)d, S.cur_default, (void*)S.heaps[S.cur_default].h);
}

static void do_heap_delete(State& S) {
  int hi = pick_heap(S, false); if (hi <= 0) return;
  mi_heap_t* h = S.heaps[hi].h;
  vf_cur_what = "heap_delete";
  TRACE(S, "heap_delete idx %d", hi);
  mi_heap_delete(h);
  S.heaps[hi].alive = false;
  for (vf::Blk* b : S.sm.live) if (b->heap == hi) b->heap = 0;   // blocks migrate to the backing heap
  if (S.cur_default == hi) S.cur_default = 0;
  S.n_heap_delete++; S.ep_count[EP_heap_delete]++;
  hmix(S, 0xB2 + (uint64_t)hi);
  check_errors(S, "heap_delete");
  expect_default(S, "after mi_heap_delete");
}

static void do_heap_destroy(State& S) {
  if (S.cfg.abandon_ok) return;   // which blocks a destroy releases is not determined when segments are abandoned by force and re-adopted by other heaps
  int hi = pick_heap(S, false); if (hi <= 0) return;
  mi_heap_t* h = S.heaps[hi].h;
  std::vector<vf::Blk*> mine;
  for (vf::Blk* b : S.sm.live) if (b->heap == hi) mine.push_back(b);
  for (vf::Blk* b : mine) { S.sm.verify(b, "before heap_destroy"); if (!b->zt && S.dirty_freed.size() < 200000) S.dirty_freed.insert((uintptr_t)b->p); S.sm.remove(b); }
  vf_cur_what = "heap_destroy";
  TRACE(S, "heap_destroy idx %d (%zu blocks)", hi, mine.size());
  mi_heap_destroy(h);
  S.heaps[hi].alive = false;
  if (S.cur_default == hi) S.cur_default = 0;
  S.n_heap_destroy++; S.ep_count[EP_heap_destroy]++;
  hmix(S, 0xB3 + (uint64_t)hi);
  check_errors(S, "heap_destroy");
  expect_default(S, "after mi_heap_destroy");
  if (!S.cfg.threads && S.foreign_live == 0) check_conservation(S, "after mi_heap_destroy", "C10");
  // nothing else may have been touched
  size_t budget = 4u << 20;
  for (vf::Blk* b : S.sm.live) { if (b->fill > budget) continue; budget -= b->fill; S.sm.verify(b, "after heap_destroy of another heap", SIZE_MAX, "C10"); if (budget < 4096) break; }
}

static void do_set_default(State& S) {
  int hi = pick_heap(S);
  vf_cur_what = "heap_set_default";
  mi_heap_t* old = mi_heap_set_default(S.heaps[hi].h);
  if (old != S.heaps[S.cur_default].h) vf_trip("default-heap", "C10", "mi_heap_set_default returned %p, expected the previous default heap #%d %p", (void*)old, S.cur_default, (void*)S.heaps[S.cur_default].h);
  S.cur_default = hi;
  S.ep_count[EP_heap_set_default]++;
  hmix(S, 0xB4 + (uint64_t)hi);
  TRACE(S, "heap_set_default idx %d", hi);
  expect_default(S, "after mi_heap_set_default");
}

static void do_collect(State& S) {
  bool force = chance(S, 1, 2);
  if (chance(S, 1, 2)) { vf_cur_what = "collect"; mi_collect(force); S.ep_count[EP_collect]++; }
  else { int hi = pick_heap(S); vf_cur_what = "heap_collect"; mi_heap_collect(S.heaps[hi].h, force); S.ep_count[EP_heap_collect]++; }
  hmix(S, 0xC0 + (force ? 1 : 0));
  TRACE(S, "collect force=%d", (int)force);
  check_errors(S, "collect");
}

static void do_query(State& S) {
  if (S.sm.live.empty()) return;
  vf::Blk* b = S.sm.live[below(S, S.sm.live.size())];
  vf_cur_what = "query";
  size_t u = mi_usable_size(b->p);
  S.ep_count[EP_usable_size]++;
  if (u != b->u) vf_trip("usable-size-changed", "C03", "mi_usable_size(%p) was %zu after allocation and is %zu now", (void*)b->p, b->u, u);
  { size_t u1 = mi_malloc_size(b->p), u2 = mi_malloc_usable_size(b->p);
    if (u1 != u || u2 != u) vf_trip("usable-size-changed", "C03", "mi_malloc_size(%p) = %zu, mi_malloc_usable_size = %zu but mi_usable_size = %zu", (void*)b->p, u1, u2, u);
    size_t g1 = mi_malloc_good_size(b->n), g2 = mi_good_size(b->n);
    if (g1 != g2 || g1 < b->n) vf_trip("usable-size-changed", "C03", "mi_malloc_good_size(%zu) = %zu but mi_good_size = %zu", b->n, g1, g2); }
  if (!mi_is_in_heap_region(b->p)) {
    // only arena memory is registered as heap region; OS-allocated segments are not => informational only
  }
  S.ep_count[EP_is_in_heap_region]++;
  if (b->heap >= 0 && !S.cfg.abandon_ok) {      // (also for blocks whose pointer is not word aligned: aligned_at with an odd offset)
    for (size_t i = 0; i < S.heaps.size(); i++) {
      if (!S.heaps[i].alive) continue;
      bool expect = ((int)i == b->heap);
      bool c1 = mi_heap_contains_block(S.heaps[i].h, b->p);
      if (c1 != expect) vf_trip("heap-contains-block", "C10", "mi_heap_contains_block(heap #%zu, %p) = %d but the block lives in heap #%d", i, (void*)b->p, (int)c1, b->heap);
      bool c2 = mi_heap_check_owned(S.heaps[i].h, b->p);
      if (c2 != expect) vf_trip("heap-check-owned", "C10", "mi_heap_check_owned(heap #%zu, %p) = %d but the block lives in heap #%d", i, (void*)b->p, (int)c2, b->heap);
      S.ep_count[EP_heap_contains_block]++; S.ep_count[EP_heap_check_owned]++;
    }
    bool c3 = mi_check_owned(b->p);
    if (c3 != (b->heap == S.cur_default)) vf_trip("check-owned", "C10", "mi_check_owned(%p) = %d but the block lives in heap #%d and the default is #%d", (void*)b->p, (int)c3, b->heap, S.cur_default);
    S.ep_count[EP_check_owned]++;
  }
  S.n_queries++;
  check_errors(S, "query");
}

// ------------------------------------------------------------------------------------------------
// conservation and heap walk
// ------------------------------------------------------------------------------------------------
struct CountCtx { size_t used = 0; size_t areas = 0; };
static bool count_visitor(const mi_heap_t*, const mi_heap_area_t* area, void* block, size_t, void* arg) {
  CountCtx* c = (CountCtx*)arg;
  if (block == nullptr) { c->used += area->used; c->areas++; }
  return true;
}
static void settle_remote(State& S) {
  // heap walks and per-area used counts are only judged in a state without pending cross-thread frees
  if (!S.pending_remote) return;
  for (auto& e : S.heaps) if (e.alive) mi_heap_collect(e.h, false);
  S.pending_remote = false;
}
static bool count_blocks_visitor(const mi_heap_t*, const mi_heap_area_t*, void* block, size_t, void* arg) {
  if (block != nullptr) ((CountCtx*)arg)->used++;
  return true;
}
size_t conservation_count(State& S) {
  settle_remote(S);
  CountCtx c;
  for (auto& e : S.heaps) if (e.alive) mi_heap_visit_blocks(e.h, false, &count_visitor, &c);
  if (S.cfg.abandon_ok) {
    // segments this thread was made to abandon: frees into them stay pending (cross-thread) until they are reclaimed, so the per-area `used`
    // is stale there; count the blocks the walk delivers instead
    CountCtx a; mi_abandoned_visit_blocks(mi_subproc_main(), -1, true, &count_blocks_visitor, &a);
    c.used += a.used;
  }
  return c.used;
}
static size_t expected_count(State& S, size_t* foreign) {
  size_t own = 0, fo = 0;
  for (vf::Blk* b : S.sm.live) { if (b->heap >= 0) own++; else fo++; }
  for (size_t i = 1; i < S.heaps.size(); i++) if (S.heaps[i].alive) own++;   // heap descriptors are blocks of the backing heap
  *foreign = fo;
  return own;
}
void check_conservation(State& S, const char* when, const char* refutes) {
  vf_cur_what = "conservation";
  size_t got = conservation_count(S), fo = 0, want = expected_count(S, &fo);
  S.n_conserv++;
  if (got < want || got > want + fo)
    vf_trip("conservation", refutes, "%s: heaps report %zu allocated blocks, the model has %zu live (+%zu of exited threads not yet attributed)", when, got, want, fo);
}

struct WalkCtx {
  std::vector<std::pair<uintptr_t, size_t>> blocks;
  std::map<uintptr_t, std::pair<size_t, size_t>> areas;   // area.blocks -> (used, visited)
  uintptr_t cur_area = 0;
  long stop_after = -1; long calls = 0; long calls_after_stop = 0;
};
static bool walk_visitor(const mi_heap_t*, const mi_heap_area_t* area, void* block, size_t block_size, void* arg) {
  WalkCtx* w = (WalkCtx*)arg;
  if (w->stop_after >= 0 && w->calls >= w->stop_after) { w->calls_after_stop++; return false; }
  w->calls++;
  if (block == nullptr) { w->cur_area = (uintptr_t)area->blocks; w->areas[w->cur_area] = std::make_pair(area->used, (size_t)0); }
  else { w->blocks.push_back(std::make_pair((uintptr_t)block, block_size)); w->areas[(uintptr_t)area->blocks].second++; }
  if (w->stop_after >= 0 && w->calls >= w->stop_after) return false;
  return true;
}

void walk_compare(State& S, const char* refutes) {
  if (S.walk_disabled) return;
  settle_remote(S);
  vf_cur_what = "heap_visit_blocks";
  std::set<uint64_t> all_seen;
  for (size_t hi = 0; hi < S.heaps.size(); hi++) {
    if (!S.heaps[hi].alive) continue;
    WalkCtx w;
    bool ok = mi_heap_visit_blocks(S.heaps[hi].h, true, &walk_visitor, &w);
    S.ep_count[EP_heap_visit_blocks]++;
    if (!ok && w.calls > 0) vf_trip("walk-aborted", refutes, "mi_heap_visit_blocks(heap #%zu) returned false although the visitor always returned true", hi);
    size_t matched = 0;
    std::set<uint64_t> seen;
    for (auto& vb : w.blocks) {
      uintptr_t bs = vb.first; size_t sz = vb.second;
      auto it = S.sm.by_addr.lower_bound(bs);
      vf::Blk* inside = nullptr;
      if (it != S.sm.by_addr.end() && it->first < bs + sz) {
        inside = it->second;
        auto nx = it; ++nx;
        if (nx != S.sm.by_addr.end() && nx->first < bs + sz)
          vf_trip("walk-encloses-two", refutes, "heap #%zu: visited block [%p,+%zu) encloses two live blocks %p and %p", hi, (void*)bs, sz, (void*)it->second->p, (void*)nx->second->p);
      }
      if (inside == nullptr) {
        bool is_desc = false;
        if (hi == 0) for (size_t j = 1; j < S.heaps.size(); j++) if (S.heaps[j].alive && (uintptr_t)S.heaps[j].h == bs) is_desc = true;
        if (!is_desc) vf_trip("walk-reports-dead", refutes, "heap #%zu: visited block [%p,+%zu) is not a live block of the program", hi, (void*)bs, sz);
        continue;
      }
      if ((uintptr_t)inside->p + inside->u > bs + sz)
        vf_trip("walk-range", refutes, "heap #%zu: visited block [%p,+%zu) does not enclose the usable bytes of live block %p (u=%zu)", hi, (void*)bs, sz, (void*)inside->p, inside->u);
      if (inside->heap < 0) { inside->heap = (int)hi; S.foreign_live--; }     // block of an exited thread, now adopted by this heap
      if (inside->heap != (int)hi && S.cfg.abandon_ok) inside->heap = (int)hi;   // abandoned by force and reclaimed into another heap of this thread
      if (inside->heap != (int)hi)
        vf_trip("walk-wrong-heap", refutes, "heap #%zu: visited block [%p,+%zu) holds live block %p which belongs to heap #%d", hi, (void*)bs, sz, (void*)inside->p, inside->heap);
      if (!seen.insert(inside->id).second)
        vf_trip("walk-twice", refutes, "heap #%zu: live block %p reported twice", hi, (void*)inside->p);
      if ((uintptr_t)inside->p != bs) S.n_interior++;
      matched++;
    }
    size_t want = 0; for (vf::Blk* b : S.sm.live) if (b->heap == (int)hi) want++;
    if (matched != want && !S.cfg.abandon_ok) {
      // find one that is missing
      for (vf::Blk* b : S.sm.live) if (b->heap == (int)hi && !seen.count(b->id))
        vf_trip("walk-misses-live", refutes, "heap #%zu: live block %p (n=%zu u=%zu ep=%s) was not reported by mi_heap_visit_blocks (%zu of %zu reported)", hi, (void*)b->p, b->n, b->u, ep_names[b->ep], matched, want);
    }
    for (uint64_t id : seen) all_seen.insert(id);
    for (auto& a : w.areas) if (a.second.first != a.second.second)
      vf_trip("walk-area-used", refutes, "heap #%zu: area %p reports used=%zu but %zu blocks were visited", hi, (void*)a.first, a.second.first, a.second.second);
    S.n_walk_blocks += w.blocks.size();
    // returning false stops the walk
    if (w.calls > 2) {
      WalkCtx w2; w2.stop_after = 1 + (long)below(S, (uint64_t)w.calls - 1);
      bool r2 = mi_heap_visit_blocks(S.heaps[hi].h, true, &walk_visitor, &w2);
      if (r2 || w2.calls_after_stop != 0 || w2.calls != w2.stop_after)
        vf_trip("walk-not-stopped", refutes, "heap #%zu: visitor returned false at call %ld but the walk returned %d after %ld further calls", hi, w2.stop_after, (int)r2, w2.calls_after_stop);
    }
  }
  if (S.cfg.abandon_ok) {
    // every live block that no heap reported must be reported by the walk over abandoned segments, and nothing else
    {
      // a visitor that returns false stops the abandoned walk too (and must not hide anything from the next walk)
      WalkCtx w0; w0.stop_after = 1 + (long)below(S, 40);
      vf_cur_what = "abandoned_visit_blocks (stopped)";
      bool r0 = mi_abandoned_visit_blocks(mi_subproc_main(), -1, true, &walk_visitor, &w0);
      if (w0.calls_after_stop != 0 || (w0.calls == w0.stop_after && r0))
        vf_trip("walk-not-stopped", refutes, "abandoned walk: visitor returned false at call %ld but the walk returned %d after %ld further calls", w0.stop_after, (int)r0, w0.calls_after_stop);
    }
    WalkCtx w;
    vf_cur_what = "abandoned_visit_blocks";
    mi_abandoned_visit_blocks(mi_subproc_main(), -1, true, &walk_visitor, &w);
    for (auto& vb : w.blocks) {
      auto it = S.sm.by_addr.lower_bound(vb.first);
      if (it == S.sm.by_addr.end() || it->first >= vb.first + vb.second) {
        bool is_desc = false;   // descriptors of the thread's other heaps are blocks of the backing heap, whose segments can be abandoned as well
        for (size_t j = 1; j < S.heaps.size(); j++) if (S.heaps[j].alive && (uintptr_t)S.heaps[j].h == vb.first) is_desc = true;
        if (is_desc) continue;
      }
      if (it == S.sm.by_addr.end() || it->first >= vb.first + vb.second)
        vf_trip("walk-reports-dead", refutes, "abandoned walk: visited block [%p,+%zu) is not a live block of the program", (void*)vb.first, vb.second);
      if (!all_seen.insert(it->second->id).second)
        vf_trip("walk-twice", refutes, "live block %p reported by a heap walk and by the abandoned walk (or twice)", (void*)it->second->p);
    }
    for (vf::Blk* b : S.sm.live) if (!all_seen.count(b->id))
      vf_trip("walk-misses-live", refutes, "live block %p (n=%zu u=%zu ep=%s) was reported neither by mi_heap_visit_blocks of any heap nor by mi_abandoned_visit_blocks", (void*)b->p, b->n, b->u, ep_names[b->ep]);
    S.n_walk_blocks += w.blocks.size();
  }
  S.n_walks++;
  check_errors(S, "heap walk");
}

void checkpoint(State& S, bool full_walk) {
  check_conservation(S, "checkpoint", S.cfg.profile == "walk" ? "C12" : (S.cfg.profile == "heaps" ? "C10,C12" : "C12,C05"));
  if (full_walk) walk_compare(S, "C12");
}

// ------------------------------------------------------------------------------------------------
// helper threads (only with cfg.threads)
// ------------------------------------------------------------------------------------------------
static void do_remote_free_batch(State& S) {
  size_t k = 1 + (size_t)below(S, 64);
  std::vector<void*> ptrs;
  for (size_t i = 0; i < k && !S.sm.live.empty(); i++) {
    vf::Blk* b = pick_victim(S);
    S.sm.verify(b, "before remote free");
    if (!b->zt && S.dirty_freed.size() < 200000) S.dirty_freed.insert((uintptr_t)b->p);
    if (b->heap < 0) S.foreign_live--;
    ptrs.push_back(b->p); S.sm.remove(b);
  }
  vf_cur_what = "remote_free_batch";
  try {
    std::thread t([&ptrs]() { for (void* p : ptrs) mi_free(p); });
    t.join();
  } catch (const std::system_error& e) { vf_trip("harness", "", "cannot create a thread: %s", e.what()); }
  S.pending_remote = true;
  S.n_remote_batches++; S.ep_count[EP_remote_free_batch]++; S.n_free += ptrs.size();
  hmix(S, 0xD0 + ptrs.size());
  TRACE(S, "remote_free_batch %zu", ptrs.size());
  check_errors(S, "remote free");
}

// forced abandonment (target_segments_per_thread > 0): single-block pages spread over several segments are freed by another thread (the frees are parked on the
// owner's delayed list), then the owner needs fresh segments, which makes it abandon segments of its own -- whose pages it must drain, and may thereby free, first
static void do_force_abandon_pattern(State& S) {
  std::vector<vf::Blk*> bs;
  const size_t n = 600 * KiB + (size_t)below(S, 900 * KiB);
  const size_t cnt = 40 + (size_t)below(S, 40);
  for (size_t i = 0; i < cnt; i++) { vf::Blk* b = do_alloc(S, EP_malloc, n); if (b) bs.push_back(b); }
  // another thread frees most of them, in an order that leaves the FIRST pages of the segments among the freed ones
  std::vector<void*> ptrs; std::vector<vf::Blk*> keep;
  for (size_t i = 0; i < bs.size(); i++) {
    if (chance(S, 1, 5)) { keep.push_back(bs[i]); continue; }
    vf::Blk* b = bs[i]; S.sm.verify(b, "before remote free");
    ptrs.push_back(b->p); S.sm.remove(b);
  }
  vf_cur_what = "remote_free_batch (force abandon pattern)";
  try { std::thread t([&ptrs]() { for (void* p : ptrs) mi_free(p); }); t.join(); } catch (const std::system_error& e) { vf_trip("harness", "", "cannot create a thread: %s", e.what()); }
  S.pending_remote = true; S.n_remote_batches++; S.n_free += ptrs.size();
  // the owner now needs fresh segments
  std::vector<vf::Blk*> more;
  for (int i = 0; i < 3; i++) { vf::Blk* b = do_alloc(S, EP_malloc, 17 * 1024 * KiB + (size_t)below(S, 4096 * KiB)); if (b) more.push_back(b); }
  for (size_t i = 0; i < 24; i++) { vf::Blk* b = do_alloc(S, EP_malloc, n); if (b) more.push_back(b); }
  check_errors(S, "force abandon pattern");
  for (vf::Blk* b : more) do_free(S, b);
  for (vf::Blk* b : keep) do_free(S, b);
  hmix(S, 0xE800 + cnt);
}

// blocks allocated by a thread of a profile (seq_os.cpp) that has terminated: enter them into the shadow model / take them out of the foreign count before freeing
vf::Blk* accept_foreign(State& S, void* p, size_t n) {
  vf::Blk* b = accept_block(S, p, n, -1, 0, 0, false, EP_malloc);
  if (b != nullptr) { S.foreign_live++; S.n_foreign++; }
  return b;
}
void forget_foreign(State& S, vf::Blk* b) { if (b != nullptr && b->heap < 0) S.foreign_live--; }

struct ThreadBlock { void* p; size_t n; bool zero; size_t a = 0; };
static std::atomic<uint64_t> g_uninit_threads(0);
static void thread_noout(const char*, void*) { }
static void do_thread_alloc_exit(State& S, std::vector<vf::Blk*>* group = nullptr) {
  size_t k = 1 + (size_t)below(S, 48);
  std::vector<ThreadBlock> out;
  uint64_t tseed = rnd(S);
  size_t cap = (S.cfg.size_cap ? (size_t)S.cfg.size_cap : 256 * KiB);
  vf_cur_what = "thread_alloc_exit";
  const unsigned aligned_share = (S.cfg.profile == "aligned" ? 3 : 1);
  try {
  std::thread t([&]() {
    vf_rng_t r; vf_rng_seed(&r, tseed);
    // a third of the threads also use a first-class heap of their own (which may not come into being when the OS refuses memory) and delete it before they terminate
    mi_heap_t* th = (vf_rng_chance(&r, 1, 3) ? mi_heap_new() : nullptr);
    if (mi_heap_get_backing() == nullptr) {
      // the allocator's data for this thread could not be set up (the OS refused memory): every API call must still fail cleanly or do nothing -- never crash
      g_uninit_threads++;
      mi_stats_merge(); mi_thread_stats_print_out(&thread_noout, nullptr); mi_collect_reduce(0); mi_subproc_add_current_thread(mi_subproc_main());
      mi_collect(false); mi_collect(true); (void)mi_heap_get_default(); (void)mi_heap_new(); (void)mi_usable_size(nullptr); mi_free(nullptr); mi_thread_done();
    }
    for (size_t i = 0; i < k; i++) {
      size_t n = (vf_rng_chance(&r, 3, 4) ? (size_t)vf_rng_below(&r, 2048) : (size_t)vf_rng_below(&r, cap));
      bool z = vf_rng_chance(&r, 1, 2) != 0;
      // one block in four (aligned profile: three in four) is over-aligned: pointers INSIDE their blocks that are still live when the thread's pages are abandoned and adopted
      size_t a = 0;
      if (vf_rng_chance(&r, aligned_share, 4)) { a = (size_t)32 << vf_rng_below(&r, 8); if (n == 0) n = 1; if (n > 64 * KiB) n = 1 + n % (64 * KiB); }
      void* p = (a != 0 ? (th != nullptr && (i & 1) ? (z ? mi_heap_zalloc_aligned(th, n, a) : mi_heap_malloc_aligned(th, n, a)) : (z ? mi_zalloc_aligned(n, a) : mi_malloc_aligned(n, a)))
                        : (th != nullptr && (i & 1) ? (z ? mi_heap_zalloc(th, n) : mi_heap_malloc(th, n)) : (z ? mi_zalloc(n) : mi_malloc(n))));
      if (p == nullptr) continue;
      ThreadBlock tb; tb.p = p; tb.n = n; tb.zero = z; tb.a = a; out.push_back(tb);
    }
    // free some of them again so that pages are partially used when the thread exits
    for (size_t i = 0; i < out.size(); ) { if (vf_rng_chance(&r, 1, 3)) { memset(out[i].p, 0xEE, out[i].n); mi_free(out[i].p); out[i] = out.back(); out.pop_back(); } else i++; }
    if (th != nullptr) mi_heap_delete(th);
  });
  t.join();
  } catch (const std::system_error& e) { vf_trip("harness", "", "cannot create a thread: %s", e.what()); }
  for (auto& tb : out) {
    vf::Blk* nb = accept_block(S, tb.p, tb.n, -1, tb.a, 0, tb.zero, tb.a != 0 ? (tb.zero ? EP_zalloc_aligned : EP_malloc_aligned) : (tb.zero ? EP_zalloc : EP_malloc));
    if (group != nullptr && nb != nullptr) group->push_back(nb);
    S.foreign_live++; S.n_foreign++;
  }
  S.n_thread_exits++; S.ep_count[EP_thread_alloc_exit]++;
  hmix(S, 0xD100 + out.size());
  TRACE(S, "thread_alloc_exit %zu blocks", out.size());
  check_errors(S, "thread exit");
}

// small aligned blocks with offsets, on a heap that already has pages of the size class (the fast path that takes a block straight from the page's free list
// when it happens to be aligned): sizes up to 1 KiB, 16 <= alignment <= size, offsets that are multiples of 8 (debug build: of 16) in (0, alignment),
// several blocks per combination so that free-list heads at many residues are met
static void do_small_aligned_pattern(State& S) {
  std::vector<vf::Blk*> got;
  for (int rep = 0; rep < 12; rep++) {
    const size_t n = 24 + 8 * (size_t)below(S, 126);                       // 24 .. 1024
    size_t a = 16; while (a * 2 <= n && chance(S, 2, 3)) a *= 2;           // 16 .. n
    for (int w = 0; w < 3; w++) { vf::Blk* b = do_alloc(S, EP_malloc, n); if (b) got.push_back(b); }   // the class has a page with a free list
    for (int k = 0; k < 10; k++) {
      const size_t step = (S.cfg.debug ? 16 : 8);
      const size_t o = step * (1 + (size_t)below(S, a / step > 1 ? a / step - 1 : 1));
      const bool z = chance(S, 1, 3);
      vf_cur_what = (z ? "zalloc_aligned_at" : "malloc_aligned_at");
      void* p = (z ? mi_zalloc_aligned_at(n, a, o) : mi_malloc_aligned_at(n, a, o));
      if (p == nullptr) continue;
      vf::Blk* b = accept_block(S, p, n, S.cur_default, a, o, z, z ? EP_zalloc_aligned_at : EP_malloc_aligned_at);
      if (b) got.push_back(b);
    }
  }
  for (vf::Blk* b : got) if (chance(S, 3, 4)) do_free(S, b);
}

// over-aligned blocks (pointers INSIDE their blocks) filling about three pages of one size class; then holes in the oldest page and plain allocations of that
// class, so that the allocator searches its page queue and moves an older page to the front while interior pointers are live in it; then every interior pointer is freed
static void do_interior_pages_pattern(State& S) {
  const size_t a = (size_t)64 << below(S, 4);                              // 64 .. 512
  const size_t n = 24 + (size_t)below(S, a);
  size_t cnt = 3 * (64 * KiB / (n + a)) + 20; if (cnt > 1500) cnt = 1500;
  std::vector<vf::Blk*> bs, extra;
  vf_cur_what = "malloc_aligned";
  for (size_t i = 0; i < cnt; i++) { void* p = mi_malloc_aligned(n, a); if (p == nullptr) continue; vf::Blk* b = accept_block(S, p, n, S.cur_default, a, 0, false, EP_malloc_aligned); if (b) bs.push_back(b); }
  for (size_t i = 0; i < bs.size() / 3; i += 2) { do_free(S, bs[i]); bs[i] = nullptr; }
  for (size_t k = 0; k < cnt / 3; k++) { vf::Blk* b = do_alloc(S, EP_malloc, n + a - 1); if (b) extra.push_back(b); }
  for (size_t i = bs.size(); i > 1; i--) std::swap(bs[i - 1], bs[(size_t)below(S, i)]);
  for (vf::Blk* b : bs) if (b) do_free(S, b);
  for (vf::Blk* b : extra) do_free(S, b);
}

// one page of a tiny size class filled to its very last block (pages are extended lazily: the last block is only handed out when all others are live), with
// pages of another class around it: the end of a page's block area against the start of the next slice
static void do_full_tiny_page_pattern(State& S) {
  static const size_t tiny[] = { 1, 8, 8, 8, 16, 24, 40, 56 };
  const size_t n = tiny[below(S, sizeof(tiny) / sizeof(tiny[0]))];
  const size_t bs = mi_good_size(n) + (S.cfg.padding ? 8 : 0);
  size_t count = (64 * KiB) / (bs ? bs : 8) + 40;                          // a little more than one page
  if (S.sm.live.size() + count + 64 > S.cfg.max_live_blocks) return;
  std::vector<vf::Blk*> got;
  for (int k = 0; k < 12; k++) { vf::Blk* b = do_alloc(S, EP_malloc, 1500 + 100 * (size_t)below(S, 10)); if (b) got.push_back(b); }   // neighbours before ...
  for (size_t i = 0; i < count; i++) { vf::Blk* b = do_alloc(S, EP_malloc, n); if (b) got.push_back(b); if (i == count / 2) { vf::Blk* x = do_alloc(S, EP_malloc, 2048); if (x) got.push_back(x); } }
  for (int k = 0; k < 12; k++) { vf::Blk* b = do_alloc(S, EP_malloc, 1500 + 100 * (size_t)below(S, 10)); if (b) got.push_back(b); }   // ... and after
  for (vf::Blk* b : got) S.sm.verify(b, "after filling a page of a tiny class completely");
  for (vf::Blk* b : got) do_free(S, b);
}

// several threads terminate one after the other, each leaving live blocks behind (several abandoned segments at the same time); then the blocks of one thread
// after the other are freed by this thread -- starting with a thread in the middle of the abandonment order -- with a full walk comparison after every group
// (reclaim-on-free takes that segment out of the middle of the abandoned set; the others must still be reported completely)
static void do_abandoned_pattern(State& S) {
  const size_t K = 3 + (size_t)below(S, 3);
  std::vector<std::vector<vf::Blk*>> groups(K);
  {
    // the K threads are alive at the same time (a barrier keeps each from adopting what the others abandon), so each owns segments of its own when it terminates
    std::vector<std::vector<ThreadBlock>> outs(K);
    std::vector<std::thread> ts;
    std::atomic<size_t> ready(0);
    uint64_t tseed = rnd(S);
    vf_cur_what = "abandoned pattern threads";
    try {
      for (size_t k = 0; k < K; k++) ts.emplace_back([&, k]() {
        vf_rng_t r; vf_rng_seed(&r, tseed + k);
        size_t cnt = 2 + (size_t)vf_rng_below(&r, 30);
        for (size_t i = 0; i < cnt; i++) {
          size_t n = (vf_rng_chance(&r, 3, 4) ? 1 + (size_t)vf_rng_below(&r, 2048) : 1 + (size_t)vf_rng_below(&r, 200 * KiB));
          void* p = mi_malloc(n); if (p == nullptr) continue;
          ThreadBlock tb; tb.p = p; tb.n = n; tb.zero = false; outs[k].push_back(tb);
        }
        ready.fetch_add(1);
        while (ready.load() < K) std::this_thread::yield();
      });
      for (auto& t : ts) t.join();
    } catch (const std::system_error& e) { vf_trip("harness", "", "cannot create a thread: %s", e.what()); }
    for (size_t k = 0; k < K; k++) for (auto& tb : outs[k]) {
      vf::Blk* nb = accept_block(S, tb.p, tb.n, -1, 0, 0, false, EP_malloc);
      if (nb != nullptr) groups[k].push_back(nb);
      S.foreign_live++; S.n_foreign++;
    }
    S.n_thread_exits += K; S.ep_count[EP_thread_alloc_exit] += K;
    hmix(S, 0xD200 + K);
    check_errors(S, "thread exit");
  }
  walk_compare(S, "C12");
  std::vector<size_t> order;
  order.push_back(K / 2 + (K > 3 ? (size_t)below(S, 2) : 0));
  for (size_t k = 0; k < K; k++) if (k != order[0]) order.push_back(k);
  for (size_t i = 2; i < order.size(); i++) { size_t j = 1 + (size_t)below(S, i); std::swap(order[i], order[j]); }
  const size_t ngroups = 1 + (size_t)below(S, K);      // some groups stay live and are freed by the ordinary history later
  for (size_t gi = 0; gi < ngroups; gi++) {
    std::vector<vf::Blk*>& g = groups[order[gi]];
    const bool all = chance(S, 3, 4);
    for (size_t i = 0; i < g.size(); i++) {
      if (!all && i > 0) break;                        // only one block: the segment is reclaimed (or not) but stays in use
      if (g[i]->heap < 0) S.foreign_live--;
      do_free(S, g[i]);
    }
    walk_compare(S, "C12");
  }
}

// heap tags: a thread terminates with live blocks in a tagged heap of its own while this thread owns a DESTROYABLE heap with the same tag; this thread then adopts
// the abandoned pages (forced collect in the main thread, reclaim when a fresh segment is needed) and destroys its tagged heap: only the blocks allocated in that
// heap may die, the adopted blocks of the terminated thread must stay valid and must not be handed out again
static void do_tagged_destroy_pattern(State& S) {
  const int tag = 1 + (int)below(S, 6);
  vf_cur_what = "tagged heap pattern";
  mi_heap_t* D = mi_heap_new_ex(tag, true /* allow destroy */, (mi_arena_id_t)0 /* no arena */);
  if (D == nullptr) return;
  HeapEnt he; he.h = D; he.alive = true; S.heaps.push_back(he);
  const int dhi = (int)S.heaps.size() - 1;
  // own blocks of D (not entered into the shadow model as live beyond this function: they die with the destroy)
  std::vector<vf::Blk*> own;
  const size_t cls = (chance(S, 1, 2) ? 16 + (size_t)below(S, 200) : 500 + (size_t)below(S, 6000));
  for (int i = 0; i < 24; i++) { void* p = mi_heap_malloc(D, cls); if (p) { vf::Blk* b = accept_block(S, p, cls, dhi, 0, 0, false, EP_heap_malloc); if (b) own.push_back(b); } }
  std::vector<ThreadBlock> out;
  const size_t cnt = 8 + (size_t)below(S, 120);
  const bool destroyable_there = chance(S, 1, 2);
  try {
    std::thread t([&]() {
      mi_heap_t* T = mi_heap_new_ex(tag, destroyable_there, (mi_arena_id_t)0);
      if (T == nullptr) return;
      for (size_t i = 0; i < cnt; i++) { void* p = mi_heap_malloc(T, cls); if (p) { ThreadBlock tb; tb.p = p; tb.n = cls; tb.zero = false; out.push_back(tb); } }
    });
    t.join();
  } catch (const std::system_error& e) { vf_trip("harness", "", "cannot create a thread: %s", e.what()); }
  std::vector<vf::Blk*> theirs;
  for (auto& tb : out) { vf::Blk* b = accept_foreign(S, tb.p, tb.n); if (b) theirs.push_back(b); }
  S.n_thread_exits++;
  // adoption: a forced collect in the main thread adopts everything abandoned; an allocation that needs a fresh segment may adopt too
  if (chance(S, 1, 2)) { vf::Blk* big = do_alloc(S, EP_malloc, 3 * 1024 * KiB + (size_t)below(S, 4096 * KiB)); if (big) do_free(S, big); }
  if (chance(S, 1, 2) && !theirs.empty()) { vf::Blk* x = theirs.back(); theirs.pop_back(); forget_foreign(S, x); do_free(S, x); }      // reclaim-on-free (when enabled)
  // (always, and before the destroy: a page with this tag that is adopted when no heap with the tag exists any more is reported as an error by design)
  // (mi_collect works on the default heap, which need not be the backing heap in this profile: only a forced collect of the backing heap in the main thread adopts)
  vf_cur_what = "collect (adopts abandoned pages)"; mi_heap_collect(mi_heap_get_backing(), true);
  // destroy D: exactly its own blocks die
  for (vf::Blk* b : own) { S.sm.verify(b, "before heap_destroy (tagged)"); S.sm.remove(b); }
  vf_cur_what = "heap_destroy (tagged)";
  mi_heap_destroy(D);
  S.heaps[dhi].alive = false;
  S.n_heap_destroy++;
  check_errors(S, "heap_destroy (tagged)");
  for (vf::Blk* b : theirs) S.sm.verify(b, "block of a terminated thread after mi_heap_destroy of a heap with the same tag", SIZE_MAX, "C10,C09");
  // blocks released by a wrong destroy would be handed out again here: the shadow model's overlap oracle sees it
  std::vector<vf::Blk*> probe;
  for (int i = 0; i < 200; i++) { vf::Blk* b = do_alloc(S, EP_malloc, cls); if (b) probe.push_back(b); }
  for (vf::Blk* b : theirs) S.sm.verify(b, "block of a terminated thread after re-allocation of its size class", SIZE_MAX, "C10,C09");
  for (vf::Blk* b : probe) do_free(S, b);
  for (vf::Blk* b : theirs) { forget_foreign(S, b); do_free(S, b); }
  hmix(S, 0xE700 + (uint64_t)tag);
}

// A heap that can be destroyed (mi_heap_new) needs fresh segments while a terminated thread's segment waits for adoption: three 12 MiB blocks (at most two fit a segment)
// from the destroyable heap, then mi_heap_destroy.  Exactly the heap's own blocks die: the terminated thread's blocks keep their contents and are not handed out again.
// (Random histories almost never make a first-class heap ask for a fresh segment -- all heaps of a thread share its segments; added for seeded change C09-r7-3.)
static void do_destroyable_adoption_pattern(State& S) {
  vf_cur_what = "destroyable heap adoption pattern";
  const size_t cls = (chance(S, 1, 2) ? 16 + (size_t)below(S, 400) : 500 + (size_t)below(S, 6000));
  std::vector<ThreadBlock> out;
  const size_t cnt = 8 + (size_t)below(S, 120);
  try {
    std::thread t([&]() { for (size_t i = 0; i < cnt; i++) { void* p = mi_malloc(cls); if (p) { ThreadBlock tb; tb.p = p; tb.n = cls; tb.zero = false; out.push_back(tb); } } });
    t.join();
  } catch (const std::system_error& e) { vf_trip("harness", "", "cannot create a thread: %s", e.what()); }
  std::vector<vf::Blk*> theirs;
  for (auto& tb : out) { vf::Blk* b = accept_foreign(S, tb.p, tb.n); if (b) theirs.push_back(b); }
  S.n_thread_exits++;
  mi_heap_t* D = mi_heap_new();
  if (D != nullptr) {
    HeapEnt he; he.h = D; he.alive = true; S.heaps.push_back(he);
    const int dhi = (int)S.heaps.size() - 1;
    for (int i = 0; i < 3; i++) { void* q = mi_heap_malloc(D, 12 * MiB); if (q != nullptr) memset(q, 0x3c, 64); }
    for (int i = 0; i < 30; i++) { void* q = mi_heap_malloc(D, cls); if (q != nullptr) memset(q, 0x3d, cls); }
    vf_cur_what = "heap_destroy (after the heap needed fresh segments)";
    mi_heap_destroy(D);
    S.heaps[dhi].alive = false;
    S.n_heap_destroy++;
    check_errors(S, "heap_destroy (after the heap needed fresh segments)");
  }
  for (vf::Blk* b : theirs) S.sm.verify(b, "block of a terminated thread after mi_heap_destroy of a heap that needed fresh segments", SIZE_MAX, "C09,C10");
  std::vector<vf::Blk*> probe;
  for (int i = 0; i < 300; i++) { vf::Blk* b = do_alloc(S, EP_malloc, cls); if (b) probe.push_back(b); }
  for (vf::Blk* b : theirs) S.sm.verify(b, "block of a terminated thread after re-allocation of its size class", SIZE_MAX, "C09,C10");
  for (vf::Blk* b : probe) do_free(S, b);
  for (vf::Blk* b : theirs) { forget_foreign(S, b); do_free(S, b); }
  hmix(S, 0xE800 + cnt);
}

// ------------------------------------------------------------------------------------------------
// purge range callback (C13): a purge / decommit must never intersect a live block
// ------------------------------------------------------------------------------------------------
static void purge_cb(int cls, void* addr, size_t len, int arg) {
  State& S = *G;
  S.n_purge_ranges++;
  vf::Blk* b = S.sm.find_intersecting((uintptr_t)addr, len);
  if (b != nullptr)
    vf_trip("purge-live", "C13", "%s(%p, %zu, %d) intersects live block id=%llu %p (n=%zu u=%zu ep=%s) during %s",
            cls == VF_OS_MADVISE ? "madvise" : "mprotect", addr, len, arg, (unsigned long long)b->id, (void*)b->p, b->n, b->u, ep_names[b->ep], (const char*)vf_cur_what);
}

// ------------------------------------------------------------------------------------------------
// the history
// ------------------------------------------------------------------------------------------------
struct Weights { unsigned alloc, free_, realloc_, expand, heapop, collect, query, thread; };

static Weights weights_for(State& S) {
  const std::string& p = S.cfg.profile;
  Weights w = { 45, 35, 8, 1, 3, 2, 2, 0 };
  if (p == "aligned") w = Weights{ 45, 30, 16, 3, 2, 2, 2, 0 };
  else if (p == "zero") w = Weights{ 40, 28, 24, 1, 3, 2, 0, 0 };
  else if (p == "realloc") w = Weights{ 28, 20, 40, 6, 2, 2, 2, 0 };
  else if (p == "heaps") w = Weights{ 38, 24, 5, 0, 14, 3, 16, 0 };
  else if (p == "walk") w = Weights{ 46, 44, 3, 0, 3, 3, 1, 0 };
  if (S.cfg.threads) w.thread = 2;
  return w;
}

static void next_phase(State& S) {
  S.phase = (int)below(S, 8);   // 0-2 grow, 3-4 steady, 5-6 shrink, 7 drain
  S.phase_left = 100 + below(S, 600);
  S.victim_mode = (int)below(S, 5);
  S.victim_class = 0;
}

// C12: structured hole patterns inside the pages of one size class, then a walk (random frees alone almost never leave a run of 64
// consecutive live blocks aligned to a bitmap word, a page with a single hole, a single live block, ...)
static void do_walk_pattern(State& S) {
  static const size_t classes[] = { 8, 16, 24, 32, 48, 64, 80, 112, 128, 192, 256, 320, 512, 1000, 1024, 2048, 3000, 4096, 8192, 10000, 16384, 40000 };
  size_t n = classes[below(S, sizeof(classes) / sizeof(classes[0]))];
  size_t bs = mi_good_size(n);
  size_t per_page = (bs <= SMALL_OBJ_MAX ? 64 * KiB : 512 * KiB) / bs; if (per_page == 0) per_page = 1;
  size_t count = per_page * (1 + (size_t)below(S, 3)) + (size_t)below(S, per_page + 1);
  if (count > 9000) count = 9000;
  if (S.sm.live.size() + count > S.cfg.max_live_blocks) return;
  int hi = (chance(S, 1, 3) ? pick_heap(S) : S.cur_default);
  std::vector<vf::Blk*> bs_list;
  S.force_heap = hi;
  for (size_t i = 0; i < count; i++) { vf::Blk* b = do_alloc(S, (hi == S.cur_default ? EP_malloc : EP_heap_malloc), n); if (b) bs_list.push_back(b); }
  S.force_heap = -1;
  std::sort(bs_list.begin(), bs_list.end(), [](vf::Blk* x, vf::Blk* y) { return x->p < y->p; });
  unsigned pat = (unsigned)below(S, 8);
  size_t m = bs_list.size();
  std::vector<char> kill(m, 0);
  switch (pat) {
    case 0: { size_t k = 2 + (size_t)below(S, 8); for (size_t i = 0; i < m; i += k) kill[i] = 1; break; }                  // every k-th freed
    case 1: { size_t k = 2 + (size_t)below(S, 8); for (size_t i = 0; i < m; i++) if (i % k != 0) kill[i] = 1; break; }      // only every k-th stays
    case 2: { size_t h = 1 + (size_t)below(S, 3); for (size_t i = 0; i < h && m > 0; i++) kill[below(S, m)] = 1; break; } // one to three holes
    case 3: { size_t keep = (m ? (size_t)below(S, m) : 0); for (size_t i = 0; i < m; i++) if (i != keep) kill[i] = 1; break; } // a single live block
    case 4: { bool first = chance(S, 1, 2); for (size_t i = 0; i < m; i++) if ((i < m / 2) == first) kill[i] = 1; break; }  // one half
    case 5: { size_t st = (m ? (size_t)below(S, m) : 0), len = 1 + (size_t)below(S, m + 1); for (size_t i = st; i < m && i < st + len; i++) kill[i] = 1; break; } // one contiguous hole
    case 6: { for (size_t g = 0; g * 64 < m; g++) if (g % 2 == 1 || chance(S, 1, 4)) { size_t i = g * 64 + (size_t)below(S, 64); if (i < m) kill[i] = 1; } break; } // whole 64-groups stay live
    default: { for (size_t g = 0; g * 64 < m; g++) { if (chance(S, 1, 2)) continue; for (size_t i = g * 64; i < m && i < g * 64 + 64; i++) if (i % 64 != 63 || chance(S, 1, 2)) kill[i] = 1; } break; } // empty groups with the last slot live
  }
  for (size_t i = 0; i < m; i++) if (kill[i]) do_free(S, bs_list[i]);
  S.n_walk_patterns++;
  walk_compare(S, "C12");
  check_conservation(S, "after a hole pattern", "C12");
  // usually give the rest back so that the history stays small (sometimes it stays and mixes with the ordinary operations)
  if (chance(S, 3, 4)) { for (size_t i = 0; i < m; i++) if (!kill[i]) do_free(S, bs_list[i]); if (chance(S, 1, 3)) walk_compare(S, "C12"); }
}

static Weights g_w;
void history_begin(State& S) {
  if (S.cfg.purge_cb) vf_os_set_purge_cb(&purge_cb);
  g_w = weights_for(S);
  next_phase(S);
  S.op_index = 0;
}

// one operation of the ordinary history (op_index is advanced by the caller)
void history_step(State& S) {
  Weights& w = g_w;
  const bool walkprof = (S.cfg.profile == "walk");
  vf_cur_op = S.op_index;
  if (S.phase_left-- == 0) {
    next_phase(S);
    if (S.phase == 7) {   // drain everything (or most), sometimes collect
      if (chance(S, 1, 2)) free_all(S);
      else { size_t target = S.sm.live.size() / 8; while (S.sm.live.size() > target) { vf::Blk* b = pick_victim(S); if (b->heap < 0) S.foreign_live--; do_free(S, b); } }
      if (chance(S, 2, 3)) { vf_cur_what = "collect"; mi_collect(chance(S, 1, 2)); }
      checkpoint(S, true);
      next_phase(S);
    }
  }
  if (S.cfg.flip_options > 0 && chance(S, 1, (unsigned)S.cfg.flip_options)) {
    // options that the allocator consults while it runs may be changed at any time with mi_option_set (the ones that are only read when a segment or arena is
    // created simply take effect for later segments); the per-thread segment target is only touched when forced abandonment is expected anyway
    vf_cur_what = "mi_option_set";
    switch (below(S, S.cfg.abandon_ok ? 9 : 8)) {
      case 0: { static const long v[] = { -1, 0, 1, 10, 100 }; mi_option_set(mi_option_purge_delay, v[below(S, 5)]); break; }
      case 1: mi_option_set(mi_option_purge_decommits, (long)below(S, 2)); break;
      case 2: mi_option_set(mi_option_purge_extend_delay, (long)below(S, 3)); break;
      case 3: mi_option_set(mi_option_arena_purge_mult, 1 + 9 * (long)below(S, 2)); break;
      case 4: mi_option_set(mi_option_abandoned_page_purge, (long)below(S, 2)); break;
      case 5: mi_option_set(mi_option_abandoned_reclaim_on_free, (long)below(S, 2)); break;
      case 6: mi_option_set(mi_option_eager_commit, (long)below(S, 2)); break;
      case 7: mi_option_set(mi_option_max_segment_reclaim, (long)(below(S, 2) ? 100 : 10)); break;
      default: mi_option_set(mi_option_target_segments_per_thread, 1 + (long)below(S, 4)); break;       // (never back to 0: blocks may already sit in abandoned segments)
    }
    S.n_option_flips++;
  }
  if (S.cfg.clock_jitter > 0 && chance(S, 1, 6)) { int ms = (int)below(S, (uint64_t)S.cfg.clock_jitter + 1); vf_clock_advance_ms(ms); S.n_clock_ms += (uint64_t)ms; }
  unsigned wa = w.alloc, wf = w.free_;
  if (S.phase <= 2) { wa = wa * 3 / 2; wf = wf / 2; } else if (S.phase >= 5) { wa = wa / 2; wf = wf * 3 / 2; }
  bool over = (S.sm.live_bytes > S.cfg.max_live_bytes || S.sm.live.size() > S.cfg.max_live_blocks);
  if (over) { wa = 0; }
  unsigned total = wa + wf + w.realloc_ + w.expand + w.heapop + w.collect + w.query + w.thread;
  unsigned r = (unsigned)below(S, total);
  if (r < wa) { do_alloc(S); }
  else if ((r -= wa) < wf) { vf::Blk* b = pick_victim(S); if (b) { if (b->heap < 0) S.foreign_live--; do_free(S, b); } else do_alloc(S); }
  else if ((r -= wf) < w.realloc_) { if (over) { vf::Blk* b = pick_victim(S); if (b) { if (b->heap < 0) S.foreign_live--; do_free(S, b); } } else do_realloc(S); }
  else if ((r -= w.realloc_) < w.expand) do_expand(S);
  else if ((r -= w.expand) < w.heapop) {
    unsigned k = (unsigned)below(S, 10);
    if (k < 4) do_heap_new(S); else if (k < 6) do_heap_delete(S); else if (k < 8) do_heap_destroy(S); else do_set_default(S);
  }
  else if ((r -= w.heapop) < w.collect) do_collect(S);
  else if ((r -= w.collect) < w.query) do_query(S);
  else { if (chance(S, 1, 2)) do_remote_free_batch(S); else do_thread_alloc_exit(S); }

  if (walkprof && (S.op_index % 160) == 80) do_walk_pattern(S);
  if (walkprof && S.cfg.threads && S.cfg.abandon_ok && (S.op_index % 400) == 200) do_abandoned_pattern(S);
  if (S.cfg.profile == "heaps" && S.cfg.threads && !S.cfg.abandon_ok && (S.op_index % 500) == 250) do_tagged_destroy_pattern(S);
  if ((S.cfg.profile == "heaps" || S.cfg.profile == "general") && S.cfg.threads && !S.cfg.abandon_ok && (S.op_index % 900) == 450) do_destroyable_adoption_pattern(S);
  if (S.cfg.threads && S.cfg.abandon_ok && (S.op_index % 600) == 300) do_force_abandon_pattern(S);
  if ((S.cfg.profile == "general" || S.cfg.profile == "walk") && S.op_index > 0 && (S.op_index % 1500) == 700) do_full_tiny_page_pattern(S);
  if (S.cfg.profile == "aligned" && (S.op_index % 250) == 125) do_small_aligned_pattern(S);
  if (S.cfg.profile == "aligned" && (S.op_index % 500) == 375) do_interior_pages_pattern(S);
  if (S.cfg.trace >= 2 && S.foreign_live == 0) check_conservation(S, "paranoid", "C12");
  if ((S.op_index & 255) == 255) check_conservation(S, "periodic", walkprof ? "C12" : "C12,C05,C10");
  if ((S.op_index & 511) == 511) { vf_cur_what = "verify_all"; S.sm.verify_all("periodic verification"); }
  if (walkprof ? ((S.op_index & 63) == 63) : ((S.op_index & 1023) == 1023)) walk_compare(S, "C12");
}

void history_end(State& S) {
  vf_cur_op = S.op_index;
  vf_cur_what = "final verification";
  S.sm.verify_all("end of history");
  walk_compare(S, "C12");
  check_conservation(S, "end of history", "C12,C05,C10");
  free_all(S);
  vf_cur_what = "final collect"; mi_collect(true);
  check_conservation(S, "after freeing everything", "C05,C10,C12");
  check_errors(S, "end");
}

void run_history(State& S) {
  history_begin(S);
  for (S.op_index = 0; S.op_index < S.cfg.ops; S.op_index++) history_step(S);
  history_end(S);
}

// ------------------------------------------------------------------------------------------------
// result
// ------------------------------------------------------------------------------------------------
static void (*g_printers[8])(FILE*); static int g_nprinters = 0;
void add_result_printer(void (*fn)(FILE*)) { if (g_nprinters < 8) g_printers[g_nprinters++] = fn; }

void result_body(FILE* f) {
  State& S = *G;
  fprintf(f, "\"profile\":\"%s\",\"variant\":\"%s\",\"seed\":%llu,\"ops\":%llu,\"ops_done\":%llu,\"hash\":\"%016llx\",", S.cfg.profile.c_str(), S.cfg.variant.c_str(),
          (unsigned long long)S.cfg.seed, (unsigned long long)S.cfg.ops, (unsigned long long)S.op_index, (unsigned long long)S.hash);
  fprintf(f, "\"allocs_through_realloc_of_NULL\":%llu,\"option_flips\":%llu,", (unsigned long long)S.n_alloc_via_realloc_null, (unsigned long long)S.n_option_flips);
  fprintf(f, "\"allocs\":%llu,\"alloc_null\":%llu,\"frees\":%llu,\"reallocs\":%llu,\"realloc_inplace\":%llu,\"realloc_moved\":%llu,\"realloc_null\":%llu,\"realloc_mustfail\":%llu,\"expand_ok\":%llu,\"expand_null\":%llu,",
          (unsigned long long)S.n_alloc, (unsigned long long)S.n_alloc_null, (unsigned long long)S.n_free, (unsigned long long)S.n_realloc, (unsigned long long)S.n_realloc_inplace,
          (unsigned long long)S.n_realloc_moved, (unsigned long long)S.n_realloc_null, (unsigned long long)S.n_realloc_mustfail, (unsigned long long)S.n_expand_ok, (unsigned long long)S.n_expand_null);
  fprintf(f, "\"zero_checked\":%llu,\"zero_bytes\":%llu,\"zero_reused_dirty\":%llu,\"zgrow_inplace\":%llu,\"zgrow_moved\":%llu,\"aligned\":%llu,\"interior\":%llu,",
          (unsigned long long)S.n_zero_checked, (unsigned long long)S.n_zero_bytes, (unsigned long long)S.n_zero_reused_dirty, (unsigned long long)S.n_zgrow_inplace, (unsigned long long)S.n_zgrow_moved,
          (unsigned long long)S.n_aligned, (unsigned long long)S.n_interior);
  fprintf(f, "\"walk_patterns\":%llu,\"walks\":%llu,\"walk_blocks\":%llu,\"conservation_checks\":%llu,\"queries\":%llu,\"heap_new\":%llu,\"heap_delete\":%llu,\"heap_destroy\":%llu,\"drains\":%llu,",
          (unsigned long long)S.n_walk_patterns, (unsigned long long)S.n_walks, (unsigned long long)S.n_walk_blocks, (unsigned long long)S.n_conserv, (unsigned long long)S.n_queries, (unsigned long long)S.n_heap_new,
          (unsigned long long)S.n_heap_delete, (unsigned long long)S.n_heap_destroy, (unsigned long long)S.n_drain);
  fprintf(f, "\"threads_without_allocator_data\":%llu,", (unsigned long long)g_uninit_threads.load());
  fprintf(f, "\"remote_batches\":%llu,\"thread_exits\":%llu,\"foreign_blocks\":%llu,\"purge_ranges_checked\":%llu,\"clock_ms\":%llu,\"max_live_blocks\":%llu,\"max_live_bytes\":%llu,\"verified_blocks\":%llu,\"verified_bytes\":%llu,",
          (unsigned long long)S.n_remote_batches, (unsigned long long)S.n_thread_exits, (unsigned long long)S.n_foreign, (unsigned long long)S.n_purge_ranges, (unsigned long long)S.n_clock_ms,
          (unsigned long long)S.max_live_blocks, (unsigned long long)S.max_live_bytes, (unsigned long long)S.sm.verified_blocks, (unsigned long long)S.sm.verified_bytes);
  fprintf(f, "\"bins_hit\":%zu,\"kinds\":[%llu,%llu,%llu,%llu],", S.bins_hit.size(), (unsigned long long)S.kind_hits[0], (unsigned long long)S.kind_hits[1], (unsigned long long)S.kind_hits[2], (unsigned long long)S.kind_hits[3]);
  fputs("\"eps\":{", f);
  bool first = true;
  for (int i = 0; i < EP__N; i++) if (S.ep_count[i]) { fprintf(f, "%s\"%s\":%llu", first ? "" : ",", ep_names[i], (unsigned long long)S.ep_count[i]); first = false; }
  fputs("},\"align_hist\":{", f);
  first = true;
  for (auto& a : S.align_hist) { fprintf(f, "%s\"%zu\":%llu", first ? "" : ",", a.first, (unsigned long long)a.second); first = false; }
  fputs("},", f);
  // allocator statistics (evidence only)
  mi_stats_t st; memset(&st, 0, sizeof(st)); mi_stats_merge(); mi_stats_get(sizeof(st), &st);
  fprintf(f, "\"mi\":{\"pages_extended\":%lld,\"pages_retire\":%lld,\"segments_total\":%lld,\"purge_calls\":%lld,\"commit_calls\":%lld,\"mmap_calls\":%lld,\"page_searches\":%lld,\"huge_count\":%lld,\"pages_abandoned\":%lld},",
          (long long)st.pages_extended.total, (long long)st.pages_retire.total, (long long)st.segments.total, (long long)st.purge_calls.total, (long long)st.commit_calls.total,
          (long long)st.mmap_calls.total, (long long)st.page_searches.total, (long long)st.malloc_huge_count.total, (long long)st.pages_abandoned.total);
  vf_os_counts_t c; vf_os_get_counts(&c);
  fprintf(f, "\"os\":{\"mmap\":%llu,\"munmap\":%llu,\"mprotect\":%llu,\"madvise\":%llu,\"purge_calls\":%llu,\"purge_bytes\":%llu,\"injected\":%llu,\"failed_real\":%llu,\"clock_calls\":%llu}",
          (unsigned long long)c.calls[0], (unsigned long long)c.calls[1], (unsigned long long)c.calls[2], (unsigned long long)c.calls[3], (unsigned long long)c.purge_calls, (unsigned long long)c.purge_bytes,
          (unsigned long long)(c.injected[0] + c.injected[1] + c.injected[2] + c.injected[3]), (unsigned long long)(c.failed_real[0] + c.failed_real[1] + c.failed_real[2] + c.failed_real[3]),
          (unsigned long long)c.clock_calls);
  for (int i = 0; i < g_nprinters; i++) g_printers[i](f);
}

} // namespace seq

using namespace seq;

// known finding K2 (C10): mi_heap_delete of a heap whose tag differs from the backing heap's cannot hand its pages to the backing heap and abandons them although
// the thread lives on; the blocks must stay valid and individually freeable (C10) -- a free by the same thread that empties such a page (or hits a full one) dereferences
// the page's heap, which is NULL.  One dedicated case per run exercises exactly that.
static size_t g_tdr_growth_plain = 0, g_tdr_growth_tagged = 0;
static void run_tagged_delete(State& S) {
  S.sm.refutes_generic = "C10";
  vf_crash_refutes = "C10";
  const int tag = 1 + (int)below(S, 6);
  mi_heap_t* h = mi_heap_new_ex(tag, false /* not destroyable */, (mi_arena_id_t)0);
  if (h == nullptr) vf_trip("harness", "", "mi_heap_new_ex failed");
  std::vector<vf::Blk*> bs;
  const size_t cls = 16 + (size_t)below(S, 400);
  const size_t cnt = 600 + (size_t)below(S, 2000);
  for (size_t i = 0; i < cnt; i++) { void* q = mi_heap_malloc(h, cls); if (q) { vf::Blk* b = accept_block(S, q, cls, -1, 0, 0, false, EP_heap_malloc); if (b) { bs.push_back(b); S.foreign_live++; } } }
  vf_cur_what = "mi_heap_delete of a tagged heap";
  mi_heap_delete(h);
  for (vf::Blk* b : bs) S.sm.verify(b, "after mi_heap_delete of a tagged heap", SIZE_MAX, "C10");
  vf_cur_what = "free after mi_heap_delete of a tagged heap";
  for (vf::Blk* b : bs) { S.foreign_live--; S.sm.verify(b, "before free"); void* q = b->p; S.sm.remove(b); mi_free(q); }
  check_errors(S, "free after mi_heap_delete of a tagged heap");
  vf_cur_what = "allocation after the frees";
  for (int i = 0; i < 500; i++) { vf::Blk* b = do_alloc(S, EP_malloc, cls); if (b && (i & 1)) do_free(S, b); }
  S.sm.verify_all("end");
  free_all(S);
}

// known finding K2, memory side (C08): the blocks of a deleted tagged heap are freed by ANOTHER thread.  Their pages were abandoned inside segments the deleting thread still
// owns (a long-lived block of its default heap lives there); the frees land on the pages' thread-free lists, which nothing reads again while the thread lives: the memory
// is lost to the thread and a bounded workload grows without bound.  One dedicated case per run shows exactly that (and the same rounds with tag 0 as control: bounded).
static void run_tagged_delete_remote(State& S) {
  S.sm.refutes_generic = "C08";
  vf_crash_refutes = "C08";
  const size_t bsz = 200 + (size_t)below(S, 1800);
  const size_t per_round = (2 * MiB) / bsz;
  const int rounds = 40;
  std::vector<vf::Blk*> keep;
  size_t base[2] = {0, 0}, fin[2] = {0, 0};
  for (int tagged = 0; tagged <= 1; tagged++) {
    vf_cur_what = "mi_collect";
    mi_collect(true);
    base[tagged] = vf_os_committed_resident(0, 0);
    for (int r = 0; r < rounds; r++) {
      mi_heap_t* h = mi_heap_new_ex(tagged ? 1 + (r % 5) : 0, false, (mi_arena_id_t)0);
      if (h == nullptr) vf_trip("harness", "", "mi_heap_new_ex failed");
      std::vector<void*> ps;
      vf_cur_what = "heap_malloc";
      for (size_t i = 0; i < per_round; i++) { void* q = mi_heap_malloc(h, bsz); if (q) { memset(q, 0x33, bsz); ps.push_back(q); } }
      vf::Blk* k = do_alloc(S, EP_malloc, 150 * KiB); if (k) keep.push_back(k);         // one long-lived block of the default heap per round
      vf_cur_what = "mi_heap_delete";
      mi_heap_delete(h);
      vf_cur_what = "frees by another thread";
      std::thread t([&ps]() { for (void* q : ps) mi_free(q); });
      t.join();
      vf_cur_what = "mi_collect";
      mi_collect(true);
    }
    fin[tagged] = vf_os_committed_resident(0, 0);
    for (vf::Blk* k : keep) do_free(S, k);
    keep.clear();
  }
  g_tdr_growth_plain = (fin[0] > base[0] ? fin[0] - base[0] : 0); g_tdr_growth_tagged = (fin[1] > base[1] ? fin[1] - base[1] : 0);
  const size_t live = (size_t)rounds * 150 * KiB;
  vf_cur_what = "blocks of a deleted tagged heap freed by another thread";
  if (g_tdr_growth_plain > live + 24 * MiB)
    vf_trip("blow-up", "C08", "control (tag 0): %d rounds of {heap, 2 MiB of blocks, one long-lived 150 KiB block, delete, frees by another thread, collect} grew the committed memory by %zu bytes (%zu live)", rounds, g_tdr_growth_plain, live);
  if (g_tdr_growth_tagged > live + 24 * MiB)
    vf_trip("blow-up-tagged", "C08", "%d rounds of {tagged heap, 2 MiB of blocks, one long-lived 150 KiB block of the default heap, mi_heap_delete, all blocks freed by another thread, mi_collect(true)} grew the committed "
            "memory by %zu bytes although only %zu bytes are live (the same rounds with tag 0: %zu bytes)", rounds, g_tdr_growth_tagged, live, g_tdr_growth_plain);
  check_errors(S, "deleted tagged heaps freed remotely");
  S.sm.verify_all("end");
  free_all(S);
}

// C08, first clause, exactly: "a block freed by a thread other than the one that allocated it becomes reusable by the owning thread".
// Several rounds with one size class each: N blocks fill pages of a fresh heap of this thread completely -- allocated by this thread itself, or (adoption rounds) by a
// thread that terminates, after which this thread adopts its pages (forced collect in the main thread, or reclaim-on-free) --, a few more blocks are allocated so that
// the full pages are moved to the full queue, another thread frees a subset (every 2nd, every 3rd, a random half, all but one per page), the owner collects WITHOUT
// force and allocates exactly as many blocks of that class again.  Those must be served from the freed blocks: the number of pages (areas of the heap walk) after the
// re-allocation must not exceed the number before the frees (+1 for a page that became empty and was released or retired in between).
static uint64_t g_reuse_rounds = 0, g_reuse_adopted_rounds = 0, g_reuse_blocks = 0;
static void reuse_print(FILE* f) { fprintf(f, ",\"reuse\":{\"rounds\":%llu,\"adoption_rounds\":%llu,\"blocks_freed_remotely_and_reallocated\":%llu}", (unsigned long long)g_reuse_rounds, (unsigned long long)g_reuse_adopted_rounds, (unsigned long long)g_reuse_blocks); }
struct AreaCount { size_t areas = 0, used = 0; };
static bool area_count_visitor(const mi_heap_t*, const mi_heap_area_t* area, void* block, size_t, void* arg) { if (block == nullptr) { AreaCount* c = (AreaCount*)arg; c->areas++; c->used += area->used; } return true; }
static AreaCount count_areas(mi_heap_t* h) { AreaCount c; mi_heap_visit_blocks(h, false, &area_count_visitor, &c); return c; }
static void run_reuse_after_remote_free(State& S) {
  S.sm.refutes_generic = "C08";
  vf_crash_refutes = "C08";
  add_result_printer(&reuse_print);
  static const size_t classes[] = { 16, 48, 64, 200, 512, 1024, 3000, 8000, 20000, 60000 };
  const int rounds = 12;
  for (int r = 0; r < rounds; r++) {
    const size_t bsz = classes[below(S, sizeof(classes) / sizeof(classes[0]))] + (size_t)below(S, 8);
    const size_t N = (bsz <= 1024 ? 2000 + (size_t)below(S, 3000) : bsz <= 8192 ? 400 + (size_t)below(S, 400) : 40 + (size_t)below(S, 60));
    const int adopt = (int)below(S, 3);           // 0: own blocks; 1: adopted by a forced collect of the main thread; 2: adopted by reclaim-on-free
    const int pat = (int)below(S, 4);
    std::vector<void*> ps;
    mi_heap_t* H = mi_heap_get_backing();
    vf_cur_what = "reuse: allocation";
    if (adopt == 0) { for (size_t i = 0; i < N; i++) { void* q = mi_malloc(bsz); if (q) { memset(q, 0x42, bsz); ps.push_back(q); } } }
    else {
      if (adopt == 2) mi_option_set(mi_option_abandoned_reclaim_on_free, 1);
      try { std::thread t([&]() { for (size_t i = 0; i < N; i++) { void* q = mi_malloc(bsz); if (q) { memset(q, 0x42, bsz); ps.push_back(q); } } }); t.join(); }
      catch (const std::system_error& e) { vf_trip("harness", "", "cannot create a thread: %s", e.what()); }
      vf_cur_what = "reuse: adoption";
      if (adopt == 1) mi_collect(true);
      else { for (size_t i = 0; i < ps.size(); i += 97) { mi_free(ps[i]); ps[i] = nullptr; } std::vector<void*> q2; for (void* q : ps) if (q) q2.push_back(q); ps.swap(q2); mi_option_set(mi_option_abandoned_reclaim_on_free, 0); }
      // adopted?  (every block must now be attributed to this thread's heap; otherwise the round says nothing about the owner and is skipped)
      bool all = true; for (size_t i = 0; i < ps.size(); i += 13) if (!mi_heap_check_owned(H, ps[i])) { all = false; break; }
      if (!all) { for (void* q : ps) mi_free(q); mi_collect(true); continue; }
      g_reuse_adopted_rounds++;
    }
    // walk the page queue of the class: completely used pages are moved to the full queue by allocations that pass over them
    std::vector<void*> extra;
    for (int i = 0; i < 64; i++) { void* q = mi_malloc(bsz); if (q) extra.push_back(q); }
    const AreaCount before = count_areas(H);
    // another thread frees a subset
    std::vector<void*> tofree, kept;
    vf_rng_t rr; vf_rng_seed(&rr, S.cfg.seed * 977 + (uint64_t)r);
    for (size_t i = 0; i < ps.size(); i++) {
      bool f = (pat == 0 ? (i % 2 == 0) : pat == 1 ? (i % 3 == 0) : pat == 2 ? vf_rng_chance(&rr, 1, 2) != 0 : (i % 16 != 5));
      (f ? tofree : kept).push_back(ps[i]);
    }
    vf_cur_what = "reuse: frees by another thread";
    try { std::thread t([&tofree]() { for (void* q : tofree) mi_free(q); }); t.join(); }
    catch (const std::system_error& e) { vf_trip("harness", "", "cannot create a thread: %s", e.what()); }
    vf_cur_what = "reuse: non-forced collect by the owner";
    mi_collect(false);
    vf_cur_what = "reuse: re-allocation";
    std::vector<void*> again;
    for (size_t i = 0; i < tofree.size(); i++) { void* q = mi_malloc(bsz); if (q) { memset(q, 0x43, bsz); again.push_back(q); } }
    const AreaCount after = count_areas(H);
    g_reuse_rounds++; g_reuse_blocks += tofree.size();
    if (after.areas > before.areas + 1)
      vf_trip("remote-frees-not-reusable", "C08", "round %d: %zu blocks of %zu bytes (%s) filled pages of this thread's heap (%zu areas, %zu used blocks); another thread freed %zu of them, the owner collected "
              "(not forced) and allocated %zu blocks of the same size again: the heap now has %zu areas -- the freed blocks were not reused", r, ps.size(), bsz,
              adopt == 0 ? "allocated by this thread" : adopt == 1 ? "allocated by a thread that terminated, adopted by a forced collect" : "allocated by a thread that terminated, adopted on free",
              before.areas, before.used, tofree.size(), again.size(), after.areas);
    for (void* q : kept) { if (((unsigned char*)q)[0] != 0x42 || ((unsigned char*)q)[bsz - 1] != 0x42) vf_trip("contents", "C08", "round %d: a live block changed", r); mi_free(q); }
    for (void* q : again) mi_free(q);
    for (void* q : extra) mi_free(q);
    mi_collect(true);
    check_errors(S, "reuse round");
  }
  S.sm.verify_all("end");
  free_all(S);
}

// known finding K3 (C13, C10): with a per-thread segment target (target_segments_per_thread > 0, or mi_collect_reduce) a thread that needs a fresh segment abandons
// whole segments of its own -- with the pages of EVERY heap of the thread that live there, also those of a heap made with mi_heap_new: its live blocks are then no
// longer attributed to it (mi_heap_contains_block / mi_heap_check_owned) and mi_heap_destroy no longer releases them.  One dedicated case per run shows exactly that.
static void run_target_heap(State& S) {
  S.sm.refutes_generic = "C13";
  vf_crash_refutes = "C13";
  mi_heap_t* H = mi_heap_new();
  if (H == nullptr) vf_trip("harness", "", "mi_heap_new failed");
  HeapEnt he; he.h = H; he.alive = true; S.heaps.push_back(he);
  const int hi = (int)S.heaps.size() - 1;
  const size_t sz = 600 + (size_t)below(S, 600);
  const size_t N = 30000 + (size_t)below(S, 20000);
  std::vector<vf::Blk*> hb, db;
  // blocks of H and of the default heap, interleaved: both heaps have full pages in the same segments
  for (size_t i = 0; i < N; i++) {
    void* p = mi_heap_malloc(H, sz); if (p) { vf::Blk* b = accept_block(S, p, sz, hi, 0, 0, false, EP_heap_malloc); if (b) hb.push_back(b); }
    vf::Blk* d = do_alloc(S, EP_malloc, sz); if (d) db.push_back(d);
  }
  vf_cur_what = "mi_option_set(target_segments_per_thread)";
  mi_option_set(mi_option_target_segments_per_thread, 2);
  for (size_t i = 0; i < N; i++) { vf::Blk* d = do_alloc(S, EP_malloc, sz); if (d) db.push_back(d); }      // needs fresh segments: the thread abandons segments of its own
  vf_cur_what = "query under a per-thread segment target";
  size_t bad = 0; void* first = nullptr;
  for (vf::Blk* b : hb) { S.sm.verify(b, "block of a first-class heap under a per-thread segment target", SIZE_MAX, "C13"); if (!mi_heap_contains_block(H, b->p) || !mi_heap_check_owned(H, b->p)) { bad++; if (!first) first = b->p; } }
  if (bad > 0)
    vf_trip("heap-contains-block", "C13,C10", "after target_segments_per_thread was set to 2 and the default heap allocated %zu more blocks, %zu of %zu live blocks of a heap made with mi_heap_new are "
            "no longer attributed to it (first: %p): their pages were abandoned by force together with their segment", N, bad, hb.size(), first);
  // exactly the blocks of H die with it
  for (vf::Blk* b : hb) S.sm.remove(b);
  mi_heap_destroy(H); S.heaps[hi].alive = false;
  for (vf::Blk* d : db) do_free(S, d);
  S.sm.verify_all("end");
}

int main(int argc, char** argv) {
  static State S;
  G = &S;
  S.cfg.profile = vf_getarg(argc, argv, "--profile", "general");
  S.cfg.prop = vf_getarg(argc, argv, "--prop", "C01");
  S.cfg.variant = vf_getarg(argc, argv, "--variant", "rel");
  S.cfg.seed = (uint64_t)vf_getarg_ll(argc, argv, "--seed", 1);
  S.cfg.ops = (uint64_t)vf_getarg_ll(argc, argv, "--ops", 4000);
  S.cfg.padding = vf_getarg_ll(argc, argv, "--padding", 0) != 0;
  S.cfg.debug = vf_getarg_ll(argc, argv, "--debug", 0) != 0;
  S.cfg.secure = vf_getarg_ll(argc, argv, "--secure", 0) != 0;
  S.cfg.allow_null = vf_getarg_ll(argc, argv, "--allow-null", 0) != 0;
  S.cfg.clock_jitter = (int)vf_getarg_ll(argc, argv, "--clock-jitter", 0);
  S.cfg.flip_options = (int)vf_getarg_ll(argc, argv, "--flip-options", 0);
  S.cfg.purge_cb = vf_getarg_ll(argc, argv, "--purge-cb", 0) != 0;
  S.cfg.threads = vf_getarg_ll(argc, argv, "--threads", 0) != 0;
  S.cfg.size_cap = (uint64_t)vf_getarg_ll(argc, argv, "--size-cap", 0);
  S.cfg.trace = (int)vf_getarg_ll(argc, argv, "--trace", 0);
  S.cfg.size_mode = (int)vf_getarg_ll(argc, argv, "--size-mode", 0);
  S.cfg.generic = vf_getarg(argc, argv, "--generic", "");
  S.cfg.abandon_ok = vf_getarg_ll(argc, argv, "--abandon-ok", 0) != 0;
  S.cfg.workload = (int)vf_getarg_ll(argc, argv, "--workload", 0);
  S.cfg.faults = vf_getarg(argc, argv, "--faults", "");
  S.cfg.reps = (int)vf_getarg_ll(argc, argv, "--reps", 6);
  S.cfg.scenario = vf_getarg(argc, argv, "--scenario", "all");
  S.cfg.max_live_bytes = (size_t)vf_getarg_ll(argc, argv, "--max-live-mb", 192) << 20;
  vf_rng_seed(&S.rng, S.cfg.seed);
  vf_result_body = &result_body;
  vf_crash_refutes = generic_refutes();
  vf_install_crash_handler();
  mi_register_error(&vf_error_cb, nullptr);
  mi_register_output(&vf_output_cb, nullptr);
  S.sm.refutes_generic = generic_refutes();
  if (S.cfg.profile == "walk" && S.cfg.size_cap == 0) S.cfg.size_cap = 300 * 1024;
  if (S.cfg.profile == "heaps" && S.cfg.size_cap == 0) S.cfg.size_cap = 1024 * 1024;
  HeapEnt e; e.h = mi_heap_get_backing(); e.alive = true; S.heaps.push_back(e);

  const std::string& p = S.cfg.profile;
  if (p == "malformed") run_malformed(S);
  else if (p == "hardening") run_hardening(S);
  else if (p == "ledger" || p == "purge" || p == "faults") run_os_profile(S);
  else if (p == "arena") run_arena_profile(S);
  else if (p == "tagged-delete") run_tagged_delete(S);
  else if (p == "target-heap") run_target_heap(S);
  else if (p == "tagged-delete-remote") { S.cfg.tags_in_use = true; run_tagged_delete_remote(S); }
  else if (p == "reuse-after-remote-free") run_reuse_after_remote_free(S);
  else run_history(S);
  vf_finish_ok();
}
