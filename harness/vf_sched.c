/* vf_sched.c -- schedule controller (see vf_sched.h, vf_hooks.h).
   Real pthreads; in baton mode a per-thread semaphore passes the right to run. The controller only
   decides who runs when: every schedule it produces is an execution the program can have.
   All memory here comes from libc (mimalloc is linked without override). */
#define _GNU_SOURCE
#include "vf_sched.h"
#include <pthread.h>
#include <semaphore.h>
#include <sched.h>
#include <stdlib.h>
#include <string.h>
#include <time.h>
#include <unistd.h>

volatile int vf_mode = 0;
void vf_point_slow(int kind, const volatile void* addr, const char* func);
int  vf_spurious_slow(const char* func);
void vf_yield_slow(const char* func);
void vf_lock_contended_slow(const char* func);

enum { T_RUNNABLE = 1, T_DONE = 2 };

typedef struct vf_thread_s {
  sem_t        sem;
  pthread_t    pt;
  int          index;
  int          state;
  int          joined;
  int          prio;         /* PCT */
  uint64_t     npoints;      /* points executed by this thread (script policy) */
  uint64_t     ncas;         /* weak CAS executed by this thread (script policy) */
  volatile void* sb_addr; unsigned sb_size; unsigned long long sb_val; int sb_loads_left;   /* simulated store buffer: at most one pending store */
  uint64_t     rng;
  vf_thread_fn fn;
  void*        arg;
} vf_thread_t;

#define VF_MAX_THREADS 256
static vf_thread_t*    g_threads[VF_MAX_THREADS];
static int             g_nthreads = 0;
static pthread_mutex_t g_mu = PTHREAD_MUTEX_INITIALIZER;
static vf_sched_cfg_t  g_cfg;
static int             g_free_run = 0;        /* budget exceeded: everybody runs */
static int             g_started = 0;
static __thread vf_thread_t* t_self = NULL;
static __thread uint64_t     t_rng_unmanaged = 0;

/* statistics (updated by the baton holder only in baton mode; atomics in delay mode) */
static uint64_t g_points, g_switches, g_forced, g_spurious, g_delays, g_hash = 1469598103934665603ull;
static int      g_budget_exceeded = 0;
static uint64_t g_delayed_stores = 0, g_loads_overtaking = 0;
static uint64_t g_pct_change[8];
static int      g_pct_next_low = -1;
/* script policy */
typedef struct { int victim; uint64_t k; int target; int spurious; int fired; } script_ent;
#define VF_MAX_SCRIPT 16
static script_ent g_script[VF_MAX_SCRIPT];
static int        g_nscript = 0, g_script_fired = 0;
static int        g_lifo[VF_MAX_SCRIPT * 4]; static int g_nlifo = 0;

/* per function table keyed by the address of the __func__ string */
#define FT_SIZE 1024
typedef struct { const char* name; uint64_t points, switches; uint32_t nhash; int hot; } ft_ent;
static ft_ent g_ft[FT_SIZE];

static inline uint64_t xs64(uint64_t* s) {
  uint64_t x = *s; x ^= x << 13; x ^= x >> 7; x ^= x << 17; *s = x; return x * 0x2545F4914F6CDD1Dull;
}
static uint64_t mix64(uint64_t x) { x ^= x >> 33; x *= 0xff51afd7ed558ccdull; x ^= x >> 33; x *= 0xc4ceb9fe1a85ec53ull; x ^= x >> 33; return x; }

static int is_hot_name(const char* name) {
  if (g_cfg.hot == NULL || g_cfg.hot[0] == 0) return 0;
  const char* s = g_cfg.hot;
  char tok[96];
  while (*s) {
    size_t n = strcspn(s, ",");
    if (n > 0 && n < sizeof(tok)) { memcpy(tok, s, n); tok[n] = 0; if (strstr(name, tok) != NULL) return 1; }
    s += n; if (*s == ',') s++;
  }
  return 0;
}

static ft_ent* ft_get(const char* func) {
  size_t h = (size_t)(mix64((uint64_t)(uintptr_t)func) % FT_SIZE);
  for (int i = 0; i < FT_SIZE; i++) {
    ft_ent* e = &g_ft[(h + i) % FT_SIZE];
    if (e->name == func) return e;
    if (e->name == NULL) {
      /* claim (racy in delay mode: guarded by CAS on the name) */
      const char* expect = NULL;
      if (__atomic_compare_exchange_n(&e->name, &expect, func, 0, __ATOMIC_ACQ_REL, __ATOMIC_ACQUIRE)) {
        uint32_t nh = 2166136261u; for (const char* c = func; *c; c++) { nh = (nh ^ (uint8_t)*c) * 16777619u; }
        e->nhash = nh; e->hot = is_hot_name(func);
        return e;
      }
      if (e->name == func) return e;
    }
  }
  return &g_ft[0];
}

uint64_t vf_rand(void) {
  if (t_self != NULL) return xs64(&t_self->rng);
  if (t_rng_unmanaged == 0) t_rng_unmanaged = mix64(g_cfg.seed ^ (uint64_t)(uintptr_t)&t_rng_unmanaged) | 1;
  return xs64(&t_rng_unmanaged);
}

int vf_self_index(void) { return (t_self != NULL ? t_self->index : -1); }

void vf_sched_init(const vf_sched_cfg_t* cfg) {
  g_cfg = *cfg;
  if (g_cfg.step_budget == 0) g_cfg.step_budget = 200ull * 1000 * 1000;
  if (g_cfg.policy == VF_POL_PCT) {
    uint64_t s = mix64(g_cfg.seed ^ 0x5043545f) | 1;
    if (g_cfg.pct_depth > 8) g_cfg.pct_depth = 8;
    uint64_t est = (g_cfg.pct_steps ? g_cfg.pct_steps : 100000);
    for (int i = 0; i < g_cfg.pct_depth; i++) g_pct_change[i] = xs64(&s) % est;
  }
  g_nscript = 0;
  if (g_cfg.policy == VF_POL_SCRIPT && g_cfg.script != NULL) {
    const char* c = g_cfg.script;
    while (*c && g_nscript < VF_MAX_SCRIPT) {
      char* e = NULL;
      long v = strtol(c, &e, 10); if (e == c || *e != ':') break; c = e + 1;
      long k = strtol(c, &e, 10); if (e == c || *e != ':') break; c = e + 1;
      script_ent se; memset(&se, 0, sizeof(se)); se.victim = (int)v; se.k = (uint64_t)k;
      if (*c == 's') { se.spurious = 1; se.target = -1; c++; }
      else { long t = strtol(c, &e, 10); if (e == c) break; c = e; se.target = (int)t; }
      g_script[g_nscript++] = se;
      if (*c == ',') c++;
    }
  }
  vf_mode = g_cfg.mode;
}

/* script policy: who continues when `self` finishes or waits (caller holds g_mu) */
static vf_thread_t* pick_script_next(vf_thread_t* self) {
  while (g_nlifo > 0) {
    vf_thread_t* t = g_threads[g_lifo[--g_nlifo]];
    if (t != self && t->state == T_RUNNABLE) return t;
  }
  int start = (self != NULL ? self->index + 1 : 0);
  for (int i = 0; i < g_nthreads; i++) {
    vf_thread_t* t = g_threads[(start + i) % g_nthreads];
    if (t != self && t->state == T_RUNNABLE) return t;
  }
  return NULL;
}

/* pick the next thread to run (caller holds g_mu); returns NULL if no other runnable thread */
static vf_thread_t* pick_other(vf_thread_t* self, uint64_t r) {
  vf_thread_t* cand[VF_MAX_THREADS]; int n = 0;
  for (int i = 0; i < g_nthreads; i++) {
    vf_thread_t* t = g_threads[i];
    if (t != self && t->state == T_RUNNABLE) cand[n++] = t;
  }
  if (n == 0) return NULL;
  if (g_cfg.policy == VF_POL_PCT) {
    vf_thread_t* best = cand[0];
    for (int i = 1; i < n; i++) if (cand[i]->prio > best->prio) best = cand[i];
    return best;
  }
  return cand[r % (uint64_t)n];
}

static void hand_over(vf_thread_t* self, vf_thread_t* next, ft_ent* fe, int forced) {
  g_switches++; if (forced) g_forced++;
  if (fe) fe->switches++;
  g_hash = (g_hash ^ (uint64_t)((uint32_t)next->index * 2654435761u + (fe ? fe->nhash : 0)) ^ ((self ? self->npoints : 0) << 32)) * 1099511628211ull;
  sem_post(&next->sem);
  if (self != NULL) {
    while (sem_wait(&self->sem) != 0) { /* EINTR */ }
  }
}

static void release_all(void) {
  /* budget exceeded: let everybody run freely (result is reported as inconclusive by the driver) */
  g_free_run = 1; g_budget_exceeded = 1;
  for (int i = 0; i < g_nthreads; i++) { if (g_threads[i] != t_self) sem_post(&g_threads[i]->sem); }
}


/* ---- simulated store buffer (baton mode only) ---- */
static void sb_flush(vf_thread_t* t) {
  if (t == NULL || t->sb_addr == NULL) return;
  volatile void* a = t->sb_addr; t->sb_addr = NULL;
  switch (t->sb_size) {
    case 1: __atomic_store_n((volatile uint8_t*)a,  (uint8_t)t->sb_val,  __ATOMIC_RELEASE); break;
    case 2: __atomic_store_n((volatile uint16_t*)a, (uint16_t)t->sb_val, __ATOMIC_RELEASE); break;
    case 4: __atomic_store_n((volatile uint32_t*)a, (uint32_t)t->sb_val, __ATOMIC_RELEASE); break;
    default: __atomic_store_n((volatile uint64_t*)a, (uint64_t)t->sb_val, __ATOMIC_RELEASE); break;
  }
}
int vf_store_delay_slow(volatile void* addr, unsigned size, unsigned long long value, const char* func) {
  (void)func;
  vf_thread_t* self = t_self;
  if (vf_mode != VF_MODE_BATON || self == NULL || g_free_run || g_cfg.tso_den == 0) return 0;
  /* (the point of this store already flushed an older pending store: stores of one thread stay in order) */
  if ((xs64(&self->rng) >> 12) % g_cfg.tso_den != 0) return 0;
  self->sb_addr = addr; self->sb_size = size; self->sb_val = value; self->sb_loads_left = 2;
  g_delayed_stores++;
  return 1;
}

static void baton_point(const char* func, int force) {
  vf_thread_t* self = t_self;
  if (self == NULL || g_free_run) { if (force) sched_yield(); return; }
  ft_ent* fe = ft_get(func);
  fe->points++;
  uint64_t step = ++g_points;
  if (step > g_cfg.step_budget) {
    pthread_mutex_lock(&g_mu); if (!g_free_run) release_all(); pthread_mutex_unlock(&g_mu);
    return;
  }
  uint64_t r = xs64(&self->rng);
  self->npoints++;
  if (g_cfg.policy == VF_POL_SCRIPT) {
    vf_thread_t* next = NULL;
    pthread_mutex_lock(&g_mu);
    if (force) next = pick_script_next(self);
    else {
      for (int i = 0; i < g_nscript; i++) {
        script_ent* se = &g_script[i];
        if (se->spurious || se->fired || se->victim != self->index || se->k != self->npoints) continue;
        se->fired = 1;
        if (se->target >= 0 && se->target < g_nthreads && g_threads[se->target] != self && g_threads[se->target]->state == T_RUNNABLE) {
          next = g_threads[se->target];
          if (g_nlifo < (int)(sizeof(g_lifo) / sizeof(g_lifo[0]))) g_lifo[g_nlifo++] = self->index;
          g_script_fired++;
        }
        break;
      }
    }
    pthread_mutex_unlock(&g_mu);
    if (next == NULL) { if (force) sched_yield(); return; }
    hand_over(self, next, fe, force);
    return;
  }
  if (g_cfg.policy == VF_POL_PCT) {
    // PCT: always run the highest priority runnable thread; at the d change points (and when a thread says it is waiting) its priority drops below all others
    for (int i = 0; i < g_cfg.pct_depth; i++) { if (g_pct_change[i] == step) self->prio = g_pct_next_low--; }
    if (force) self->prio = g_pct_next_low--;
    pthread_mutex_lock(&g_mu);
    vf_thread_t* next = pick_other(self, r >> 20);
    if (next != NULL && next->prio < self->prio) next = NULL;
    pthread_mutex_unlock(&g_mu);
    if (next == NULL) { if (force) sched_yield(); return; }
    hand_over(self, next, fe, force);
    return;
  }
  int do_switch = force;
  if (!do_switch) {
    unsigned den = (g_cfg.policy == VF_POL_TARGETED && fe->hot) ? g_cfg.p_hot_den : g_cfg.p_other_den;
    if (den != 0 && (r % den) == 0) do_switch = 1;
  }
  if (!do_switch) return;
  pthread_mutex_lock(&g_mu);
  vf_thread_t* next = pick_other(self, r >> 20);
  pthread_mutex_unlock(&g_mu);
  if (next == NULL) { if (force) sched_yield(); return; }
  hand_over(self, next, fe, force);
}

static void delay_point(const char* func, int force) {
  (void)func;
  __atomic_fetch_add(&g_points, 1, __ATOMIC_RELAXED);
  if (force) { sched_yield(); return; }
  unsigned den = g_cfg.delay_den; if (den == 0) return;
  uint64_t r = vf_rand();
  if ((r % den) != 0) return;
  __atomic_fetch_add(&g_delays, 1, __ATOMIC_RELAXED);
  unsigned k = (unsigned)((r >> 32) % 16);
  if (k < 6) sched_yield();
  else if (k < 14) { unsigned spins = 50 + (unsigned)((r >> 40) % 5000); for (volatile unsigned i = 0; i < spins; i++) { } }
  else { struct timespec ts = { 0, (long)(1000 + (r >> 44) % 50000) }; nanosleep(&ts, NULL); }
}

void vf_point_slow(int kind, const volatile void* addr, const char* func) {
  int m = vf_mode;
  if (m == VF_MODE_BATON && t_self != NULL && t_self->sb_addr != NULL) {
    /* a pending store becomes visible before any operation of its thread that is not a load, before a load of the same location
       (store forwarding) and before the 3rd load after it */
    if (kind != 0 /* VF_K_LOAD */ || addr == t_self->sb_addr || t_self->sb_loads_left <= 0) sb_flush(t_self);
    else { t_self->sb_loads_left--; g_loads_overtaking++; }
  }
  if (m == VF_MODE_BATON) baton_point(func, 0);
  else if (m == VF_MODE_DELAY) delay_point(func, 0);
}
void vf_yield_slow(const char* func) {
  int m = vf_mode;
  if (m == VF_MODE_BATON) sb_flush(t_self);
  if (m == VF_MODE_BATON) baton_point(func, 1);
  else if (m == VF_MODE_DELAY) delay_point(func, 1);
}
void vf_lock_contended_slow(const char* func) { vf_yield_slow(func); }

int vf_spurious_slow(const char* func) {
  (void)func;
  if (g_cfg.policy == VF_POL_SCRIPT && vf_mode == VF_MODE_BATON) {
    vf_thread_t* self = t_self;
    if (self == NULL || g_free_run) return 0;
    self->ncas++;
    for (int i = 0; i < g_nscript; i++) {
      script_ent* se = &g_script[i];
      if (se->spurious && !se->fired && se->victim == self->index && se->k == self->ncas) { se->fired = 1; g_script_fired++; g_spurious++; return 1; }
    }
    return 0;
  }
  unsigned den = g_cfg.p_spurious_den;
  if (den == 0) return 0;
  if (vf_mode == VF_MODE_BATON && (t_self == NULL || g_free_run)) return 0;
  if ((vf_rand() >> 16) % den != 0) return 0;
  __atomic_fetch_add(&g_spurious, 1, __ATOMIC_RELAXED);
  return 1;
}

void vf_flush(void) { if (vf_mode == VF_MODE_BATON) sb_flush(t_self); }
void vf_user_point(const char* what) { if (vf_mode != 0) vf_point_slow(13, NULL, what); }
void vf_user_yield(const char* what) { if (vf_mode != 0) vf_yield_slow(what); else sched_yield(); }

/* ---- threads ---- */

static void* trampoline(void* p) {
  vf_thread_t* t = (vf_thread_t*)p;
  t_self = t;
  if (g_cfg.mode == VF_MODE_BATON) { while (sem_wait(&t->sem) != 0) { } }
  t->fn(t->arg);
  sb_flush(t);
  /* finished: hand the baton on and continue unmanaged (thread-exit destructors then run concurrently) */
  if (g_cfg.mode == VF_MODE_BATON) {
    pthread_mutex_lock(&g_mu);
    t->state = T_DONE;
    vf_thread_t* next = (g_free_run ? NULL : (g_cfg.policy == VF_POL_SCRIPT ? pick_script_next(t) : pick_other(t, xs64(&t->rng))));
    pthread_mutex_unlock(&g_mu);
    t_self = NULL;
    if (next != NULL) hand_over(NULL, next, NULL, 1);
  }
  else {
    pthread_mutex_lock(&g_mu); t->state = T_DONE; pthread_mutex_unlock(&g_mu);
    t_self = NULL;
  }
  return NULL;
}

int vf_thread_create(vf_thread_fn fn, void* arg) {
  vf_thread_t* t = (vf_thread_t*)calloc(1, sizeof(vf_thread_t));
  sem_init(&t->sem, 0, 0);
  t->fn = fn; t->arg = arg; t->state = T_RUNNABLE;
  pthread_mutex_lock(&g_mu);
  if (g_nthreads >= VF_MAX_THREADS) { pthread_mutex_unlock(&g_mu); fprintf(stderr, "vf_sched: too many threads\n"); abort(); }
  t->index = g_nthreads;
  t->rng = mix64(g_cfg.seed + 0x9E3779B97F4A7C15ull * (uint64_t)(t->index + 1)) | 1;
  t->prio = 1000 + (int)(mix64(g_cfg.seed ^ (0xABCDull * (uint64_t)(t->index + 7))) % 1000);
  g_threads[g_nthreads++] = t;
  if (g_free_run) sem_post(&t->sem);
  pthread_mutex_unlock(&g_mu);
  pthread_attr_t at; pthread_attr_init(&at); pthread_attr_setstacksize(&at, 1u << 20);
  if (pthread_create(&t->pt, &at, trampoline, t) != 0) { fprintf(stderr, "vf_sched: pthread_create failed\n"); abort(); }
  pthread_attr_destroy(&at);
  return t->index;
}

void vf_run_all(void) {
  if (g_cfg.mode == VF_MODE_BATON && !g_started) {
    g_started = 1;
    pthread_mutex_lock(&g_mu);
    vf_thread_t* first = (g_cfg.policy == VF_POL_SCRIPT ? pick_script_next(NULL) : pick_other(NULL, mix64(g_cfg.seed)));
    pthread_mutex_unlock(&g_mu);
    if (first != NULL) hand_over(NULL, first, NULL, 0);
  }
  for (;;) {
    vf_thread_t* t = NULL;
    pthread_mutex_lock(&g_mu);
    for (int i = 0; i < g_nthreads; i++) if (!g_threads[i]->joined) { t = g_threads[i]; break; }
    pthread_mutex_unlock(&g_mu);
    if (t == NULL) break;
    pthread_join(t->pt, NULL);
    t->joined = 1;
  }
  g_started = 0;
}

void vf_sched_get_stats(vf_sched_stats_t* out) {
  out->points = __atomic_load_n(&g_points, __ATOMIC_RELAXED); out->switches = __atomic_load_n(&g_switches, __ATOMIC_RELAXED); out->forced_switches = __atomic_load_n(&g_forced, __ATOMIC_RELAXED);
  out->spurious = __atomic_load_n(&g_spurious, __ATOMIC_RELAXED); out->delays = __atomic_load_n(&g_delays, __ATOMIC_RELAXED); out->sched_hash = __atomic_load_n(&g_hash, __ATOMIC_RELAXED);
  out->budget_exceeded = g_budget_exceeded; out->threads_created = g_nthreads; out->script_fired = g_script_fired; out->delayed_stores = g_delayed_stores; out->loads_overtaking = g_loads_overtaking;
}
long vf_thread_points(int index) { return (index >= 0 && index < g_nthreads ? (long)g_threads[index]->npoints : -1); }
long vf_thread_cas_count(int index) { return (index >= 0 && index < g_nthreads ? (long)g_threads[index]->ncas : -1); }

void vf_sched_dump_funcs(FILE* f, int max_entries) {
  /* selection of the busiest by switches then points */
  int printed = 0;
  char used[FT_SIZE]; memset(used, 0, sizeof(used));
  while (printed < max_entries) {
    int best = -1;
    for (int i = 0; i < FT_SIZE; i++) {
      if (g_ft[i].name == NULL || used[i]) continue;
      if (best < 0 || g_ft[i].switches > g_ft[best].switches ||
          (g_ft[i].switches == g_ft[best].switches && g_ft[i].points > g_ft[best].points)) best = i;
    }
    if (best < 0) break;
    used[best] = 1;
    fprintf(f, "%s\"%s\":[%llu,%llu]", (printed ? "," : ""), g_ft[best].name,
            (unsigned long long)g_ft[best].points, (unsigned long long)g_ft[best].switches);
    printed++;
  }
}
