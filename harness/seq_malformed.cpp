// seq_malformed.cpp -- C06: malformed / oversized requests fail cleanly, in any heap state.
// The argument grid is run at several heap states inside an ordinary history (fresh, busy, after frees).
#include "seq.hpp"
#include <new>
#include <csetjmp>
#include <climits>

namespace seq {

static uint64_t g_mal_calls = 0, g_mal_overflow = 0, g_mal_toolarge = 0, g_mal_badalign = 0, g_mal_posix = 0, g_mal_new = 0, g_mal_between = 0, g_mal_states = 0, g_mal_realloc_checked = 0;
// In a C build of mimalloc (all our variants) `std::get_new_handler` binds to mimalloc's own weak stub that returns NULL, so the
// throwing `mi_new*` forms abort() by design on failure; they are exercised only when a handler can be installed.
static const bool g_has_new_handler = true;
static jmp_buf g_nh_jmp;
static volatile int g_nh_calls = 0;
static volatile int g_nh_limit = 3;
static void new_handler_jmp() { g_nh_calls++; if (g_nh_calls >= g_nh_limit) longjmp(g_nh_jmp, 1); }

// forced collections of a heap are observed through the deferred-free callback (called with force=true at the start of every forced collect): a request that is
// malformed in itself (overflow, larger than the maximum, invalid alignment) must not collect the heap -- that adopts abandoned segments, releases retired pages, ...
static volatile uint64_t g_forced_collects = 0; static uint64_t g_forced_seen = 0, g_mal_forced_checked = 0;
static void mal_deferred_cb(bool force, unsigned long long heartbeat, void* arg) { (void)heartbeat; (void)arg; if (force) g_forced_collects++; }

struct Snapshot { size_t cons; size_t live; };

static Snapshot snap(State& S) { Snapshot s; s.cons = conservation_count(S); s.live = S.sm.live.size(); g_forced_seen = g_forced_collects; return s; }

static void expect_clean(State& S, const Snapshot& before, const char* what, vf::Blk* victim) {
  // no effect on the heap: same number of allocated blocks, the block being re-allocated is untouched
  Snapshot after = snap(S);
  if (after.cons != before.cons) vf_trip("malformed-side-effect", "C06", "%s: number of allocated blocks changed from %zu to %zu across a request that must fail cleanly", what, before.cons, after.cons);
  if (victim) { S.sm.verify(victim, what, SIZE_MAX, "C06"); g_mal_realloc_checked++;
                size_t u = mi_usable_size(victim->p); if (u != victim->u) vf_trip("malformed-side-effect", "C06", "%s: usable size of the block being re-allocated changed from %zu to %zu", what, victim->u, u); }
  // error callback: EOVERFLOW / ENOMEM are the documented reports; EFAULT / EINVAL / EAGAIN mean heap damage or a wrong path
  int n = vf_err_count; if (n > VF_MAX_ERRS) n = VF_MAX_ERRS;
  for (int i = 0; i < n; i++) { int e = vf_err_codes[i]; if (e != EOVERFLOW && e != ENOMEM) vf_trip("malformed-error-code", "C06", "%s: mimalloc reported error %d (%s): %s", what, e, strerror(e), vf_last_msgs); }
  vf_err_reset();
}

static void must_null(State& S, void* p, const Snapshot& b, const char* what, vf::Blk* victim = nullptr) {
  g_mal_calls++;
  if (p != nullptr) vf_trip("malformed-accepted", "C06", "%s returned %p instead of NULL", what, p);
  g_mal_forced_checked++;
  if (g_forced_collects != g_forced_seen) { uint64_t k = g_forced_collects - g_forced_seen; g_forced_seen = g_forced_collects;
    vf_trip("malformed-side-effect", "C06", "%s: the request is malformed in itself but the heap was force-collected %llu time(s) on its behalf (the out-of-memory path was taken)", what, (unsigned long long)k); }
  expect_clean(S, b, what, victim);
}

static char g_what[256];
#define WHAT(...) (snprintf(g_what, sizeof(g_what), __VA_ARGS__), vf_cur_what = g_what, g_what)

static void grid(State& S) {
  g_mal_states++;
  mi_heap_t* dh = S.heaps[S.cur_default].h;
  int hi = 0; for (size_t i = 0; i < S.heaps.size(); i++) if (S.heaps[i].alive) hi = (int)i;
  mi_heap_t* h = S.heaps[hi].h; (void)dh;
  const size_t PMAX = (size_t)PTRDIFF_MAX;
  // a victim for the realloc family
  vf::Blk* v = nullptr;
  if (S.sm.live.empty()) do_alloc(S, EP_malloc, 100);
  v = S.sm.live[vf_rng_below(&S.rng, S.sm.live.size())];

  // ---- count * size overflow ----
  static const size_t szs[] = { 2, 3, 7, 8, 16, 24, 4096, 65536, (size_t)1 << 31, ((size_t)1 << 32) + 1, (size_t)1 << 33, ((size_t)1 << 62) };
  for (size_t si = 0; si < sizeof(szs) / sizeof(szs[0]); si++) {
    size_t sz = szs[si];
    size_t q = SIZE_MAX / sz;
    size_t counts[] = { q + 1, q + 2, SIZE_MAX, SIZE_MAX - 1, SIZE_MAX / 2 + 1, q + 1 + (size_t)vf_rng_below(&S.rng, 1000) };
    for (size_t ci = 0; ci < sizeof(counts) / sizeof(counts[0]); ci++) {
      size_t c = counts[ci];
      if (c <= q) continue;            // must really overflow
      for (int swap = 0; swap < 2; swap++) {
        size_t a = (swap ? sz : c), b2 = (swap ? c : sz);
        Snapshot b = snap(S);
        g_mal_overflow += 14;
        must_null(S, mi_calloc(a, b2), b, WHAT("mi_calloc(%zu,%zu)", a, b2));
        must_null(S, mi_mallocn(a, b2), b, WHAT("mi_mallocn(%zu,%zu)", a, b2));
        must_null(S, mi_heap_calloc(h, a, b2), b, WHAT("mi_heap_calloc(%zu,%zu)", a, b2));
        must_null(S, mi_heap_mallocn(h, a, b2), b, WHAT("mi_heap_mallocn(%zu,%zu)", a, b2));
        must_null(S, mi_calloc_aligned(a, b2, 64), b, WHAT("mi_calloc_aligned(%zu,%zu,64)", a, b2));
        must_null(S, mi_calloc_aligned_at(a, b2, 64, 8), b, WHAT("mi_calloc_aligned_at(%zu,%zu,64,8)", a, b2));
        must_null(S, mi_heap_calloc_aligned(h, a, b2, 32), b, WHAT("mi_heap_calloc_aligned(%zu,%zu,32)", a, b2));
        must_null(S, mi_reallocn(v->p, a, b2), b, WHAT("mi_reallocn(p,%zu,%zu)", a, b2), v);
        must_null(S, mi_recalloc(v->p, a, b2), b, WHAT("mi_recalloc(p,%zu,%zu)", a, b2), v);
        must_null(S, mi_heap_reallocn(h, v->p, a, b2), b, WHAT("mi_heap_reallocn(p,%zu,%zu)", a, b2), v);
        must_null(S, mi_heap_recalloc(h, v->p, a, b2), b, WHAT("mi_heap_recalloc(p,%zu,%zu)", a, b2), v);
        must_null(S, mi_recalloc_aligned(v->p, a, b2, 64), b, WHAT("mi_recalloc_aligned(p,%zu,%zu,64)", a, b2), v);
        must_null(S, mi_recalloc_aligned_at(v->p, a, b2, 64, 16), b, WHAT("mi_recalloc_aligned_at(p,%zu,%zu,64,16)", a, b2), v);
        must_null(S, mi_aligned_recalloc(v->p, a, b2, 64), b, WHAT("mi_aligned_recalloc(p,%zu,%zu,64)", a, b2), v);
        // reallocarray / reallocarr set errno
        errno = 0;
        void* r = mi_reallocarray(v->p, a, b2);
        int e1 = errno;
        must_null(S, r, b, WHAT("mi_reallocarray(p,%zu,%zu)", a, b2), v);
        if (e1 != ENOMEM) vf_trip("malformed-errno", "C06", "mi_reallocarray(p,%zu,%zu) failed but errno is %d, expected ENOMEM", a, b2, e1);
        errno = 0;
        void* pp = v->p; int rc = mi_reallocarr(&pp, a, b2);
        g_mal_calls++;
        if (rc == 0 || pp != (void*)v->p || errno == 0) vf_trip("malformed-errno", "C06", "mi_reallocarr(&p,%zu,%zu) returned %d, errno %d, pointer %s", a, b2, rc, errno, pp == (void*)v->p ? "unchanged" : "CHANGED");
        expect_clean(S, b, "mi_reallocarr", v);
        // operator new[] style: the new handler is invoked exactly once and NULL comes back (handler returns)
        if (g_has_new_handler && !S.cfg.allow_null) {
          g_nh_calls = 0; g_nh_limit = 1000;
          std::new_handler old = std::set_new_handler(&new_handler_jmp);
          void* volatile pn = nullptr; volatile int jumped = 0;
          if (setjmp(g_nh_jmp) == 0) { pn = mi_new_n(a, b2); } else jumped = 1;
          std::set_new_handler(old);
          g_mal_new++;
          if (jumped || g_nh_calls != 1) vf_trip("malformed-new-handler", "C06", "mi_new_n(%zu,%zu): new handler called %d times (expected exactly once)", a, b2, (int)g_nh_calls);
          must_null(S, pn, b, WHAT("mi_new_n(%zu,%zu)", a, b2));
          g_nh_calls = 0;
          old = std::set_new_handler(&new_handler_jmp);
          pn = nullptr;
          if (setjmp(g_nh_jmp) == 0) { pn = mi_heap_alloc_new_n(h, a, b2); }
          std::set_new_handler(old);
          must_null(S, pn, b, WHAT("mi_heap_alloc_new_n(%zu,%zu)", a, b2));
          // mi_new_reallocn: keeps calling the handler while realloc fails; the handler gives up after 3 calls
          g_nh_calls = 0; g_nh_limit = 3; pn = (void*)1; jumped = 0;
          old = std::set_new_handler(&new_handler_jmp);
          if (setjmp(g_nh_jmp) == 0) { pn = mi_new_reallocn(v->p, a, b2); } else { jumped = 1; pn = nullptr; }
          std::set_new_handler(old);
          if (!jumped && pn != nullptr) vf_trip("malformed-accepted", "C06", "mi_new_reallocn(p,%zu,%zu) returned %p", a, b2, (void*)pn);
          g_mal_calls++;
          expect_clean(S, b, "mi_new_reallocn", v);
        }
      }
    }
  }

  // ---- size beyond the maximum allocation size ----
  static const size_t ks[] = { 0, 1, 2, 7, 8, 15, 16, 17, 31, 32, 63, 64, 255, 256, 4095, 4096, 4097, 8191, 65535, 65536 };
  for (size_t ki = 0; ki < sizeof(ks) / sizeof(ks[0]); ki++) {
    size_t k = ks[ki];
    size_t too_large[] = { SIZE_MAX - k, PMAX + 1 + k, (SIZE_MAX / 2) + 1 + k * 4096, SIZE_MAX - k * 4096 };
    for (size_t ti = 0; ti < 4; ti++) {
      size_t n = too_large[ti];
      if (n <= PMAX) continue;
      Snapshot b = snap(S);
      g_mal_toolarge += 16;
      must_null(S, mi_malloc(n), b, WHAT("mi_malloc(%zu)", n));
      must_null(S, mi_zalloc(n), b, WHAT("mi_zalloc(%zu)", n));
      must_null(S, mi_heap_malloc(h, n), b, WHAT("mi_heap_malloc(%zu)", n));
      must_null(S, mi_heap_zalloc(h, n), b, WHAT("mi_heap_zalloc(%zu)", n));
      must_null(S, mi_calloc(1, n), b, WHAT("mi_calloc(1,%zu)", n));
      must_null(S, mi_mallocn(1, n), b, WHAT("mi_mallocn(1,%zu)", n));
      must_null(S, mi_malloc_aligned(n, 16), b, WHAT("mi_malloc_aligned(%zu,16)", n));
      must_null(S, mi_malloc_aligned(n, 4096), b, WHAT("mi_malloc_aligned(%zu,4096)", n));
      must_null(S, mi_zalloc_aligned(n, 64), b, WHAT("mi_zalloc_aligned(%zu,64)", n));
      must_null(S, mi_malloc_aligned_at(n, 64, 8), b, WHAT("mi_malloc_aligned_at(%zu,64,8)", n));
      must_null(S, mi_malloc_aligned(n, (size_t)1 << 26), b, WHAT("mi_malloc_aligned(%zu,64MiB)", n));
      must_null(S, mi_memalign(32, n), b, WHAT("mi_memalign(32,%zu)", n));
      must_null(S, mi_aligned_alloc(32, n), b, WHAT("mi_aligned_alloc(32,%zu)", n));
      must_null(S, mi_valloc(n), b, WHAT("mi_valloc(%zu)", n));
      must_null(S, mi_pvalloc(n), b, WHAT("mi_pvalloc(%zu)", n));
      must_null(S, mi_new_nothrow(n), b, WHAT("mi_new_nothrow(%zu)", n));
      must_null(S, mi_realloc(v->p, n), b, WHAT("mi_realloc(p,%zu)", n), v);
      must_null(S, mi_rezalloc(v->p, n), b, WHAT("mi_rezalloc(p,%zu)", n), v);
      must_null(S, mi_heap_realloc(h, v->p, n), b, WHAT("mi_heap_realloc(p,%zu)", n), v);
      must_null(S, mi_realloc_aligned(v->p, n, 64), b, WHAT("mi_realloc_aligned(p,%zu,64)", n), v);
      must_null(S, mi_realloc_aligned_at(v->p, n, 64, 8), b, WHAT("mi_realloc_aligned_at(p,%zu,64,8)", n), v);
      must_null(S, mi_realloc(nullptr, n), b, WHAT("mi_realloc(NULL,%zu)", n));
      { void* e = mi_expand(v->p, n); g_mal_calls++; if (e != nullptr) vf_trip("malformed-accepted", "C06", "mi_expand(p,%zu) returned %p", n, e); expect_clean(S, b, "mi_expand", v); }
      // posix_memalign: ENOMEM, out-parameter untouched
      void* out = (void*)(uintptr_t)0x5a5a5a; int rc = mi_posix_memalign(&out, 64, n);
      g_mal_calls++; g_mal_posix++;
      if (rc != ENOMEM || out != (void*)(uintptr_t)0x5a5a5a) vf_trip("malformed-posix-memalign", "C06", "mi_posix_memalign(&p,64,%zu) returned %d and %s *p (expected ENOMEM, untouched)", n, rc, out == (void*)(uintptr_t)0x5a5a5a ? "left" : "MODIFIED");
      expect_clean(S, b, "mi_posix_memalign", nullptr);
      // reallocf frees the block on failure: use a scratch block
      { void* s = mi_malloc(48); size_t c0 = conservation_count(S); void* r = mi_reallocf(s, n); g_mal_calls++;
        if (r != nullptr) vf_trip("malformed-accepted", "C06", "mi_reallocf(p,%zu) returned %p", n, r);
        size_t c1 = conservation_count(S); if (c1 + 1 != c0) vf_trip("reallocf-keeps-block", "C05,C06", "mi_reallocf(p,%zu) failed but the block was not released (allocated blocks %zu -> %zu)", n, c0, c1);
        vf_err_reset(); }
      // mi_new with a handler that gives up after 3 calls
      if (g_has_new_handler && !S.cfg.allow_null) {
        g_nh_calls = 0; g_nh_limit = 3; volatile int jumped = 0; void* volatile pn = nullptr;
        std::new_handler old = std::set_new_handler(&new_handler_jmp);
        if (setjmp(g_nh_jmp) == 0) { pn = mi_new(n); } else jumped = 1;
        std::set_new_handler(old);
        g_mal_new++; g_mal_calls++;
        if (!jumped || pn != nullptr || g_nh_calls != 3) vf_trip("malformed-new-handler", "C06", "mi_new(%zu): handler calls %d, returned %p", n, (int)g_nh_calls, (void*)pn);
        expect_clean(S, b, "mi_new", nullptr);
      }
    }
  }

  // ---- alignment zero or not a power of two ----
  static const size_t bad_aligns[] = { 0, 3, 5, 6, 7, 9, 12, 24, 48, 100, 1000, 4097, 65537, ((size_t)1 << 20) + 1, ((size_t)1 << 20) * 3, SIZE_MAX / 2 + 2, SIZE_MAX, SIZE_MAX - 1, ((size_t)1 << 63) + 1 };
  static const size_t ns[] = { 0, 1, 8, 100, 1024, 5000, 70000, 3000000 };
  for (size_t ai = 0; ai < sizeof(bad_aligns) / sizeof(bad_aligns[0]); ai++) for (size_t ni = 0; ni < sizeof(ns) / sizeof(ns[0]); ni++) {
    size_t a = bad_aligns[ai], n = ns[ni];
    Snapshot b = snap(S);
    g_mal_badalign += 12;
    must_null(S, mi_malloc_aligned(n, a), b, WHAT("mi_malloc_aligned(%zu,%zu)", n, a));
    must_null(S, mi_zalloc_aligned(n, a), b, WHAT("mi_zalloc_aligned(%zu,%zu)", n, a));
    must_null(S, mi_calloc_aligned(1, n, a), b, WHAT("mi_calloc_aligned(1,%zu,%zu)", n, a));
    must_null(S, mi_malloc_aligned_at(n, a, 8), b, WHAT("mi_malloc_aligned_at(%zu,%zu,8)", n, a));
    must_null(S, mi_zalloc_aligned_at(n, a, 1), b, WHAT("mi_zalloc_aligned_at(%zu,%zu,1)", n, a));
    must_null(S, mi_heap_malloc_aligned(h, n, a), b, WHAT("mi_heap_malloc_aligned(%zu,%zu)", n, a));
    must_null(S, mi_heap_zalloc_aligned_at(h, n, a, 16), b, WHAT("mi_heap_zalloc_aligned_at(%zu,%zu,16)", n, a));
    must_null(S, mi_memalign(a, n), b, WHAT("mi_memalign(%zu,%zu)", a, n));
    must_null(S, mi_aligned_alloc(a, n), b, WHAT("mi_aligned_alloc(%zu,%zu)", a, n));
    must_null(S, mi_new_aligned_nothrow(n, a), b, WHAT("mi_new_aligned_nothrow(%zu,%zu)", n, a));
    // the aligned re-allocation forms: with NULL and with a live block (new sizes: n, and the block's own size so that "still fits" could apply); the block must stay untouched
    must_null(S, mi_realloc_aligned(nullptr, n, a), b, WHAT("mi_realloc_aligned(NULL,%zu,%zu)", n, a));
    must_null(S, mi_rezalloc_aligned_at(nullptr, n, a, 8), b, WHAT("mi_rezalloc_aligned_at(NULL,%zu,%zu,8)", n, a));
    {
      const size_t fit = v->n;
      g_mal_badalign += 8;
      must_null(S, mi_realloc_aligned(v->p, n, a), b, WHAT("mi_realloc_aligned(p,%zu,%zu)", n, a), v);
      must_null(S, mi_realloc_aligned(v->p, fit, a), b, WHAT("mi_realloc_aligned(p,%zu (fits),%zu)", fit, a), v);
      must_null(S, mi_realloc_aligned_at(v->p, fit, a, 0), b, WHAT("mi_realloc_aligned_at(p,%zu (fits),%zu,0)", fit, a), v);
      must_null(S, mi_rezalloc_aligned(v->p, n, a), b, WHAT("mi_rezalloc_aligned(p,%zu,%zu)", n, a), v);
      must_null(S, mi_recalloc_aligned(v->p, 1, fit, a), b, WHAT("mi_recalloc_aligned(p,1,%zu (fits),%zu)", fit, a), v);
      must_null(S, mi_recalloc_aligned_at(v->p, 1, n, a, 8), b, WHAT("mi_recalloc_aligned_at(p,1,%zu,%zu,8)", n, a), v);
      must_null(S, mi_heap_realloc_aligned(dh, v->heap == S.cur_default ? v->p : nullptr, n, a), b, WHAT("mi_heap_realloc_aligned(p,%zu,%zu)", n, a), v->heap == S.cur_default ? v : nullptr);
      must_null(S, mi_heap_rezalloc_aligned_at(dh, v->heap == S.cur_default ? v->p : nullptr, fit, a, 0), b, WHAT("mi_heap_rezalloc_aligned_at(p,%zu (fits),%zu,0)", fit, a), v->heap == S.cur_default ? v : nullptr);
    }
    void* out = (void*)(uintptr_t)0x5a5a5a; int rc = mi_posix_memalign(&out, a, n);
    g_mal_calls++; g_mal_posix++;
    if (rc != EINVAL || out != (void*)(uintptr_t)0x5a5a5a) vf_trip("malformed-posix-memalign", "C06", "mi_posix_memalign(&p,%zu,%zu) returned %d and %s *p (expected EINVAL, untouched)", a, n, rc, out == (void*)(uintptr_t)0x5a5a5a ? "left" : "MODIFIED");
    expect_clean(S, b, "mi_posix_memalign", nullptr);
  }
  // posix_memalign: power of two but not a multiple of sizeof(void*)
  for (size_t a = 1; a < sizeof(void*); a *= 2) {
    Snapshot b = snap(S);
    void* out = (void*)(uintptr_t)0x5a5a5a; int rc = mi_posix_memalign(&out, a, 100);
    g_mal_calls++; g_mal_posix++;
    if (rc != EINVAL || out != (void*)(uintptr_t)0x5a5a5a) vf_trip("malformed-posix-memalign", "C06", "mi_posix_memalign(&p,%zu,100) returned %d (expected EINVAL, *p untouched)", a, rc);
    expect_clean(S, b, "mi_posix_memalign", nullptr);
  }
  { int rc = mi_posix_memalign(nullptr, 64, 100); g_mal_calls++; if (rc != EINVAL) vf_trip("malformed-posix-memalign", "C06", "mi_posix_memalign(NULL,64,100) returned %d", rc); vf_err_reset(); }

  // ---- between "moderate" and the maximum: either outcome is fine, but it must be clean ----
  static const size_t mids[] = { (size_t)1 << 40, (size_t)1 << 46, ((size_t)1 << 47) - 4096, PMAX, PMAX - 1, PMAX - 4096, PMAX - 65536, PMAX / 2 };
  for (size_t mi = 0; mi < sizeof(mids) / sizeof(mids[0]); mi++) {
    size_t n = mids[mi];
    Snapshot b = snap(S);
    void* p = (mi & 1) ? mi_malloc(n) : mi_malloc_aligned(n, 4096);
    g_mal_between++; g_mal_calls++;
    if (p != nullptr) { if (mi_usable_size(p) < n) vf_trip("usable-size", "C03,C06", "allocation of %zu bytes succeeded with usable size %zu", n, mi_usable_size(p)); mi_free(p); }
    expect_clean(S, b, "huge request", nullptr);
  }
  vf_cur_what = "grid done";
}

static void mal_print(FILE* f) {
  fprintf(f, ",\"malformed\":{\"calls\":%llu,\"overflow\":%llu,\"too_large\":%llu,\"bad_alignment\":%llu,\"posix_memalign\":%llu,\"new_handler\":%llu,\"between\":%llu,\"heap_states\":%llu,\"realloc_victim_checks\":%llu,\"checked_for_forced_collect\":%llu}",
          (unsigned long long)g_mal_calls, (unsigned long long)g_mal_overflow, (unsigned long long)g_mal_toolarge, (unsigned long long)g_mal_badalign, (unsigned long long)g_mal_posix,
          (unsigned long long)g_mal_new, (unsigned long long)g_mal_between, (unsigned long long)g_mal_states, (unsigned long long)g_mal_realloc_checked, (unsigned long long)g_mal_forced_checked);
}

void run_malformed(State& S) {
  add_result_printer(&mal_print);
  mi_register_deferred_free(&mal_deferred_cb, nullptr);
  // state 1: fresh heap
  grid(S);
  // state 2..: inside an ordinary history
  uint64_t total = S.cfg.ops, chunk = (total / 3 ? total / 3 : 1);
  S.cfg.profile = "general";   // op mix of the general profile (generic oracles still refute C06 here: see generic_refutes at start)
  S.sm.refutes_generic = "C06";
  S.cfg.size_cap = 2u << 20;
  for (int round = 0; round < 3; round++) {
    S.cfg.ops = chunk;
    // run a chunk of history without the final free-all: emulate by using run_history pieces
    for (uint64_t i = 0; i < chunk; i++) {
      S.op_index++; vf_cur_op = S.op_index;
      unsigned r = (unsigned)vf_rng_below(&S.rng, 100);
      if (r < 55 && S.sm.live.size() < 3000) do_alloc(S);
      else if (!S.sm.live.empty()) { vf::Blk* b = S.sm.live[vf_rng_below(&S.rng, S.sm.live.size())]; do_free(S, b); }
    }
    if (round == 2) { // "after frees": drain most
      while (S.sm.live.size() > 8) do_free(S, S.sm.live[vf_rng_below(&S.rng, S.sm.live.size())]);
    }
    grid(S);
    S.sm.verify_all("after the malformed-request grid");
  }
  S.cfg.profile = "malformed";
  walk_compare(S, "C06,C12");
  free_all(S);
  mi_collect(true);
  check_conservation(S, "end", "C06");
}

} // namespace seq
