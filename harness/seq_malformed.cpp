#include "seq.hpp"
namespace seq {
void run_malformed(State&) {}
}
