"""Per-property checks. Each returns the process exit code and rewrites /verif/evidence/<id>.json."""
import os, sys, json, time, subprocess, itertools, random
from . import build, core
from .core import Case, Verdict, case_seed

VERIF = core.VERIF
CHECKS = {}

def check(prop):
    def deco(fn):
        CHECKS[prop] = fn
        return fn
    return deco

def traits_args(variant):
    t = build.variant_traits(variant)
    return ["--variant", variant, "--padding", int(t["padding"]), "--debug", int(t["debug"]), "--secure", int(t["secure"])]

def san_env(variant, prop, label):
    """sanitizer runtime options: reports are fatal and land on stderr"""
    base = variant.replace("-h", "")
    e = {}
    if base in ("asan", "asant", "casan"):
        e["ASAN_OPTIONS"] = "abort_on_error=0:halt_on_error=1:detect_leaks=0:exitcode=23:allocator_may_return_null=1:detect_stack_use_after_return=0"
        e["UBSAN_OPTIONS"] = "print_stacktrace=1:halt_on_error=1:exitcode=24"
    if base in ("tsan", "ctsan"):
        e["TSAN_OPTIONS"] = "halt_on_error=1:exitcode=66:second_deadlock_stack=1:history_size=4"
    return e

# ---------------------------------------------------------------------------------------------
# generic sequential check
# ---------------------------------------------------------------------------------------------
def seq_cases(prop, profile, variants, ncases, ops, seed, extra_args=(), env=None, timeout=180, crash_refutes=None, label_prefix="", start_index=0, per_case=None):
    """ncases cases per variant; per_case(i, variant) may return (extra args, extra env)"""
    bins = build.build_many([("drv_seq", v) for v in variants])
    cases = []
    for v in variants:
        for i in range(ncases):
            s = case_seed(seed, prop, start_index + i)     # the same seeds for every variant: a history is run on every build
            args = [bins[("drv_seq", v)], "--profile", profile, "--prop", prop, "--seed", s, "--ops", ops] + traits_args(v) + list(extra_args)
            e = dict(env or {}); e.update(san_env(v, prop, ""))
            if per_case:
                a2, e2 = per_case(i, v)
                args += list(a2); e.update(e2)
            cases.append(Case("%s%s-%s-%s-%d" % (label_prefix, prop, profile, v, s), args, env=e, timeout=timeout,
                              crash_refutes=(crash_refutes if crash_refutes is not None else [prop]), meta={"variant": v, "profile": profile, "seed": s, "ops": ops}))
    return cases

def sample_of(c, keys=("profile", "variant", "seed", "ops_done", "hash", "allocs", "frees", "reallocs")):
    r = c.result or {}
    s = {k: r.get(k) for k in keys if k in r}
    s["cmd"] = " ".join(c.cmd[:1] and [os.path.basename(c.cmd[0])] + c.cmd[1:])
    if c.env: s["env"] = {k: v for k, v in c.env.items() if k.startswith("MIMALLOC_")}
    return s

def finish(prop, tier, seed, level, verdict, cases, t0, rule, nontrivial_fn, extra_cov, assumptions, min_nontrivial=2):
    evals = len(cases)
    distinct = set()
    for c in cases:
        r = c.result
        if r is None: continue
        try:
            if nontrivial_fn(r, c): distinct.add((c.meta.get("variant"), r.get("hash", c.label), c.meta.get("plan", c.meta.get("config", "")), c.meta.get("scenario", c.meta.get("workload", "")), json.dumps({k: v for k, v in c.env.items() if k.startswith("MIMALLOC_")}, sort_keys=True)))
        except Exception:
            pass
    cov = {"evaluations": evals, "distinct_nontrivial": len(distinct), "rule": rule,
           "samples": [sample_of(c) for c in cases[:3]] + [sample_of(c) for c in cases[-1:]]}
    cov.update(extra_cov)
    cov["cases_ok"] = verdict.ok
    cov["collateral_trips"] = len(verdict.collateral)
    cov["known_finding_hits"] = len(verdict.known)
    rc = verdict.report()
    if rc == 0 and len(distinct) < min_nontrivial:
        print("INCONCLUSIVE: only %d non-trivial cases were observed (rule: %s)" % (len(distinct), rule))
        rc = 2
    core.write_evidence(prop, tier, seed, level, cov, time.time() - t0, len(verdict.violations), assumptions)
    print("%s %s tier=%s seed=%d: %d cases, %d ok, %d violations, %d known, %d collateral, %d harness failures, %.1fs -> exit %d" %
          (prop, "HELD" if rc == 0 else ("VIOLATED" if rc == 1 else "INCONCLUSIVE"), tier, seed, evals, verdict.ok, len(verdict.violations), len(verdict.known),
           len(verdict.collateral), len(verdict.harness), time.time() - t0, rc))
    return rc

def seq_cov(cases):
    cov = {
        "ops_executed": core.sum_field(cases, "ops_done"),
        "allocations": core.sum_field(cases, "allocs"), "frees": core.sum_field(cases, "frees"),
        "reallocs": {"total": core.sum_field(cases, "reallocs"), "in_place": core.sum_field(cases, "realloc_inplace"), "moved": core.sum_field(cases, "realloc_moved"), "null": core.sum_field(cases, "realloc_null")},
        "entry_point_calls": core.merge_counts(cases, "eps"),
        "max_bins_hit_in_a_case": max([ (c.result or {}).get("bins_hit", 0) for c in cases ] or [0]),
        "page_kind_allocs_small_medium_large_huge": [sum((c.result or {}).get("kinds", [0, 0, 0, 0])[k] for c in cases) for k in range(4)],
        "blocks_verified": core.sum_field(cases, "verified_blocks"), "bytes_verified": core.sum_field(cases, "verified_bytes"),
        "heap_walks": core.sum_field(cases, "walks"), "walk_blocks": core.sum_field(cases, "walk_blocks"), "conservation_checks": core.sum_field(cases, "conservation_checks"),
        "allocator_counters": core.merge_counts(cases, "mi"), "os_calls": core.merge_counts(cases, "os"),
        "variants": sorted(set(c.meta.get("variant") for c in cases)),
        "threads_without_allocator_data_driving_the_api": core.sum_field(cases, "threads_without_allocator_data"),
    }
    return cov

SEQ_ASSUME = ["the shadow model and pattern oracles of /verif/harness are correct", "gcc 12 code generation for the variants built",
              "only the executions listed were explored: nothing is proved about other histories"]

def tier_n(tier, quick, thorough):
    return quick if tier == "quick" else thorough

@check("C01")
def c01(tier, seed):
    t0 = time.time(); prop = "C01"
    variants = ["rel", "dbg", "sec"] + (["asant"] if tier == "thorough" else [])
    cases = seq_cases(prop, "general", variants, tier_n(tier, 40, 600), tier_n(tier, 4000, 10000), seed)
    v = Verdict(prop)
    for c in core.run_cases(cases): v.add(c)
    def nontrivial(r, c):
        k = r.get("kinds", [0, 0, 0, 0]); mi = r.get("mi", {})
        return r.get("allocs", 0) >= 500 and sum(1 for x in k if x > 0) >= 3 and r.get("drains", 0) >= 1 and (mi.get("pages_retire", 1) >= 1 or c.meta["variant"] == "dbg")
    return finish(prop, tier, seed, "exploration", v, cases, t0,
                  "a case = one generated single-thread API history (all allocation/realloc/free/heap entry points, boundary-biased sizes, phase-wise free orders) on one build variant; "
                  "non-trivial = >=500 successful allocations over >=3 page kinds with >=1 drain-and-refill phase; distinct = (variant, hash of executed op list)",
                  nontrivial, seq_cov(cases), SEQ_ASSUME)

@check("C03")
def c03(tier, seed):
    t0 = time.time(); prop = "C03"
    variants = ["rel", "dbg", "sec"]
    # every fourth history has helper threads: over-aligned blocks freed by other threads, and threads that terminate with live over-aligned blocks (adopted and freed here)
    cases = seq_cases(prop, "aligned", variants, tier_n(tier, 32, 500), tier_n(tier, 3000, 8000), seed, per_case=lambda i, v: ((["--threads", 1] if i % 4 == 3 else []), {}))
    # the debug-build rejection of pointers that are not word aligned is exercised by a dedicated case (known finding)
    cases += seq_cases(prop, "aligned", ["dbg"], 1, 600, seed, extra_args=["--debug", 0], label_prefix="unaligned-", start_index=100000)
    v = Verdict(prop)
    for c in core.run_cases(cases): v.add(c)
    cov = seq_cov(cases)
    cov["aligned_allocations"] = core.sum_field(cases, "aligned"); cov["interior_pointers_seen_by_walk"] = core.sum_field(cases, "interior")
    cov["alignment_histogram"] = core.merge_counts(cases, "align_hist")
    return finish(prop, tier, seed, "exploration", v, cases, t0,
                  "a case = one generated history dominated by aligned entry points (alignment 1B..128MiB, offsets 0/random/>=n/odd/multiples) incl. realloc with the same alignment and all free variants; "
                  "non-trivial = >=300 aligned allocations over >=8 distinct alignments; distinct = (variant, op-list hash)",
                  lambda r, c: r.get("aligned", 0) >= 300 and len(r.get("align_hist", {})) >= 8, cov, SEQ_ASSUME)

@check("C04")
def c04(tier, seed):
    t0 = time.time(); prop = "C04"
    variants = ["rel", "dbg", "sec"]
    cases = seq_cases(prop, "zero", variants, tier_n(tier, 32, 600), tier_n(tier, 4000, 10000), seed, extra_args=["--threads", 1])
    v = Verdict(prop)
    for c in core.run_cases(cases): v.add(c)
    cov = seq_cov(cases)
    cov.update({"zeroing_calls_checked": core.sum_field(cases, "zero_checked"), "zero_bytes_scanned": core.sum_field(cases, "zero_bytes"),
                "zeroed_blocks_reusing_dirty_addresses": core.sum_field(cases, "zero_reused_dirty"),
                "growth_steps_in_place": core.sum_field(cases, "zgrow_inplace"), "growth_steps_moved": core.sum_field(cases, "zgrow_moved"),
                "remote_free_batches": core.sum_field(cases, "remote_batches"), "thread_exits": core.sum_field(cases, "thread_exits")})
    return finish(prop, tier, seed, "exploration", v, cases, t0,
                  "a case = one history that dirties blocks of all classes over their full usable size, frees them (locally, from another thread, by heap destroy, after thread exit), "
                  "requests zeroed blocks and grows zero-initialised blocks in monotone rezalloc/recalloc chains; non-trivial = >=200 zeroing calls with >=20 on previously dirty addresses "
                  "and >=10 growth steps; distinct = (variant, op-list hash)",
                  lambda r, c: r.get("zero_checked", 0) >= 200 and r.get("zero_reused_dirty", 0) >= 20 and (r.get("zgrow_inplace", 0) + r.get("zgrow_moved", 0)) >= 10, cov, SEQ_ASSUME)

@check("C05")
def c05(tier, seed):
    t0 = time.time(); prop = "C05"
    variants = ["rel", "dbg", "sec"]
    cases = seq_cases(prop, "realloc", variants, tier_n(tier, 32, 600), tier_n(tier, 4000, 10000), seed)
    v = Verdict(prop)
    for c in core.run_cases(cases): v.add(c)
    cov = seq_cov(cases)
    cov["expand"] = {"ok": core.sum_field(cases, "expand_ok"), "null": core.sum_field(cases, "expand_null")}
    return finish(prop, tier, seed, "exploration", v, cases, t0,
                  "a case = one history dominated by the realloc family (shrink to 1, ~50%, equal, +-1, x1.5-x4, across class/page-kind/huge boundaries, every realloc entry point, mi_expand) "
                  "with prefix/conservation/old-block oracles; non-trivial = >=600 realloc calls with both in-place and moved outcomes; distinct = (variant, op-list hash)",
                  lambda r, c: r.get("reallocs", 0) >= 600 and r.get("realloc_inplace", 0) >= 20 and r.get("realloc_moved", 0) >= 20, cov, SEQ_ASSUME)

@check("C12")
def c12(tier, seed):
    t0 = time.time(); prop = "C12"
    variants = ["rel", "dbg"] + (["sec"] if tier == "thorough" else [])
    cases = seq_cases(prop, "walk", variants, tier_n(tier, 32, 600), tier_n(tier, 4000, 10000), seed)
    # blocks left behind by terminated threads: heap walks + mi_abandoned_visit_blocks together must report exactly the live blocks
    cases += seq_cases(prop, "walk", ["rel", "dbg"], tier_n(tier, 8, 150), tier_n(tier, 3000, 8000), seed, extra_args=["--threads", 1, "--abandon-ok", 1], env={"MIMALLOC_VISIT_ABANDONED": "1"},
                       label_prefix="abandoned-", start_index=60000)
    cases += seq_cases(prop, "walk", ["rel"], tier_n(tier, 4, 60), tier_n(tier, 3000, 8000), seed, extra_args=["--threads", 1, "--abandon-ok", 1],
                       env={"MIMALLOC_VISIT_ABANDONED": "1", "MIMALLOC_DISALLOW_ARENA_ALLOC": "1"}, label_prefix="abandoned-os-", start_index=61000)
    # ... and with reclaim-on-free, where a free by another thread takes an abandoned segment out of the middle of the abandoned set
    cases += seq_cases(prop, "walk", ["rel", "dbg"], tier_n(tier, 8, 100), tier_n(tier, 3000, 8000), seed, extra_args=["--threads", 1, "--abandon-ok", 1],
                       env={"MIMALLOC_VISIT_ABANDONED": "1", "MIMALLOC_DISALLOW_ARENA_ALLOC": "1", "MIMALLOC_ABANDONED_RECLAIM_ON_FREE": "1"}, label_prefix="abandoned-os-rof-", start_index=62000)
    cases += seq_cases(prop, "walk", ["rel"], tier_n(tier, 4, 60), tier_n(tier, 3000, 8000), seed, extra_args=["--threads", 1, "--abandon-ok", 1],
                       env={"MIMALLOC_VISIT_ABANDONED": "1", "MIMALLOC_ABANDONED_RECLAIM_ON_FREE": "1"}, label_prefix="abandoned-rof-", start_index=63000)
    v = Verdict(prop)
    for c in core.run_cases(cases): v.add(c)
    cov = seq_cov(cases)
    return finish(prop, tier, seed, "exploration", v, cases, t0,
                  "a case = one history leaving pages empty / striped / full / single-block huge, plus every 160 operations a structured hole pattern inside the pages of one size class (every k-th freed, only every k-th live, "
                  "1-3 holes, a single live block, one half, one contiguous hole, whole 64-block groups live, empty groups with the last slot live), with a full heap-walk comparison against the shadow model every 64 operations "
                  "(every live block once, enclosing range, no dead block, area.used, early stop); non-trivial = >=40 walks visiting >=5000 blocks; distinct = (variant, op-list hash)",
                  lambda r, c: r.get("walks", 0) >= 40 and r.get("walk_blocks", 0) >= 5000 and r.get("walk_patterns", 0) >= 5, cov, SEQ_ASSUME)

@check("C06")
def c06(tier, seed):
    t0 = time.time(); prop = "C06"
    variants = ["rel", "dbg", "sec", "asan"]
    cases = seq_cases(prop, "malformed", variants, tier_n(tier, 8, 100), tier_n(tier, 900, 3000), seed)
    # well-formed moderate requests must succeed: the general history with sizes up to 1 GiB class is run by C01; here a short one per variant
    v = Verdict(prop)
    for c in core.run_cases(cases): v.add(c)
    cov = seq_cov(cases)
    cov["malformed_requests"] = core.merge_counts(cases, "malformed")
    return finish(prop, tier, seed, "exploration", v, cases, t0,
                  "a case = the full grid of malformed requests (count*size overflow around 2^32/2^63/SIZE_MAX for 12 element sizes x 6 counts x both argument orders; sizes above PTRDIFF_MAX incl. "
                  "SIZE_MAX-k for k up to a page/slice; 19 invalid alignments x 8 sizes; posix_memalign codes and out-parameter; errno of reallocarray/reallocarr) for every entry point, "
                  "executed at 4 heap states (fresh, busy, busier, after frees) of a generated history, plus well-formed requests of that history; after every call: NULL/errno/out-parameter, "
                  "allocated-block count unchanged, victim block of realloc untouched, only EOVERFLOW/ENOMEM reported; non-trivial = >=4 heap states and >=8000 malformed calls; distinct = (variant, op hash)",
                  lambda r, c: r.get("malformed", {}).get("heap_states", 0) >= 4 and r.get("malformed", {}).get("calls", 0) >= 8000, cov,
                  SEQ_ASSUME + ["the throwing mi_new forms are driven with a std::new_handler installed (it is called, then uninstalls itself or jumps out); without a handler a C build of mimalloc abort()s by design"])

@check("C17")
def c17(tier, seed):
    t0 = time.time(); prop = "C17"
    cases = seq_cases(prop, "hardening", ["sec"], tier_n(tier, 32, 400), tier_n(tier, 3000, 8000), seed)
    cases += seq_cases(prop, "hardening", ["dbg"], tier_n(tier, 64, 1500), 500, seed, start_index=50000)
    # dedicated cases of the recorded findings K4-K6 (known_findings.json): one short history each
    for sc, vs in (("delayed-forged", ["sec", "dbg"]), ("delayed-double", ["sec", "dbg"]), ("sized-double", ["dbg"])):
        ded = seq_cases(prop, "hardening", vs, 1, 100, seed, extra_args=["--scenario", sc], label_prefix=sc + "-", start_index=90000)
        for c in ded: c.meta["dedicated"] = sc; c.meta["scenario"] = sc
        cases += ded
    # exact boundaries of the link check: links forged WITH the page's keys to decode just outside the page area (drv_forge.c, allocator included as one translation unit)
    fexe = build.static_driver("drv_forge", "sec")
    for i in range(tier_n(tier, 8, 100)):
        s = case_seed(seed, prop, 70000 + i)
        cases.append(Case("C17-forge-sec-%d" % s, [fexe, "--seed", s, "--rounds", 300], env=san_env("sec", prop, ""), timeout=300, crash_refutes=[prop], meta={"variant": "sec", "profile": "forge", "seed": s}))
    v = Verdict(prop)
    for c in core.run_cases(cases): v.add(c)
    cov = seq_cov(cases)
    cov["links_forged_at_area_boundaries"] = core.merge_counts(cases, "forge")
    cov["attacks"] = core.merge_counts(cases, "hardening")
    cov["attacks_sec"] = core.merge_counts([c for c in cases if c.meta["variant"] == "sec"], "hardening")
    cov["attacks_dbg"] = core.merge_counts([c for c in cases if c.meta["variant"] == "dbg"], "hardening")
    return finish(prop, tier, seed, "exploration", v, cases, t0,
                  "a case = an ordinary history with program errors inserted at random points: a second free of a thread-local block whose page holds another live block (expect EAGAIN), "
                  "a foreign byte written at p[n] (expect EFAULT at free), a freed block's link overwritten with a random 64-bit value followed by allocations of that class until the allocator "
                  "reaches it (expect EFAULT); sec: ~25 attacks per case and every shadow-model oracle (overlap, contents, conservation, returned address inside OS regions) stays on afterwards; "
                  "dbg: one attack per case, the case ends at the expected report; plus (sec) 8 processes x 300 links forged with the page's own keys to decode one past the end of / just before / "
                  "just beyond the block's page area (must be reported, and nothing but blocks of the heap's own pages may be handed out afterwards); non-trivial = >=1 attack executed; distinct = (variant, op-list hash)",
                  lambda r, c: sum(r.get("hardening", {}).get(k, 0) for k in ("double_free", "overflow", "forged_link")) + r.get("forge", {}).get("forged_links", 0) >= 1, cov,
                  SEQ_ASSUME + ["forged links are random 64-bit values (the statement's exception: decoding into the same area has probability ~2^-48)"])

def _drv_case(prop, label, variant, args, env=None, timeout=240, crash_refutes=None, meta=None):
    exe = build.driver("drv_seq", variant)
    e = dict(env or {}); e.update(san_env(variant, prop, label))
    m = {"variant": variant}; m.update(meta or {})
    return Case(label, [exe, "--prop", prop] + traits_args(variant) + list(args), env=e, timeout=timeout, crash_refutes=(crash_refutes if crash_refutes is not None else [prop]), meta=m)

def envname(env):
    return ",".join("%s=%s" % (k.replace("MIMALLOC_", "").lower(), v) for k, v in sorted(env.items())) or "default"

@check("C11")
def c11(tier, seed):
    t0 = time.time(); prop = "C11"
    variants = ["rel", "dbg"]
    build.build_many([("drv_seq", v) for v in variants])
    configs = [{}, {"MIMALLOC_DISALLOW_ARENA_ALLOC": "1"}, {"MIMALLOC_ARENA_RESERVE": "65536"}, {"MIMALLOC_PURGE_DELAY": "0"}]
    if tier == "thorough": configs += [{"MIMALLOC_PURGE_DECOMMITS": "0"}, {"MIMALLOC_EAGER_COMMIT": "0"}, {"MIMALLOC_ARENA_EAGER_COMMIT": "0"}, {"MIMALLOC_PURGE_DELAY": "-1"}]
    reps = tier_n(tier, 7, 40); nseeds = tier_n(tier, 1, 4)
    cases = []; idx = 0
    for v in variants:
        for w in range(8):
            # workload 5: storms of threads terminating together; workload 6: 72 segments live at once in one 4 GiB arena (every block of a bitmap word is used)
            for cfg in (configs if w < 5 else [{}, {}, {"MIMALLOC_DISALLOW_ARENA_ALLOC": "1"}] if w == 5 else [{"MIMALLOC_ARENA_RESERVE": "4GiB"}, {"MIMALLOC_ARENA_RESERVE": "4GiB", "MIMALLOC_PURGE_DELAY": "0"}] if w == 6 else [{}]):   # workload 7: reservations beyond the arena table
                for k in range(nseeds):
                    s = case_seed(seed, prop, idx); idx += 1
                    cases.append(_drv_case(prop, "C11-w%d-%s-%s-%d" % (w, envname(cfg), v, s), v, ["--profile", "ledger", "--seed", s, "--workload", w, "--reps", reps], env=cfg,
                                           timeout=600, crash_refutes=["C01"], meta={"workload": w, "config": envname(cfg), "seed": s}))
    v = Verdict(prop)
    for c in core.run_cases(cases): v.add(c)
    cov = seq_cov(cases)
    series = []
    for c in cases:
        r = c.result or {}
        led = r.get("ledger", {})
        if led.get("series"):
            series.append({"workload": c.meta["workload"], "config": c.meta["config"], "variant": c.meta["variant"],
                           "mapped": [m["mapped"] for m in led["series"]], "resident": [m["resident"] for m in led["series"]], "small_regions": [m["small_regions"] for m in led["series"]]})
    cov["series"] = series[:12]
    cov["repetitions_per_case"] = reps
    cov["blocks_allocated_and_freed"] = sum((c.result or {}).get("ledger", {}).get("blocks", 0) for c in cases)
    cov["threads_started_and_exited"] = sum((c.result or {}).get("ledger", {}).get("threads", 0) for c in cases)
    return finish(prop, tier, seed, "exploration", v, cases, t0,
                  "a case = N repetitions of one allocate-everything/free-everything workload (small, large, huge 40-200 MiB, aligned-huge with alignment 32-128 MiB, 4 threads with thread exit) under one option "
                  "setting (arenas default / disabled / 64 MiB reserve / immediate purge ...); after every repetition + forced collects the OS ledger (mmap/munmap/mprotect/madvise shim + mincore) must show: "
                  "no region >= 1 MiB outside arenas still mapped, arena memory not resident, and for repetitions >= 3 no growth of mapped or resident bytes; non-trivial = >= 3 repetitions completed; "
                  "distinct = (variant, workload, config, seed)",
                  lambda r, c: len(r.get("ledger", {}).get("series", [])) >= 3, cov,
                  SEQ_ASSUME + ["repetitions 1-2 are warm-up (arenas, thread-data cache, segment map are legitimately retained)", "residency is measured with mincore on the ledger's regions, tolerance 1 MiB"])

@check("C18")
def c18(tier, seed):
    t0 = time.time(); prop = "C18"
    variants = ["rel"] + (["dbg"] if tier == "thorough" else [])
    build.build_many([("drv_seq", v) for v in ("rel", "dbg")])
    cfgs = []
    for d in (["-1", "0", "5", "10", "100"] if tier == "quick" else ["-1", "0", "1", "5", "10", "50", "100", "1000"]):
        for sc in ("pages", "segments", "all"):
            extra = [{}]
            if d not in ("-1",): extra = [{}, {"MIMALLOC_PURGE_DECOMMITS": "0"}] if sc != "pages" else [{}, {"MIMALLOC_ARENA_PURGE_MULT": "1"}]
            for ex in extra:
                e = {"MIMALLOC_PURGE_DELAY": d}; e.update(ex); cfgs.append((sc, e))
    if tier == "thorough":
        for d in ("0", "10"):
            for sc in ("segments", "all"):
                cfgs.append((sc, {"MIMALLOC_PURGE_DELAY": d, "MIMALLOC_DISALLOW_ARENA_ALLOC": "1"}))
    # exact scenarios: whole segments freed at different times into 1..7 arenas over several rounds; a page in a live segment while new pages keep being allocated there
    exact = []
    for d in (["-1", "0", "10", "50"] if tier == "quick" else ["-1", "0", "1", "5", "10", "50", "100", "1000"]):
        for res in ("64MiB", "128MiB", None):
            e = {"MIMALLOC_PURGE_DELAY": d}
            if res: e["MIMALLOC_ARENA_RESERVE"] = res
            exact.append(("arenas", e))
            if d == "10": exact.append(("arenas", dict(e, MIMALLOC_PURGE_DECOMMITS="0"))); exact.append(("arenas", dict(e, MIMALLOC_ARENA_PURGE_MULT="1")))
        exact.append(("trickle", {"MIMALLOC_PURGE_DELAY": d}))
        exact.append(("holes", {"MIMALLOC_PURGE_DELAY": d})); exact.append(("holes", {"MIMALLOC_PURGE_DELAY": d}))
        exact.append(("abandoned", {"MIMALLOC_PURGE_DELAY": d}))
        if d not in ("-1",): exact.append(("switch", {"MIMALLOC_PURGE_DELAY": d}))
        if d == "10":
            lazy = {"MIMALLOC_PURGE_DELAY": d, "MIMALLOC_EAGER_COMMIT": "0", "MIMALLOC_ARENA_EAGER_COMMIT": "0"}
            for sc in ("holes", "holes", "arenas", "abandoned", "trickle"): exact.append((sc, lazy))
        if d not in ("-1", "0"): exact.append(("trickle", {"MIMALLOC_PURGE_DELAY": d, "MIMALLOC_PURGE_DECOMMITS": "0"}))
    cases = []; idx = 0
    # the debug build really decommits purged pages (partly committed segments): it runs the exact scenarios too (quick tier: for one delay)
    for v in (variants if tier == "thorough" else ["rel", "dbg"]):
        for (sc, e) in exact:
            if v == "dbg" and tier == "quick" and e.get("MIMALLOC_PURGE_DELAY") != "10": continue
            for k in range(tier_n(tier, 4, 24) if v == "rel" else tier_n(tier, 2, 12)):
                s = case_seed(seed, prop, 100000 + idx); idx += 1
                cases.append(_drv_case(prop, "C18-%s-%s-%s-%d" % (sc, envname(e), v, s), v, ["--profile", "purge", "--seed", s, "--scenario", sc], env=e, timeout=300, crash_refutes=["C01"],
                                       meta={"scenario": sc, "config": envname(e), "seed": s}))
    idx = 0
    for v in variants[:1]:      # the percentage yardstick is calibrated for the release build only (the debug build fills freed blocks, which touches pages the release build never touches)
        for (sc, e) in cfgs:
            for k in range(tier_n(tier, 1, 6)):
                s = case_seed(seed, prop, idx); idx += 1
                cases.append(_drv_case(prop, "C18-%s-%s-%s-%d" % (sc, envname(e), v, s), v, ["--profile", "purge", "--seed", s, "--scenario", sc], env=e, timeout=300, crash_refutes=["C01"],
                                       meta={"scenario": sc, "config": envname(e), "seed": s}))
    v = Verdict(prop)
    for c in core.run_cases(cases): v.add(c)
    cov = seq_cov(cases)
    cov["purge_measurements"] = [dict(scenario=c.meta["scenario"], config=c.meta["config"], **(c.result or {}).get("purge", {})) for c in cases[:40]]
    cov["virtual_clock_ms_advanced"] = core.sum_field(cases, "clock_ms")
    ex = [c for c in cases if c.meta["scenario"] in ("arenas", "trickle", "holes", "switch", "abandoned") and c.result]
    cov["exact_scenarios"] = {"cases": len(ex), "freed_ranges_checked": core.sum_field(ex, "purge_exact", "ranges_checked"), "bytes_checked": core.sum_field(ex, "purge_exact", "bytes_checked"),
                              "rounds": core.sum_field(ex, "purge_exact", "rounds"), "arena_counts_seen": sorted(set(int(c.result.get("purge_exact", {}).get("arenas", 0)) for c in ex))}
    return finish(prop, tier, seed, "exploration", v, cases, t0,
                  "a case = one option setting (purge_delay in {-1,0,5,10,100}, decommit/reset, arena multiplier) x one scenario (free whole pages / whole segments / everything of a 290 MiB working set); "
                  "the virtual clock (wrapped clock_gettime) is advanced far beyond the delay while ordinary alloc/free activity and non-forced mi_collect run; committed bytes = ledger pages in state RW "
                  "that mincore reports resident; the bytes a forced collect would return are the yardstick; violation = more than 35% (page scenario: 90%, a smoke test; page-level purging is judged exactly by the holes and trickle scenarios) of them still committed, or any purge "
                  "call with delay -1; non-trivial = peak committed >= 64 MiB measured; distinct = (variant, scenario, config, seed). "
                  "Exact scenarios: 'arenas' = huge blocks (a segment each) freed in random order with random virtual-time gaps into 1..7 arenas over 2..4 rounds, then only activity that frees no segment "
                  "and non-forced collects: every freed range must have 0 committed resident bytes after (4 + 2 x arenas) arena delays; 'trickle' = pages inside a live segment are freed and afterwards "
                  "new, larger pages are allocated in that segment at intervals shorter than the delay, nothing is freed: the freed pages must have 0 committed resident bytes once 3 delays have passed; 'holes' = 72 MiB of one-block pages (four size mixes), a subset freed by four "
                  "patterns (random, every k-th kept, pages covering slice t mod 64 kept), after 3 delays one more page per segment is freed and every freed page of that segment must have 0 committed resident bytes, then everything else is freed and after the arena delay every page of the "
                  "segments that went back to their arena must be returned (partly committed segments: debug build, lazy commit); 'switch' = purge_delay is set to -1 at run time while purges are pending: no purge call "
                  "may follow; 'abandoned' = a thread terminates with live one-block pages, this thread frees every other one, a non-forced collect releases the empty pages and after the delay further non-forced "
                  "collects must have returned them; "
                  "non-trivial for these = at least one freed range judged",
                  lambda r, c: (r.get("purge", {}).get("peak", 0) >= (64 << 20)) or r.get("purge_exact", {}).get("ranges_checked", 0) > 0, cov,
                  SEQ_ASSUME + ["time is the wrapped clock_gettime; mimalloc reads no other clock for purging"])

FAULT_CLASSES = {0: "mmap", 1: "munmap", 2: "mprotect", 3: "madvise"}
@check("C07")
def c07(tier, seed):
    import errno as E
    t0 = time.time(); prop = "C07"
    variants = ["rel", "sec"]
    build.build_many([("drv_seq", v) for v in variants])
    ops = tier_n(tier, 1200, 2500)
    setups = [(0, {}), (1, {}), (2, {}), (3, {}), (4, {}), (1, {"MIMALLOC_DISALLOW_ARENA_ALLOC": "1"}), (1, {"MIMALLOC_EAGER_COMMIT": "0", "MIMALLOC_ARENA_EAGER_COMMIT": "0"}), (2, {"MIMALLOC_PURGE_DELAY": "0"})]
    setups.append((2, {"MIMALLOC_ARENA_EAGER_COMMIT": "0"}))      # arena memory committed on demand: a refused commit of a huge segment
    setups.append((4, {"MIMALLOC_ARENA_EAGER_COMMIT": "0", "MIMALLOC_EAGER_COMMIT": "0"}))
    if tier == "quick": setups = setups[:5] + setups[5:6] + setups[8:9]
    # 1. clean runs: count the OS calls of every workload
    counts = {}
    clean = []
    for v in variants:
        for si, (w, e) in enumerate(setups):
            s = case_seed(seed, prop, si)
            clean.append(_drv_case(prop, "C07-clean-w%d-%s-%s" % (w, envname(e), v), v, ["--profile", "faults", "--seed", s, "--ops", ops, "--workload", w], env=e, timeout=300, meta={"setup": si, "seed": s, "clean": 1}))
    verdict = Verdict(prop)
    for c in core.run_cases(clean):
        verdict.add(c)
        if c.result: counts[(c.meta["variant"], c.meta["setup"])] = c.result.get("os", {})
    # 2. one process per fault position
    per_class = tier_n(tier, 10, 150)          # positions per (setup, call class); all of them when the workload makes fewer calls
    rnd = random.Random(seed)
    cases = []
    for v in variants:
        for si, (w, e) in enumerate(setups):
            osc = counts.get((v, si))
            if not osc: continue
            s = case_seed(seed, prop, si)
            for cls, cname in FAULT_CLASSES.items():
                K = int(osc.get(cname, 0))
                if K == 0: continue
                if K <= per_class: positions = list(range(1, K + 1))
                else:
                    positions = sorted(set([1, 2, 3, K] + [rnd.randint(1, K) for _ in range(per_class - 4)]))
                for k in positions:
                    for persistent in (0, 1):
                        if tier == "quick" and (k + persistent) % 2 == 1 and k > 3: continue      # alternate single / persistent on the quick tier
                        errs = [E.ENOMEM]
                        if cls == 2: errs = [E.ENOMEM, E.EPERM] if tier == "thorough" else [E.ENOMEM if k % 2 else E.EPERM]
                        if cls in (0, 3) and not persistent and tier == "thorough": errs = [E.ENOMEM, E.EAGAIN]
                        for er in errs:
                            plan = "%d:%d:%d:%d" % (cls, k, persistent, er)
                            cases.append(_drv_case(prop, "C07-w%d-%s-%s-%s" % (w, envname(e), v, plan.replace(":", "_")), v,
                                                   ["--profile", "faults", "--seed", s, "--ops", ops, "--workload", w, "--faults", plan], env=e, timeout=300,
                                                   meta={"setup": si, "workload": w, "config": envname(e), "plan": plan, "class": cname, "k": k, "K": K, "persistent": persistent, "seed": s}))
    for c in core.run_cases(cases): verdict.add(c)
    fired = [c for c in cases if (c.result or {}).get("faults", {}).get("fired", 0) > 0]
    by_class = {}
    for c in cases:
        d = by_class.setdefault(c.meta["class"], {"planned": 0, "fired": 0})
        d["planned"] += 1
        if c in fired: d["fired"] += 1
    cov = seq_cov(cases)
    cov["fault_plans"] = {"planned": len(cases), "fired": len(fired), "by_class": by_class}
    cov["os_calls_of_clean_runs"] = {"%s/setup%d" % k: {n: v.get(n) for n in ("mmap", "munmap", "mprotect", "madvise")} for k, v in counts.items()}
    cov["battery_runs_after_heal"] = sum((c.result or {}).get("faults", {}).get("battery_runs", 0) for c in cases)
    cov["giveback_checked"] = sum((c.result or {}).get("faults", {}).get("giveback_checked", 0) for c in cases)
    cov["exhaustive"] = (tier == "thorough")
    allc = clean + cases
    # for the schema: evaluations / distinct over fired plans
    def nontrivial(r, c): return c.meta.get("clean") or r.get("faults", {}).get("fired", 0) > 0
    return finish(prop, tier, seed, "fault_enumeration", verdict, allc, t0,
                  "a case = one workload (small / mixed / large+huge / aligned incl. huge alignments / threads with exit, several option settings) re-run in a fresh process with ONE fault plan: the k-th "
                  "mmap / munmap / mprotect / madvise call made by mimalloc fails once, or every call from the k-th on fails until the heal point (errno ENOMEM, EPERM, EAGAIN); k ranges over the call "
                  "count measured in a clean run (all k in the thorough tier, a stride sample in the quick tier); oracles: no crash, live blocks intact and accessible, conservation, post-heal battery "
                  "(all page kinds, new heap, new thread), everything given back; non-trivial = the planned fault really fired (INJECTED counter > 0); distinct = (variant, workload, config, plan)",
                  nontrivial, cov,
                  SEQ_ASSUME + ["NDEBUG builds only (debug builds assert after a failed decommit by design)", "a plan whose fault never fired counts as not covered"])

# ---- multi-thread driver ------------------------------------------------------------------------------------------------
MT_SCEN_ARGS = {
    # scenario: (baton arg generator, parallel arg generator)
    "xfree":    (lambda r: ["--threads", r.choice([2, 3, 3, 4]), "--ops", r.choice([40, 80, 150, 300])],              lambda r: ["--threads", r.choice([4, 8, 12]), "--ops", r.choice([20000, 60000])]),
    "prodcons": (lambda r: ["--threads", r.choice([2, 3, 4]), "--rounds", r.choice([20, 40, 80]), "--live", r.choice([8, 32, 64])],
                 lambda r: ["--threads", r.choice([3, 5, 8]), "--rounds", r.choice([400, 1200]), "--live", r.choice([64, 1024, 4096])]),
    "heapdel":  (lambda r: ["--threads", r.choice([2, 3, 4]), "--rounds", r.choice([8, 16, 40])],
                 lambda r: ["--threads", r.choice([3, 5, 8]), "--rounds", r.choice([200, 600]), "--live", r.choice([32, 600, 3000, 8000])]),
    "exit":     (lambda r: ["--threads", r.choice([2, 3, 4, 4]), "--ops", r.choice([40, 100, 200]), "--rounds", r.choice([2, 3, 5]), "--exit-mode", r.choice([0, 1, 2]), "--subprocs", r.choice([0, 0, 2])],
                 lambda r: ["--threads", r.choice([4, 6, 8]), "--ops", r.choice([3000, 8000]), "--rounds", r.choice([4, 8]), "--exit-mode", r.choice([0, 2]), "--subprocs", r.choice([0, 2])]),
    "arena":    (lambda r: ["--threads", r.choice([2, 3, 4]), "--ops", r.choice([30, 60, 120]), "--arena-blocks", r.choice([32, 40, 64, 72, 96, 100, 128, 128, 130, 160, 192])],
                 lambda r: ["--threads", r.choice([4, 6, 8]), "--ops", r.choice([400, 1500]), "--arena-blocks", r.choice([32, 40, 64, 72, 96, 100, 128, 130, 160, 192])]),
}
MT_ENVS = {
    "xfree": [{}],
    "prodcons": [{}],
    "heapdel": [{}],
    "exit": [{"MIMALLOC_VISIT_ABANDONED": "1"}, {"MIMALLOC_VISIT_ABANDONED": "1", "MIMALLOC_ABANDONED_RECLAIM_ON_FREE": "1"}, {"MIMALLOC_VISIT_ABANDONED": "1", "MIMALLOC_DISALLOW_ARENA_ALLOC": "1"},
             {"MIMALLOC_VISIT_ABANDONED": "1", "MIMALLOC_DISALLOW_ARENA_ALLOC": "1", "MIMALLOC_ABANDONED_RECLAIM_ON_FREE": "1"}, {"MIMALLOC_ABANDONED_RECLAIM_ON_FREE": "1"},
             {"MIMALLOC_VISIT_ABANDONED": "1", "MIMALLOC_TARGET_SEGMENTS_PER_THREAD": "2", "MIMALLOC_ABANDONED_RECLAIM_ON_FREE": "1"}, {"MIMALLOC_VISIT_ABANDONED": "1", "MIMALLOC_TARGET_SEGMENTS_PER_THREAD": "4"},
             {"MIMALLOC_VISIT_ABANDONED": "1", "MIMALLOC_TARGET_SEGMENTS_PER_THREAD": "2"}, {"MIMALLOC_VISIT_ABANDONED": "1", "MIMALLOC_MAX_SEGMENT_RECLAIM": "100", "MIMALLOC_ABANDONED_PAGE_PURGE": "1"}],
    "arena": [{}, {"MIMALLOC_PURGE_DELAY": "0"}, {"MIMALLOC_PURGE_DELAY": "1", "MIMALLOC_ARENA_PURGE_MULT": "1"}],
}

def mt_cases(prop, scenario, tier, seed, n_baton=None, n_par=None, n_tsan=None, start=0):
    n_baton = n_baton if n_baton is not None else tier_n(tier, 1200, 60000)
    n_par = n_par if n_par is not None else tier_n(tier, 12, 120)
    n_tsan = n_tsan if n_tsan is not None else tier_n(tier, 6, 60)
    variants = ["rel-h", "dbg-h"] + (["tsan-h"] if n_tsan else [])
    build.build_many([("drv_mt", v) for v in variants])
    rnd = random.Random(seed * 104729 + hash(scenario) % 1000 + start)
    gen_b, gen_p = MT_SCEN_ARGS[scenario]
    envs = MT_ENVS[scenario]
    cases = []
    def mk(v, mode, extra, i, timeout):
        s = case_seed(seed, prop + scenario, start + i)
        env = dict(rnd.choice(envs)); env.update(san_env(v, prop, ""))
        exe = build.driver("drv_mt", v)
        args = [exe, "--scenario", scenario, "--prop", prop, "--variant", v, "--seed", s, "--mode", mode, "--debug", int(v.startswith("dbg"))] + [str(x) for x in extra]
        return Case("%s-%s-%s-%s-%d" % (prop, scenario, v, mode, s), args, env=env, timeout=timeout, crash_refutes=[prop], meta={"variant": v, "scenario": scenario, "mode": mode, "seed": s,
                    "config": envname({k: x for k, x in env.items() if k.startswith("MIMALLOC_")})})
    for i in range(n_baton):
        v = "rel-h" if i % 2 == 0 else "dbg-h"
        pol = rnd.choice(["targeted", "targeted", "uniform", "pct"])
        extra = gen_b(rnd) + ["--policy", pol, "--spurious", rnd.choice([0, 4, 8, 16]), "--tso", rnd.choice([0, 0, 2, 4])]      # --tso: simulated store buffer (store -> load reordering)
        if pol == "targeted": extra += ["--p-hot", rnd.choice([2, 2, 3]), "--p-other", rnd.choice([8, 16, 32])]
        elif pol == "uniform": extra += ["--p-other", rnd.choice([2, 4, 8, 32])]
        else: extra += ["--pct-depth", rnd.choice([1, 2, 3]), "--pct-steps", rnd.choice([3000, 20000, 100000])]
        cases.append(mk(v, "baton", extra, i, 120))
    for i in range(n_par):
        v = "rel-h" if i % 2 == 0 else "dbg-h"
        mode = rnd.choice(["delay", "delay", "off"])
        cases.append(mk(v, mode, gen_p(rnd) + ["--delay-den", rnd.choice([16, 64, 256]), "--spurious", rnd.choice([0, 8])], 100000 + i, 600))
    for i in range(n_tsan):
        mode = rnd.choice(["delay", "off"])
        ex = gen_p(rnd)
        # TSan costs 5-15x: shrink the op counts
        ex = [(max(2, int(x) // 8) if isinstance(x, int) and x >= 400 else x) for x in ex]
        cases.append(mk("tsan-h", mode, ex + ["--delay-den", rnd.choice([32, 128]), "--spurious", 0], 200000 + i, 900))
    return cases

def mt_cov(cases):
    hashes = set((c.result or {}).get("sched", {}).get("hash") for c in cases if c.result and c.meta.get("mode") == "baton")
    funcs = {}
    for c in cases:
        for k, v in ((c.result or {}).get("funcs") or {}).items():
            cur = funcs.setdefault(k, [0, 0]); cur[0] += v[0]; cur[1] += v[1]
    top = dict(sorted(funcs.items(), key=lambda kv: -kv[1][1])[:16])
    def sm(*p): return core.sum_field(cases, *p)
    return {
        "executions": len(cases), "by_mode": {m: sum(1 for c in cases if c.meta.get("mode") == m) for m in ("baton", "delay", "off")},
        "by_variant": {v: sum(1 for c in cases if c.meta.get("variant") == v) for v in sorted(set(c.meta.get("variant") for c in cases))},
        "distinct_baton_schedules": len(hashes),
        "schedule_points": sm("sched", "points"), "context_switches": sm("sched", "switches"), "forced_switches_at_yield_points": sm("sched", "forced"), "spurious_weak_cas_failures": sm("sched", "spurious_cas"),
        "injected_delays": sm("sched", "delays"),
        "stores_kept_in_the_simulated_store_buffer": sm("sched", "delayed_stores"), "loads_that_overtook_a_buffered_store": sm("sched", "loads_overtaking"),
        "points_and_switches_per_function": top,
        "allocations": sm("mt", "allocs"), "local_frees": sm("mt", "local_frees"), "remote_frees": sm("mt", "remote_frees"), "handovers": sm("mt", "sends"), "pattern_verifications": sm("mt", "verified"),
        "events_replayed_by_lifetime_checker": sm("mt", "events"), "collects": sm("mt", "collects"), "thread_exits": sm("mt", "thread_exits"), "heap_deletes_racing_frees": sm("mt", "heap_deletes"),
        "allocations_checked_against_the_sub_process_rule": sm("mt", "subproc_allocs_checked"),
        "destroyable_heaps_that_needed_fresh_segments_and_were_destroyed": sm("mt", "destroyable_heap_adoption_patterns"),
        "arena_claims": sm("mt", "claims"), "arena_claims_failed_for_space": sm("mt", "claims_failed"),
        "allocator_counters": core.merge_counts(cases, "mi"),
        "option_settings": sorted(set(c.meta.get("config", "") for c in cases)),
    }


# ---- tiny programs under scripted, preemption-bounded schedules (C02 / C08) -------------------------------------------------
TINYX_ENVS = [{"MIMALLOC_ABANDONED_RECLAIM_ON_FREE": "1", "MIMALLOC_VISIT_ABANDONED": "1"}, {"MIMALLOC_VISIT_ABANDONED": "1"},
              {"MIMALLOC_ABANDONED_RECLAIM_ON_FREE": "1", "MIMALLOC_VISIT_ABANDONED": "1", "MIMALLOC_DISALLOW_ARENA_ALLOC": "1"}, {"MIMALLOC_ABANDONED_RECLAIM_ON_FREE": "1"}]

def tiny_cases(prop, tier, seed, n_progs=None, variants=("rel-h", "dbg-h"), scenario="tiny", envs=({},), max_scripts=None):
    """two stages: (1) run every tiny program without preemption to learn how many switch points each thread executes;
    (2) enumerate scripts: every single preemption of a freeing thread, every pair of preemptions of the same freeing thread at most 3 of
    its own points apart (the shape of ABA / lost-update windows) with every choice of the threads that run in the window, and samples of
    preemptions of the owner and of spurious weak-CAS failures."""
    n_progs = n_progs if n_progs is not None else tier_n(tier, 24, 100)
    build.build_many([("drv_mt", v) for v in variants])
    rnd = random.Random(seed * 7919 + 13)
    progs = [(rnd.randrange(1, 1 << 30), rnd.choice([3, 3, 4]), dict(envs[i % len(envs)])) for i in range(n_progs)]
    def mk(v, prog, threads, script, label, env):
        exe = build.driver("drv_mt", v)
        args = [exe, "--scenario", scenario, "--prop", prop, "--variant", v, "--seed", 1, "--mode", "baton", "--policy", "script", "--prog", prog, "--threads", threads, "--script", script,
                "--debug", int(v.startswith("dbg"))]
        e = dict(env); e.update(san_env(v, prop, ""))
        return Case("%s-%s-%s-p%d-t%d-%s" % (prop, scenario, v, prog, threads, label), args, env=e, timeout=60, crash_refutes=[prop],
                    meta={"variant": v, "scenario": scenario, "mode": "baton", "seed": prog, "script": script, "config": envname(env) or scenario})
    base = [mk(variants[i % len(variants)], pg, th, "", "base", en) for i, (pg, th, en) in enumerate(progs)]
    core.run_cases(base)
    cases = list(base)
    for i, c in enumerate(base):
        t = (c.result or {}).get("tiny")
        if not t: continue
        pg, th, en = progs[i]; v = c.meta["variant"]
        pts = t["points"]; nT = len(pts) - 1
        scripts = []
        for vic in range(1, nT + 1):
            others = [x for x in range(0, nT + 1) if x != vic]
            n = pts[vic]
            for k1 in range(1, n + 1):
                for t1 in others: scripts.append("%d:%d:%d" % (vic, k1, t1))
                for k2 in range(k1 + 1, min(n, k1 + 3) + 1):
                    for t1 in others:
                        for t2 in others: scripts.append("%d:%d:%d,%d:%d:%d" % (vic, k1, t1, vic, k2, t2))
        # the owner as the victim, in its racy phase (between opening the gate and the end of its own operations) and a little beyond
        lo, hi = t["o_phase1"], min(t["o_phase2"] + 40, pts[0])
        span = list(range(lo, hi + 1))
        for _ in range(tier_n(tier, 40, 400)):
            k1 = rnd.choice(span); t1 = rnd.randrange(1, nT + 1)
            if rnd.random() < 0.5: scripts.append("0:%d:%d" % (k1, t1))
            else: scripts.append("0:%d:%d,0:%d:%d" % (k1, t1, k1 + rnd.randrange(1, 4), rnd.randrange(1, nT + 1)))
        if scenario == "tinyx":
            # nested: victim a is stopped at each of its points in favour of b, and b in turn is stopped somewhere (3 samples) in favour of a -- both are then inside their operations at the same time
            for a in range(1, nT + 1):
                for k1 in range(1, pts[a] + 1):
                    for b in [x for x in range(1, nT + 1) if x != a]:
                        for _ in range(3):
                            scripts.append("%d:%d:%d,%d:%d:%d" % (a, k1, b, b, rnd.randrange(1, max(1, pts[b]) + 1), a))
        # preemptions of two different victims, and spurious weak-CAS failures combined with a preemption
        for _ in range(tier_n(tier, 40, 400)):
            a, b = rnd.sample(range(1, nT + 1), 2)
            scripts.append("%d:%d:%d,%d:%d:%d" % (a, rnd.randrange(1, max(1, pts[a]) + 1), rnd.choice([0, b]), b, rnd.randrange(1, max(1, pts[b]) + 1), rnd.choice([0, a])))
        for _ in range(tier_n(tier, 30, 300)):
            a = rnd.randrange(1, nT + 1); ncas = max(1, t["cas"][a])
            scripts.append("%d:%d:s,%d:%d:%d" % (a, rnd.randrange(1, ncas + 1), a, rnd.randrange(1, pts[a] + 2), rnd.choice([x for x in range(0, nT + 1) if x != a])))
        if max_scripts is not None and len(scripts) > max_scripts: scripts = rnd.sample(scripts, max_scripts)
        for j, sc in enumerate(scripts):
            cases.append(mk(v if j % 3 else variants[(variants.index(v) + 1) % len(variants)], pg, th, sc, "s%d" % j, en))
    return cases

def tiny_cov(cases):
    tc = [c for c in cases if c.meta.get("scenario") in ("tiny", "tinyx")]
    ok = [c for c in tc if c.result and "tiny" in c.result]
    return {"tiny_program_executions": len(tc), "tiny_programs": len(set(c.meta["seed"] for c in tc)), "scripted_preemptions_fired": sum(c.result["tiny"].get("script_fired", 0) for c in ok),
            "tiny_distinct_schedules": len(set((c.meta["seed"], c.result["sched"]["hash"]) for c in ok)),
            "tiny_program_shapes": sorted(set(c.result["tiny"]["desc"] for c in ok))[:40]}

MT_ASSUME = ["baton mode explores interleavings at the allocator's atomic operations (incl. spurious weak-CAS failure) that are sequentially consistent except for one modelled relaxation: in half of the cases a non-seq_cst atomic store may stay in a simulated per-thread store buffer while up to 2 following atomic loads of that thread execute (store->load reordering as on x86-TSO; at most one buffered store per thread; flushed before any other atomic operation, a load of the same location, and the return of every allocator call); other weak-memory effects are visible only as ThreadSanitizer reports or in the real parallel runs",
             "the schedule controller only decides who runs when: every schedule is an execution the program can have", "only the executions listed were explored"]

def mt_sample(c):
    r = c.result or {}
    return {"cmd": " ".join([os.path.basename(c.cmd[0])] + c.cmd[1:]), "env": {k: v for k, v in c.env.items() if k.startswith("MIMALLOC_")}, "schedule_hash": r.get("sched", {}).get("hash"),
            "switches": r.get("sched", {}).get("switches"), "remote_frees": r.get("mt", {}).get("remote_frees")}

def mt_finish(prop, tier, seed, cases, verdict, t0, rule, nontrivial, extra=None):
    cov = mt_cov(cases)
    if extra: cov.update(extra)
    rc = finish(prop, tier, seed, "exploration", verdict, cases, t0, rule, nontrivial, cov, MT_ASSUME)
    return rc

def _mt_nontrivial(r, c):
    m = r.get("mt", {}); s = r.get("sched", {})
    return m.get("allocs", 0) >= 10 and (s.get("switches", 0) >= 10 or c.meta.get("mode") != "baton")

@check("C02")
def c02(tier, seed):
    t0 = time.time(); prop = "C02"
    cases = mt_cases(prop, "xfree", tier, seed)
    v = Verdict(prop)
    for c in core.run_cases(cases): v.add(c)
    tiny = tiny_cases(prop, tier, seed)
    for c in core.run_cases([c for c in tiny if c.exit is None]): pass
    for c in tiny: v.add(c)
    cases += tiny
    # blocks handed between threads that terminate meanwhile: adoption of abandoned memory (reclaim on free, forced abandonment, OS segments) must not hand a block out twice either
    ex = mt_cases(prop, "exit", tier, seed, n_baton=tier_n(tier, 400, 10000), n_par=tier_n(tier, 4, 40), n_tsan=tier_n(tier, 2, 20), start=700000)
    for c in core.run_cases(ex): v.add(c)
    cases += ex
    tx = tiny_cases(prop, tier, seed + 5, n_progs=tier_n(tier, 10, 20), scenario="tinyx", envs=TINYX_ENVS, max_scripts=tier_n(tier, 3000, 6000))      # see C09
    for c in core.run_cases([c for c in tx if c.exit is None]): pass
    for c in tx: v.add(c)
    cases += tx; tiny = tiny + tx
    return mt_finish(prop, tier, seed, cases, v, t0,
                     "tiny programs: one owner allocates 2-9 blocks of one size class (64 B .. 16 KB, so that pages are full or nearly full), gives 1-2 of them to each of 2-3 freeing threads and then does "
                     "1-4 operations of its own (malloc / malloc+free / free / collect) while they free; afterwards it allocates the pages full again and verifies every block. Their schedules are enumerated, "
                     "not sampled: every single preemption of a freeing thread at each of its switch points, every pair of preemptions of the same freeing thread at most 3 of its points apart with every "
                     "choice of who runs in each window (the shape of ABA and lost-update windows), plus samples of owner preemptions, of two different victims and of spurious weak-CAS failures. "
                     "Other cases: a case = one execution of 2-4 (baton) or 4-12 (parallel) real threads that allocate from few size classes, free their own blocks, hand blocks to each other (lock-free mailboxes), "
                     "verify and free received blocks and collect; baton mode: one thread runs at a time and every mi_atomic operation / yield / lock is a switch point of a seeded targeted, uniform or "
                     "PCT scheduler with spurious weak-CAS failures; parallel mode: injected yields/spins/sleeps; TSan build; oracles: unique-id byte patterns checked by the current holder, offline "
                     "replay of all alloc/free events in timestamp order against an interval map (no two live blocks intersect), crash handler, MI_DEBUG=3 invariants; non-trivial = >=10 allocations "
                     "and >=10 context switches (tiny programs: >= 1 remote free); distinct = schedule hash (sequence of (thread, function) at switches)",
                     lambda r, c: (c.meta.get("scenario") == "tiny" or _mt_nontrivial(r, c)) and r.get("mt", {}).get("remote_frees", 0) >= 1, tiny_cov(tiny))

@check("C08")
def c08(tier, seed):
    t0 = time.time(); prop = "C08"
    cases = mt_cases(prop, "prodcons", tier, seed)
    # remote frees into a heap that its owner deletes meanwhile must not be lost either (same oracle as C10's concurrent part)
    cases += mt_cases(prop, "heapdel", tier, seed, n_baton=tier_n(tier, 300, 10000), n_par=tier_n(tier, 4, 40), n_tsan=tier_n(tier, 2, 20), start=500000)
    # dedicated case of the recorded finding K7 (memory side of K2): blocks of a deleted TAGGED heap freed by another thread, with a tag-0 control in the same process
    ded = seq_cases(prop, "tagged-delete-remote", ["rel", "sec"], 1, 100, seed, label_prefix="tagged-delete-remote-", start_index=90000, timeout=300)
    for c in ded: c.meta["dedicated"] = "tagged-delete-remote"; c.meta["scenario"] = "tagged-delete-remote"
    cases += ded
    # exact scenario for the first clause ("becomes reusable by the owning thread"), also for pages adopted from a terminated thread (added for seeded change C08-r7-2)
    reuse = seq_cases(prop, "reuse-after-remote-free", ["rel", "dbg", "sec"], tier_n(tier, 4, 40), 100, seed, label_prefix="reuse-", start_index=95000, timeout=300)
    for c in reuse: c.meta["scenario"] = "reuse-after-remote-free"
    cases += reuse
    v = Verdict(prop)
    for c in core.run_cases(cases): v.add(c)
    # tiny programs with enumerated preemptions (see C02): at their end every block was freed and the owner's heap must count no used block
    tiny = tiny_cases(prop, tier, seed + 77, n_progs=tier_n(tier, 12, 120))
    for c in core.run_cases([c for c in tiny if c.exit is None]): pass
    for c in tiny: v.add(c)
    cases += tiny
    series = [(c.result or {}).get("areas_series") for c in cases if (c.result or {}).get("areas_series")][-3:]
    return mt_finish(prop, tier, seed, cases, v, t0,
                     "a case = one owner thread allocating from its own heap in rounds (<= L outstanding blocks) and 1-7 consumer threads freeing those blocks remotely while the owner keeps allocating, "
                     "freeing and collecting; at the end every block has been freed by whichever thread, the owner calls mi_heap_collect(heap,true) once and the heap walk must report no area; the per-round "
                     "area counts must not keep growing (max of 2nd half > 2x max of 1st quarter + 16 AND positive slope = violation); same schedulers as C02; plus the tiny programs of C02 with enumerated preemptions "
                     "(one or two preemptions of a freeing thread at every switch point and every window up to 3 points, samples of owner preemptions and spurious CAS failures), whose owner heap must count "
                     "no used block after everything was freed and force-collected; plus the exact 'reuse' scenario (single owner, helper threads joined, so schedule-independent): 12 rounds of "
                     "{N blocks of one size class fill pages of the owner's heap -- allocated by the owner, or by a thread that terminates and adopted by the owner through a forced collect or reclaim-on-free --, "
                     "64 more allocations move the full pages to the full queue, another thread frees every 2nd / every 3rd / a random half / all but one in 16, the owner collects without force and allocates as "
                     "many blocks of that size again}: the heap walk must not report more than one area more than before the frees; "
                     "non-trivial = >=10 remote frees (tiny: >=1; reuse: >= 1 round judged); distinct = schedule hash",
                     lambda r, c: (r.get("reuse", {}).get("rounds", 0) >= 1) if c.meta.get("scenario") == "reuse-after-remote-free" else r.get("mt", {}).get("remote_frees", 0) >= (1 if c.meta.get("scenario") == "tiny" else 10),
                     dict(tiny_cov(tiny), area_series_samples=series, reuse_scenario={"cases": len(reuse), "rounds": core.sum_field(reuse, "reuse", "rounds"), "rounds_with_adopted_pages": core.sum_field(reuse, "reuse", "adoption_rounds"),
                                                                                         "blocks_freed_remotely_and_reallocated": core.sum_field(reuse, "reuse", "blocks_freed_remotely_and_reallocated")}))

@check("C09")
def c09(tier, seed):
    t0 = time.time(); prop = "C09"
    # 2 000 random schedules (not 1 200): the double-adoption race of seeded change C02-r2-1 shows in about 2 of 1 200 of them, so a quick run with 1 200 missed it at one seed in eight
    cases = mt_cases(prop, "exit", tier, seed, n_baton=tier_n(tier, 2000, 60000))
    v = Verdict(prop)
    for c in core.run_cases(cases): v.add(c)
    # tiny programs with enumerated preemptions: a thread hands its blocks to 2-3 others and terminates; they free them (each trying to adopt the abandoned segment under
    # reclaim-on-free), allocate again and verify
    tiny = tiny_cases(prop, tier, seed, n_progs=tier_n(tier, 8, 40), scenario="tinyx", envs=TINYX_ENVS, max_scripts=tier_n(tier, 3000, 6000))
    for c in core.run_cases([c for c in tiny if c.exit is None]): pass
    for c in tiny: v.add(c)
    cases += tiny
    return mt_finish(prop, tier, seed, cases, v, t0,
                     "tiny exit programs (script policy, see C02): one thread allocates a few blocks of one size class, hands them to 2-3 threads and terminates (mi_thread_done as a scheduled step); the others free "
                     "them -- with reclaim-on-free each free tries to adopt the abandoned segment --, allocate again, verify and free; enumerated: every single preemption of a freeing thread and every pair within 3 "
                     "of its switch points (capped by sampling), samples of preemptions of the terminating thread; at the end the quiescence checks below. Other cases: "
                     "a case = T slots, each running several generations of threads that allocate, exchange blocks, then terminate (pthread exit with the destructor running concurrently, or mi_thread_done "
                     "under the scheduler) while their blocks are still held, read and freed by others and successors adopt what was abandoned; options: reclaim-on-free, forced abandonment, arena vs OS "
                     "segments, reclaim percentage; at the end everything is freed, the survivors force-collect and mi_abandoned_visit_blocks must report nothing / no OS segment may stay mapped; "
                     "non-trivial = >=2 thread exits with >=1 block handed over; distinct = schedule hash",
                     lambda r, c: (r.get("mt", {}).get("thread_exits", 0) >= 2 and r.get("mt", {}).get("sends", 0) >= 1) or (c.meta.get("scenario") == "tinyx" and r.get("mt", {}).get("thread_exits", 0) >= 1), tiny_cov(tiny))

@check("C14")
def c14(tier, seed):
    t0 = time.time(); prop = "C14"
    cases = mt_cases(prop, "arena", tier, seed, n_baton=tier_n(tier, 600, 30000))
    v = Verdict(prop)
    for c in core.run_cases(cases): v.add(c)
    by_len = [0] * 7
    for c in cases:
        for i, x in enumerate((c.result or {}).get("claims_by_blocks", [])[:7]): by_len[i] += x
    return mt_finish(prop, tier, seed, cases, v, t0,
                     "a case = 2-8 threads with heaps bound to one exclusive arena (96-160 blocks of 32 MiB over PROT_NONE address space given to mi_manage_os_memory_ex) claiming and freeing regions of "
                     "1-7 blocks (claims straddle the 64-bit bitmap fields, fail when full, roll back) while collects and purges run; stamps in every block, offline lifetime replay, range check against the "
                     "arena; afterwards a request for the whole arena and then exactly block_count single-block segments must be allocatable; non-trivial = >=10 claims; distinct = schedule hash",
                     lambda r, c: r.get("mt", {}).get("claims", 0) >= 10, {"claims_by_number_of_blocks_1_to_7": by_len})

@check("C15")
def c15(tier, seed):
    t0 = time.time(); prop = "C15"
    variants = ["rel", "dbg", "sec"]
    cases = seq_cases(prop, "arena", variants, tier_n(tier, 16, 200), tier_n(tier, 2500, 6000), seed)
    # with reclaim-on-free (frees of blocks of terminated threads may adopt their segments)
    cases += seq_cases(prop, "arena", ["rel", "dbg"], tier_n(tier, 8, 100), tier_n(tier, 2500, 6000), seed, env={"MIMALLOC_ABANDONED_RECLAIM_ON_FREE": "1"}, label_prefix="rof-", start_index=30000)
    cases += seq_cases(prop, "arena", ["rel"], tier_n(tier, 4, 50), tier_n(tier, 2500, 6000), seed, env={"MIMALLOC_TARGET_SEGMENTS_PER_THREAD": "2", "MIMALLOC_VISIT_ABANDONED": "1"}, extra_args=["--abandon-ok", 1], label_prefix="tgt-", start_index=40000)
    # "do not use arenas (except for heaps bound to a specific arena)": the bound heaps must work all the same
    cases += seq_cases(prop, "arena", ["rel", "dbg"], tier_n(tier, 4, 50), tier_n(tier, 2500, 6000), seed, env={"MIMALLOC_DISALLOW_ARENA_ALLOC": "1"}, label_prefix="noarena-", start_index=50000)
    v = Verdict(prop)
    for c in core.run_cases(cases): v.add(c)
    cov = seq_cov(cases)
    cov["arena"] = {k: x for k, x in core.merge_counts(cases, "arena").items()}
    cov["geometry_samples"] = [(c.result or {}).get("arena", {}).get("geometry") for c in cases[:3]]
    return finish(prop, tier, seed, "exploration", v, cases, t0,
                  "a case = 1-3 arenas created with mi_manage_os_memory_ex over harness-reserved regions of awkward geometry (start = 32MiB-aligned base + k*4KiB, odd sizes, committed with canary zones or "
                  "PROT_NONE around), heaps bound to them, interleaved allocations of the same size classes from bound heaps and from default/other heaps, bound heaps filled until they refuse, threads with "
                  "their own bound heaps that terminate with live blocks inside the arena (abandoned segments adopted later, forced collects, reclaim-on-free, forced abandonment); every returned pointer is "
                  "range-checked: bound heap => inside its arena, other heap => outside every exclusive arena; mi_arena_area inside the region given; canaries intact; non-trivial = >=50 bound and >=50 other "
                  "allocations checked and >=1 thread exit inside an arena; distinct = (variant, op-list hash)",
                  lambda r, c: r.get("arena", {}).get("inside_checks", 0) >= 50 and r.get("arena", {}).get("outside_checks", 0) >= 50 and r.get("arena", {}).get("threads", 0) >= 1, cov, SEQ_ASSUME)

@check("C16")
def c16(tier, seed):
    t0 = time.time(); prop = "C16"
    variants = ["rel", "dbg", "sec", "asan"]
    cases = []
    for v in variants:
        exe = build.static_driver("drv_arith", v)
        e = san_env(v, prop, "")
        cases.append(Case("C16-arith-%s" % v, [exe, "--full", 1 if tier == "thorough" else 0], env=e, timeout=3600, crash_refutes=[prop], meta={"variant": v}))
    v = Verdict(prop)
    for c in core.run_cases(cases): v.add(c)
    ar = core.merge_counts(cases, "arith")
    cov = {"enumerated": ar, "exhaustive": True,
           "domains": "all sizes 0..2*MI_MEDIUM_OBJ_SIZE_MAX (131073 values) + every power of two and geometric boundary +-2 up to PTRDIFF_MAX; mi_slice_bin for 0..512; mi_fast_divide for every bin size x offsets up to "
                      "the page size (+ every multiple +-1) + random divisors; 128-bit reference for overflow multiply on a 34x34 boundary grid + 10^6 random pairs; address recovery on real pages of all 48 "
                      "small/medium bins at >200 distinct slice positions, large pages of 16 slice counts, huge blocks, aligned (interior) pointers",
           "variants": variants}
    def nontrivial(r, c): return r.get("arith", {}).get("sizes", 0) > 100000 and r.get("arith", {}).get("address_recoveries", 0) > 10000
    # distinct cases = one per variant: report enumerated inputs as evaluations
    rc = v.report()
    evals = int(ar.get("sizes", 0) + ar.get("divisions", 0) + ar.get("util_inputs", 0) + ar.get("address_recoveries", 0) + ar.get("slice_counts", 0) + ar.get("malloc_checked", 0))
    nt = sum(1 for c in cases if c.result and nontrivial(c.result, c))
    cov.update({"evaluations": max(evals, 1), "distinct_nontrivial": int(ar.get("sizes", 0) // max(len(variants), 1)) if nt >= 2 else nt,
                "rule": "an evaluation = one input of one enumerated function compared with reference arithmetic; distinct_nontrivial = number of distinct request sizes enumerated per build (each is a different input)",
                "samples": [{"variant": c.meta["variant"], "counts": (c.result or {}).get("arith")} for c in cases]})
    if rc == 0 and nt < len(variants): print("INCONCLUSIVE: a variant did not complete the enumeration"); rc = 2
    core.write_evidence(prop, tier, seed, "exploration", cov, time.time() - t0, len(v.violations), ["reference arithmetic (128-bit multiply, plain division, compiler builtins) is correct", "x86-64, gcc 12"])
    print("%s %s tier=%s: %d inputs enumerated on %d builds, %d violations, %.1fs -> exit %d" % (prop, "HELD" if rc == 0 else "VIOLATED" if rc == 1 else "INCONCLUSIVE", tier, evals, len(variants), len(v.violations), time.time() - t0, rc))
    return rc

# ---- C20 ----------------------------------------------------------------------------------------------------------------------
OPT_FORMS = ["1", "0", "true", "TRUE", "True", "yes", "no", "on", "off", "ON", "Off", "false", "", "rue", "E;Y", "o", "f",
             "5", "-1", "+7", "007", "  12", "\t3", "2147483647", "2147483648", "4294967296", "9223372036854775807", "9223372036854775808", "99999999999999999999", "-9223372036854775808", "-99999999999999999999",
             "1K", "1KiB", "1KB", "1kib", "2M", "2MiB", "2MB", "3G", "3GiB", "3gb", "4T", "4TiB", "1024", "1025", "1023", "100000T", "8388608G", "9007199254740993K", "18014398509481984M",
             "18014398509481984M", "18014398509481985MiB", "18014398509481988Mb", "17592186044416G", "17592186044417GiB", "17592186044420Gb", "17179869184T", "17179869185TiB", "34359738372Tb", "17179869188T",
             "9007199254740992K", "274877906944M", "268435456G", "262144T", "262145T",
             # the value buffer holds 64 characters: a value of exactly 64 is parsed, a longer one is not (also not its well-formed first 64 characters)
             "0" * 62 + "25", "0" * 63 + "25", "0" * 63 + "77", "0" * 61 + "025x", "0" * 2000 + "5", "0" * 60 + "4KiB", "0" * 63 + "4GiB", " " * 63 + "1", " " * 64 + "1",
             "1Ki", "1KiBx", "1 K", "K", "12abc", "0x10", "1e3", "1.5", "--1", "1-", "1,5", "12 ", "=1", "1=2", "\u00e9", "\u20ac1", "1\u20ac", "-", "+", " ", "tru e", "yes!", "0ff"]
RISKY_OPTIONS = {"reserve_huge_os_pages", "reserve_huge_os_pages_at", "reserve_os_memory", "use_numa_nodes"}    # numeric values make the process reserve memory at start
SAFE_FOR_RISKY = ["0", "no", "off", "false", "abc", "1x", "--", "zero"]

def _opts_run(exe, env, mode="values", extra=(), timeout=600):
    e = dict(env); e.update({"ASAN_OPTIONS": "detect_leaks=0:abort_on_error=0:exitcode=23", "UBSAN_OPTIONS": "print_stacktrace=1:halt_on_error=1:exitcode=24"})
    return Case("C20-%s-%d" % (mode, abs(hash(tuple(sorted(env.items())))) % 10**9), [exe, "--mode", mode] + list(extra), env=e, timeout=timeout, crash_refutes=["C20"], meta={"variant": os.path.basename(exe).split(".", 1)[1], "mode": mode, "optenv": dict(env)})

def _parse_options(c):
    for line in c.stdout_tail.splitlines():
        if line.startswith("VFOPTIONS "):
            try: return json.loads(line[10:])
            except ValueError: return None
    return None

@check("C20")
def c20(tier, seed):
    from . import optref
    t0 = time.time(); prop = "C20"
    variants = ["rel", "asan"] + (["dbg"] if tier == "thorough" else [])
    exes = {v: build.static_driver("drv_opts", v) for v in variants}
    v = Verdict(prop)
    rnd = random.Random(seed * 31337 + 20)
    # 1. defaults and names (no environment)
    base_cases = [_opts_run(exes[x], {}) for x in variants]
    for c in core.run_cases(base_cases): v.add(c)
    table = _parse_options(base_cases[0])
    if not table:
        print("HARNESS-FAILURE cannot read the option table"); return 2
    names = [o["name"] for o in table]
    max_alloc = 2**63 - 1
    for line in base_cases[0].stdout_tail.splitlines():
        if line.startswith("VFMAXALLOC "): max_alloc = int(line.split()[1])
    defaults = {vv: {o["name"]: o["value"] for o in (_parse_options(c) or [])} for vv, c in zip(variants, base_cases)}
    # 2. value forms: every (option, form) pair, one form per option per process
    forms = list(OPT_FORMS)
    ngen = tier_n(tier, 2000, 40000)
    alphabet = "0123456789KMGTiBb+- \txXeE.tTrRuUyYoOnNfFaAlLsS;=,_"
    for _ in range(ngen):
        k = rnd.random()
        if k < 0.35: s = "".join(rnd.choice(alphabet) for _ in range(rnd.randint(1, 12)))
        elif k < 0.6: s = str(rnd.choice([rnd.randint(-5, 5000), rnd.randint(0, 2**40), rnd.randint(2**62, 2**66)])) + rnd.choice(["", "", "K", "M", "G", "T", "KiB", "MiB", "GB", "x", " ", "iB", "Ki"])
        elif k < 0.75: s = rnd.choice(["true", "false", "yes", "no", "on", "off", "1", "0"]) + rnd.choice(["", "", " ", "x", ";", "1"])
        elif k < 0.9: s = "".join(rnd.choice(alphabet) for _ in range(rnd.randint(50, 80)))           # around the 64 byte limit
        else: s = "".join(rnd.choice(alphabet + "\u00e9\u20ac") for _ in range(rnd.randint(100, 8000)))  # very long
        forms.append(s)
    runs = []
    nform = len(forms)
    per_run = len(names)
    nruns = (nform + 0) if tier == "thorough" else max(len(OPT_FORMS), (nform * 1) // 1)
    nruns = len(OPT_FORMS) + (nform - len(OPT_FORMS) + per_run - 1) // per_run
    legacy = {o["name"]: o["legacy"] for o in table}
    for r in range(nruns):
        env = {}; expect_src = {}
        for i, name in enumerate(names):
            if r < len(OPT_FORMS): f = forms[(i + r) % len(OPT_FORMS)]
            else:
                idx = len(OPT_FORMS) + (r - len(OPT_FORMS)) * per_run + i
                if idx >= nform: continue
                f = forms[idx]
            if name in RISKY_OPTIONS: f = SAFE_FOR_RISKY[(i + r) % len(SAFE_FOR_RISKY)]
            # guarded_min / guarded_max are coupled (min <= max is enforced): in most processes only one of them is set; every 5th process sets both, consistently (see below)
            if r % 5 != 4 and ((name == "guarded_min" and r % 2 == 0) or (name == "guarded_max" and r % 2 == 1)): continue
            if r % 5 == 4 and name in ("guarded_min", "guarded_max"):
                f = str(2000000000 + 7 * r) if name == "guarded_min" else str(3000000000 + 11 * r)     # min above the built-in maximum, max above that: both must be read back
            if "\0" in f: continue
            style = (i + r) % 4
            var = "MIMALLOC_" + name.upper() if style == 0 else "mimalloc_" + name if style == 1 else "Mimalloc_" + name.capitalize() if style == 2 else None
            if var is None:
                if legacy.get(name): var = "MIMALLOC_" + legacy[name].upper()
                else: var = "MIMALLOC_" + name.upper()
            env[var] = f; expect_src[name] = f
        for vv in variants:
            c = _opts_run(exes[vv], env); c.meta["expect_src"] = expect_src; runs.append(c)
    pairs = 0; malformed = 0; wellformed = 0; toolong = 0
    for c in core.run_cases(runs):
        st = v.add(c)
        if st != "ok": continue
        got = _parse_options(c)
        if got is None:
            v.harness.append(core.Finding(prop, "harness:no-table", "no option table printed", c, [], "harness")); continue
        vv = c.meta["variant"]
        for o in got:
            name = o["name"]
            if name not in c.meta["expect_src"]: continue
            src = c.meta["expect_src"][name]
            pairs += 1
            raw = src.encode("utf-8", "surrogateescape")
            if len(raw) > 64: toolong += 1      # longer than the 64-byte value buffer: malformed, the default must stay (and the process ran under ASan)
            exp, ok = optref.expected(defaults[vv].get(name, 0), src if all(ord(ch) < 128 for ch in src) else raw.decode("latin1"), bool(o["kib"]), max_alloc)
            if ok: wellformed += 1
            else: malformed += 1
            if o["value"] != exp:
                f = core.Finding(prop, "option-value:%s:%s" % (vv, name), "MIMALLOC_%s=%r: mi_option_get returned %d, the documented grammar gives %d (%s value; default %d)" %
                                 (name.upper(), src, o["value"], exp, "well-formed" if ok else "malformed", defaults[vv].get(name, 0)), c, [prop], "trip")
                v.violations.append(f)
    # 3. formatted output, JSON sizes, print functions
    other = []
    for vv in variants:
        other.append(_opts_run(exes[vv], {}, "fmt", ["--seed", case_seed(seed, prop, 1), "--full", int(tier == "thorough")], timeout=3600))
        other.append(_opts_run(exes[vv], {}, "json"))
        other.append(_opts_run(exes[vv], {}, "out"))
        other.append(_opts_run(exes[vv], {"MIMALLOC_VERBOSE": "3", "MIMALLOC_SHOW_STATS": "1", "MIMALLOC_SHOW_ERRORS": "1"}, "out"))
        other.append(_opts_run(exes[vv], {"MIMALLOC_VERBOSE": "1", "MIMALLOC_SHOW_STATS": "1"}, "json"))
    for c in core.run_cases(other): v.add(c)
    allc = base_cases + runs + other
    cov = {"options_in_table": len(names), "option_value_pairs_checked": pairs, "wellformed_values": wellformed, "malformed_values": malformed, "values_longer_than_the_64_byte_buffer": toolong,
           "value_forms": len(forms), "processes": len(allc), "formatter_calls": core.sum_field(other, "opts", "format_calls"), "buffer_sizes_tried": core.sum_field(other, "opts", "buffer_sizes"),
           "set_get_roundtrips": core.sum_field(allc, "opts", "set_get_roundtrips"), "json_buffer_sizes": core.sum_field(other, "opts", "json_sizes"), "output_calls": core.sum_field(other, "opts", "output_calls"),
           "output_bytes": core.sum_field(other, "opts", "output_bytes"), "variants": variants, "form_samples": OPT_FORMS[:20]}
    rc = v.report()
    cov.update({"evaluations": pairs + int(cov["formatter_calls"]) + int(cov["json_buffer_sizes"]), "distinct_nontrivial": len(set(forms)),
                "rule": "an evaluation = one (option, environment string) pair compared with the reference grammar, or one formatter call into an exactly sized buffer, or one mi_stats_get_json buffer size; "
                        "distinct_nontrivial = distinct environment strings tried (each on every option position it was rotated to)",
                "samples": [{"env": dict(list(runs[0].env.items())[:6])}, {"forms": forms[len(OPT_FORMS):len(OPT_FORMS) + 5]}]})
    core.write_evidence(prop, tier, seed, "exploration", cov, time.time() - t0, len(v.violations),
                        ["the reference grammar in vf/optref.py is the documented one (booleans are exactly 1/0/true/false/yes/no/on/off or empty; a value longer than the 64-byte buffer is malformed and leaves the default)",
                         "memory safety is decided by AddressSanitizer/UBSan red zones behind exactly sized libc buffers"])
    print("%s %s tier=%s seed=%d: %d processes, %d (option,value) pairs, %d violations, %d harness failures, %.1fs -> exit %d" %
          (prop, "HELD" if rc == 0 else "VIOLATED" if rc == 1 else "INCONCLUSIVE", tier, seed, len(allc), pairs, len(v.violations), len(v.harness), time.time() - t0, rc))
    return rc

# ---- C19: drop-in override ----------------------------------------------------------------------------------------------------
OVR_C_SYMS = ["malloc", "calloc", "realloc", "free", "posix_memalign", "aligned_alloc", "memalign", "valloc", "pvalloc", "reallocarray", "malloc_usable_size", "cfree", "strdup", "strndup",
              "__libc_malloc", "__libc_calloc", "__libc_realloc", "__libc_free", "__libc_memalign", "__libc_valloc", "__libc_pvalloc", "__posix_memalign"]
OVR_CXX_SYMS = ["_Znwm", "_Znam", "_ZdlPv", "_ZdaPv", "_ZdlPvm", "_ZdaPvm", "_ZnwmRKSt9nothrow_t", "_ZnamRKSt9nothrow_t", "_ZdlPvRKSt9nothrow_t", "_ZdaPvRKSt9nothrow_t",
                "_ZnwmSt11align_val_t", "_ZnamSt11align_val_t", "_ZdlPvSt11align_val_t", "_ZdaPvSt11align_val_t", "_ZdlPvmSt11align_val_t", "_ZdaPvmSt11align_val_t",
                "_ZnwmSt11align_val_tRKSt9nothrow_t", "_ZnamSt11align_val_tRKSt9nothrow_t", "_ZdlPvSt11align_val_tRKSt9nothrow_t", "_ZdaPvSt11align_val_tRKSt9nothrow_t"]
# every entry point the matrix program references itself (all operator new/delete forms, glibc's internal aliases) must have been bound to the override library
OVR_MUST_SEE = ["malloc", "calloc", "realloc", "free", "posix_memalign", "aligned_alloc", "memalign", "valloc", "pvalloc", "reallocarray", "malloc_usable_size", "strdup", "strndup",
                "__libc_malloc", "__libc_calloc", "__libc_realloc", "__libc_free", "__libc_memalign", "__libc_valloc", "__libc_pvalloc", "__posix_memalign"] + OVR_CXX_SYMS

def _bindings(prog, lib, tag):
    """run `prog` with LD_DEBUG=bindings LD_BIND_NOW=1 under the preload; returns (bound_to_lib: {sym: count}, foreign: [(sym, from, to)])"""
    import re, glob
    outbase = os.path.join(build.build_dir(), "bind_%s_%d" % (tag, os.getpid()))
    env = dict(os.environ); env.update({"LD_PRELOAD": lib, "LD_DEBUG": "bindings", "LD_BIND_NOW": "1", "LD_DEBUG_OUTPUT": outbase})
    for k in list(env):
        if k.startswith("MIMALLOC_"): del env[k]
    r = subprocess.run([prog], env=env, stdout=subprocess.PIPE, stderr=subprocess.PIPE, timeout=600)
    rx = re.compile(r"binding file (\S+) \[\d+\] to (\S+) \[\d+\]: normal symbol `([^']+)'")
    wanted = set(OVR_C_SYMS + OVR_CXX_SYMS)
    good = {}; foreign = []
    for f in glob.glob(outbase + ".*"):
        with open(f, errors="replace") as fh:
            for line in fh:
                m = rx.search(line)
                if not m: continue
                frm, to, sym = m.groups()
                if sym not in wanted: continue
                if os.path.basename(to) == os.path.basename(lib): good[sym] = good.get(sym, 0) + 1
                else: foreign.append((sym, frm, to))
        os.unlink(f)
    return good, foreign, r

@check("C19")
def c19(tier, seed):
    t0 = time.time(); prop = "C19"
    so = build.override_lib("rel"); so_dbg = build.override_lib("dbg")
    progs = {"matrix": build.ovr_program("ovr_matrix.cpp"), "c": build.ovr_program("ovr_c.c")}
    sprogs = {"matrix_static": build.ovr_program("ovr_matrix.cpp", static=True), "c_static": build.ovr_program("ovr_c.c", static=True)}
    v = Verdict(prop)
    cases = []
    for name, exe in progs.items():
        for lib, ltag in ((so, "rel"), (so_dbg, "dbg")):
            cases.append(Case("C19-preload-%s-%s" % (name, ltag), [exe], env={"LD_PRELOAD": lib}, timeout=900, crash_refutes=[prop], meta={"variant": "ovr-so-" + ltag, "program": name}))
            cases.append(Case("C19-preload-bindnow-%s-%s" % (name, ltag), [exe], env={"LD_PRELOAD": lib, "LD_BIND_NOW": "1", "MIMALLOC_SHOW_ERRORS": "1"}, timeout=900, crash_refutes=[prop], meta={"variant": "ovr-so-" + ltag, "program": name}))
    for name, exe in sprogs.items():
        cases.append(Case("C19-static-%s" % name, [exe], timeout=900, crash_refutes=[prop], meta={"variant": "ovr-static", "program": name}))
    for c in core.run_cases(cases): v.add(c)
    # dynamic linker bindings: every allocation entry point, from every object in the process, must bind to the override library
    bind_cov = {}
    for name, exe in progs.items():
        good, foreign, r = _bindings(exe, so, name)
        bind_cov[name] = {"symbols_bound_to_mimalloc": len(good), "bindings": sum(good.values()), "foreign": len(foreign)}
        class _C: pass
        dummy = Case("C19-bindings-%s" % name, [exe], env={"LD_PRELOAD": so, "LD_DEBUG": "bindings", "LD_BIND_NOW": "1"}, meta={"variant": "ovr-so-rel"}); dummy.exit = r.returncode; dummy.result = {}
        for (sym, frm, to) in foreign[:5]:
            v.violations.append(core.Finding(prop, "binding:%s" % sym, "with LD_PRELOAD of the override library, `%s' referenced from %s is bound to %s instead of the override library" % (sym, frm, to), dummy, [prop], "trip"))
        if name == "matrix":
            missing = [s for s in OVR_MUST_SEE if s not in good]
            for s in missing[:5]:
                v.violations.append(core.Finding(prop, "binding-missing:%s" % s, "with LD_PRELOAD of the override library no reference to `%s' was bound to it (the entry point is not exported by the library)" % s, dummy, [prop], "trip"))
    # whole programs: same output and exit status with and without the preload
    whole = [("python3", ["python3", "-c", "import json,re,collections; d=collections.OrderedDict((str(i),[i]*50) for i in range(20000)); s=json.dumps(d); print(len(s), len(re.findall('1', s)))"]),
             ("sort", ["sh", "-c", "seq 1 200000 | sort -r | tail -3"]),
             ("ls", ["sh", "-c", "ls -lR /usr/include | wc -l"]),
             ("gcc", ["sh", "-c", "echo 'int main(){return 0;}' | gcc -x c -O2 -c -o /dev/null - && echo compiled"]),
             ("awk", ["sh", "-c", "seq 1 100000 | awk '{a[$1%1000]=a[$1%1000] $1} END {print length(a[7])}'"])]
    if tier == "thorough":
        whole += [("python-big", ["python3", "-c", "import random; l=[bytes(random.randrange(1,5000)) for _ in range(100000)]; random.shuffle(l); del l[::2]; print(sum(map(len,l))>0)"]),
                  ("tar", ["sh", "-c", "tar cf - /usr/include 2>/dev/null | gzip -1 | wc -c | awk '{print ($1>1000)}'"])]
    whole_cov = {}
    for name, cmd in whole:
        e0 = {k: x for k, x in os.environ.items() if not k.startswith("MIMALLOC_")}
        try:
            r0 = subprocess.run(cmd, env=e0, stdout=subprocess.PIPE, stderr=subprocess.PIPE, timeout=600)
            e1 = dict(e0); e1["LD_PRELOAD"] = so
            r1 = subprocess.run(cmd, env=e1, stdout=subprocess.PIPE, stderr=subprocess.PIPE, timeout=600)
        except (OSError, subprocess.TimeoutExpired) as ex:
            whole_cov[name] = "skipped: %s" % ex; continue
        whole_cov[name] = {"exit": r1.returncode, "same_output": r0.stdout == r1.stdout}
        if r0.returncode == 0 and (r1.returncode != r0.returncode or r1.stdout != r0.stdout or b"mimalloc: error" in r1.stderr):
            dummy = Case("C19-whole-%s" % name, cmd, env={"LD_PRELOAD": so}, meta={"variant": "ovr-so-rel"}); dummy.exit = r1.returncode; dummy.result = {}
            v.violations.append(core.Finding(prop, "whole-program:%s" % name, "`%s` behaves differently under LD_PRELOAD of the override: exit %d vs %d, stdout %r vs %r, stderr %r" %
                                             (" ".join(cmd)[:80], r1.returncode, r0.returncode, r1.stdout[-100:], r0.stdout[-100:], r1.stderr[-300:]), dummy, [prop], "trip"))
    ov = core.merge_counts(cases, "ovr")
    cov = {"entry_point_pairs": ov.get("pairs", 0), "allocations_checked": ov.get("allocations_checked", 0) + ov.get("c_allocations_checked", 0), "libc_internal_allocators": ov.get("libc_internal_allocators", 0),
           "bindings": bind_cov, "whole_programs": whole_cov, "configurations": ["LD_PRELOAD release", "LD_PRELOAD debug (MI_DEBUG=2, foreign pointers are reported)", "LD_PRELOAD + LD_BIND_NOW", "static override object"]}
    rc = v.report()
    cov.update({"evaluations": int(ov.get("pairs", 0)) + len(whole), "distinct_nontrivial": 29 * 20 if ov.get("pairs", 0) >= 29 * 20 else int(ov.get("pairs", 0)),
                "rule": "an evaluation = one (allocating entry point, releasing/resizing/querying entry point, size, alignment) combination executed in an overriding process with mi_is_in_heap_region / "
                        "mi_usable_size / malloc_usable_size checks and content checks, or one whole program compared with and without the preload; distinct_nontrivial = distinct (allocator, releaser) pairs",
                "samples": [{"pair": "posix_memalign -> operator delete(sized)"}, {"pair": "getline (libc internal) -> realloc(grow)"}, {"whole": whole[0][1][:2]}]})
    if rc == 0 and ov.get("pairs", 0) < 1000: print("INCONCLUSIVE: matrix did not run"); rc = 2
    core.write_evidence(prop, tier, seed, "exploration", cov, time.time() - t0, len(v.violations), ["glibc 2.36 / libstdc++ 12 on this image only", "LD_DEBUG=bindings reports every symbol binding the dynamic linker performs"])
    print("%s %s tier=%s: %d processes, %d entry-point pairs, %d violations, %.1fs -> exit %d" % (prop, "HELD" if rc == 0 else "VIOLATED" if rc == 1 else "INCONCLUSIVE", tier, len(cases), int(ov.get("pairs", 0)), len(v.violations), time.time() - t0, rc))
    return rc

# ---- C13: pairwise covering array over the commit / purge / arena options --------------------------------------------
OPTION_DOMAINS = [
    ("MIMALLOC_PURGE_DELAY", ["-1", "0", "1", "10"]),
    ("MIMALLOC_PURGE_DECOMMITS", ["0", "1"]),
    ("MIMALLOC_PURGE_EXTEND_DELAY", ["0", "1"]),
    ("MIMALLOC_EAGER_COMMIT", ["0", "1"]),
    ("MIMALLOC_EAGER_COMMIT_DELAY", ["0", "1", "4"]),
    ("MIMALLOC_ARENA_EAGER_COMMIT", ["0", "1", "2"]),
    ("MIMALLOC_DISALLOW_ARENA_ALLOC", ["0", "1"]),
    ("MIMALLOC_ARENA_RESERVE", ["65536", "262144", "1048576"]),      # KiB: 64 MiB, 256 MiB, 1 GiB
    ("MIMALLOC_ARENA_PURGE_MULT", ["1", "10"]),
    ("MIMALLOC_ABANDONED_PAGE_PURGE", ["0", "1"]),
    ("MIMALLOC_ABANDONED_RECLAIM_ON_FREE", ["0", "1"]),
    ("MIMALLOC_TARGET_SEGMENTS_PER_THREAD", ["0", "2", "4"]),
    ("MIMALLOC_ALLOW_LARGE_OS_PAGES", ["0", "2"]),
]

def covering_array(domains, strength, rnd):
    """greedy t-wise covering array (t = strength) generated from the seed"""
    names = [d[0] for d in domains]
    n = len(domains)
    combos = list(itertools.combinations(range(n), strength))
    uncovered = set()
    for cb in combos:
        for vals in itertools.product(*[range(len(domains[i][1])) for i in cb]):
            uncovered.add((cb, vals))
    rows = []
    while uncovered:
        best = None; bestc = -1
        for _ in range(40):
            # seed a candidate from a random uncovered tuple, fill the rest randomly
            cb, vals = rnd.choice(tuple(uncovered)) if len(uncovered) < 4000 else next(iter(uncovered))
            row = [rnd.randrange(len(d[1])) for d in domains]
            for i, v in zip(cb, vals): row[i] = v
            c = sum(1 for cb2 in combos if (cb2, tuple(row[i] for i in cb2)) in uncovered)
            if c > bestc: best, bestc = row, c
        rows.append(best)
        for cb2 in combos: uncovered.discard((cb2, tuple(best[i] for i in cb2)))
    return [{names[i]: domains[i][1][row[i]] for i in range(n)} for row in rows]

@check("C13")
def c13(tier, seed):
    t0 = time.time(); prop = "C13"
    variants = ["rel", "dbg"] + (["sec"] if tier == "thorough" else [])
    build.build_many([("drv_seq", v) for v in variants])
    rnd = random.Random(seed * 7919 + 13)
    vectors = covering_array(OPTION_DOMAINS, 2 if tier == "quick" else 3, rnd)
    if tier == "thorough": vectors = vectors[:220]
    # the options that meet inside the commit/purge code are additionally crossed completely (finding F16 needed a 4-way combination that a pairwise array only hits by luck)
    for pd in ("0", "10"):
        for dec in ("0", "1"):
            for ec in ("0", "1"):
                for backing in ({"MIMALLOC_ARENA_EAGER_COMMIT": "1"}, {"MIMALLOC_ARENA_EAGER_COMMIT": "0"}, {"MIMALLOC_DISALLOW_ARENA_ALLOC": "1"}):
                    vectors.append(dict({"MIMALLOC_PURGE_DELAY": pd, "MIMALLOC_PURGE_DECOMMITS": dec, "MIMALLOC_EAGER_COMMIT": ec}, **backing))
    # forced abandonment of a thread's own segments (per-thread segment target), alone and with reclaim-on-free / without arenas
    for tv in ({"MIMALLOC_TARGET_SEGMENTS_PER_THREAD": "2"}, {"MIMALLOC_TARGET_SEGMENTS_PER_THREAD": "4"}, {"MIMALLOC_TARGET_SEGMENTS_PER_THREAD": "2", "MIMALLOC_ABANDONED_RECLAIM_ON_FREE": "1"},
               {"MIMALLOC_TARGET_SEGMENTS_PER_THREAD": "3", "MIMALLOC_DISALLOW_ARENA_ALLOC": "1"}):
        vectors.append(dict(tv)); vectors.append(dict(tv, MIMALLOC_PURGE_DELAY="0"))
    profiles = ["general", "aligned", "zero", "realloc", "walk"]
    ops = tier_n(tier, 2500, 6000)
    cases = []; idx = 0
    for vi, vec in enumerate(vectors):
        for v in variants:
            for k in range(tier_n(tier, 1, 4)):
                prof = profiles[(vi + k + (0 if v == "rel" else 2)) % len(profiles)]
                s = case_seed(seed, prop, idx); idx += 1
                args = ["--profile", prof, "--generic", "C13", "--seed", s, "--ops", ops, "--clock-jitter", rnd.choice([5, 50, 500]), "--purge-cb", 1, "--max-live-mb", 96]
                if prof in ("zero", "general") and (vi + k) % 3 == 0: args += ["--threads", 1]
                if (vi + k) % 2 == 1: args += ["--flip-options", 150]        # half of the cases also change options with mi_option_set in the middle of the history
                env = dict(vec)
                if vec.get("MIMALLOC_TARGET_SEGMENTS_PER_THREAD", "0") != "0":
                    # forced abandonment: live blocks may sit in segments the thread was made to abandon; they are visible through mi_abandoned_visit_blocks only
                    env["MIMALLOC_VISIT_ABANDONED"] = "1"; args += ["--abandon-ok", 1]
                    if "--threads" not in args and prof != "walk": args += ["--threads", 1]      # remote frees parked on the delayed list meet forced abandonment
                cases.append(_drv_case(prop, "C13-v%d-%s-%s-%d" % (vi, prof, v, s), v, args, env=env, timeout=300, meta={"vector": vi, "profile": prof, "config": envname(vec), "seed": s}))
    # known finding K3: forced abandonment takes live pages away from first-class heaps (one dedicated case per variant)
    for vv in ("rel", "dbg"):
        s3 = case_seed(seed, prop, 990000)
        cases.append(_drv_case(prop, "C13-target-heap-%s-%d" % (vv, s3), vv, ["--profile", "target-heap", "--seed", s3], env={}, timeout=300, meta={"vector": -1, "profile": "target-heap", "config": "target_segments_per_thread=2 (run time)", "seed": s3}))
    v = Verdict(prop)
    # under a non-default option vector every C01-C05/C12 oracle refutes C13 as well (the statement: "the guarantees above hold unchanged under every supported option setting")
    for c in core.run_cases(cases):
        r = c.result
        if r and "trip" in r:
            ref = r["trip"].get("refutes", [])
            if any(x in ref for x in ("C01", "C02", "C03", "C04", "C05", "C12")) and "C13" not in ref: ref.append("C13")
        v.add(c)
    cov = seq_cov(cases)
    cov["option_vectors"] = len(vectors); cov["covering_strength"] = 2 if tier == "quick" else 3
    cov["option_vector_samples"] = vectors[:4]
    cov["purge_ranges_checked_against_live_blocks"] = core.sum_field(cases, "purge_ranges_checked")
    cov["virtual_clock_ms_advanced"] = core.sum_field(cases, "clock_ms")
    cov["profiles"] = {p: sum(1 for c in cases if c.meta["profile"] == p) for p in profiles}
    cov["run_time_option_changes"] = core.sum_field(cases, "option_flips")
    return finish(prop, tier, seed, "exploration", v, cases, t0,
                  "a case = one option vector (a pairwise (thorough: 3-wise) covering array over 13 commit/purge/arena options, plus the complete cross of purge_delay {0,10} x purge_decommits x eager_commit x "
                  "{arena committed eagerly, arena committed lazily, no arena}) x one history profile of C01/C03/C04/C05/C12 x one build variant, with the "
                  "virtual clock advanced randomly between operations (so delayed purges fire) and every madvise(DONTNEED/FREE)/mprotect(PROT_NONE) range checked against the live blocks of the shadow model "
                  "before it is executed (debug builds: decommit really revokes access, a touch of a decommitted live page faults); non-trivial = >=500 allocations and >=1 purge range checked; "
                  "distinct = (variant, option vector, op-list hash)",
                  lambda r, c: r.get("allocs", 0) >= 500 and (r.get("purge_ranges_checked", 0) >= 1 or "PURGE_DELAY=-1" in c.meta.get("config", "").upper()), cov,
                  SEQ_ASSUME + ["options are set through MIMALLOC_* environment variables at process start"])

@check("C10")
def c10(tier, seed):
    t0 = time.time(); prop = "C10"
    variants = ["rel", "dbg", "sec"]
    cases = seq_cases(prop, "heaps", variants, tier_n(tier, 24, 400), tier_n(tier, 4000, 10000), seed)
    cases += seq_cases(prop, "heaps", ["rel", "dbg"], tier_n(tier, 8, 100), tier_n(tier, 3000, 8000), seed, extra_args=["--threads", 1], label_prefix="thr-", start_index=70000)
    # known finding K2: a tagged heap is deleted and its blocks are then freed by the same thread (one dedicated case per release-like variant)
    cases += seq_cases(prop, "tagged-delete", ["rel", "sec"], 1, 10, seed, label_prefix="tagged-delete-", start_index=90000)
    mt = mt_cases(prop, "heapdel", tier, seed) if "mt_cases" in globals() else []
    allc = cases + mt
    v = Verdict(prop)
    for c in core.run_cases(allc): v.add(c)
    cov = seq_cov(cases)
    cov["heap_ops"] = {"new": core.sum_field(cases, "heap_new"), "delete": core.sum_field(cases, "heap_delete"), "destroy": core.sum_field(cases, "heap_destroy"), "ownership_queries": core.sum_field(cases, "queries")}
    if mt: cov["concurrent"] = mt_cov(mt)
    return finish(prop, tier, seed, "exploration", v, allc, t0,
                  "sequential: a case = one history with up to 8 first-class heaps (new / allocate / delete / destroy / set_default in any order, blocks of exited threads adopted meanwhile), ownership "
                  "queries (mi_heap_contains_block, mi_heap_check_owned, mi_check_owned) on live blocks against every heap, conservation after destroy, default-heap checks; concurrent: see 'concurrent'; "
                  "non-trivial = >=20 heap deletes/destroys and >=100 ownership queries (sequential) or >=1 remote free racing a heap delete (concurrent); distinct = (variant, op-list hash / schedule hash)",
                  lambda r, c: (r.get("heap_delete", 0) + r.get("heap_destroy", 0) >= 20 and r.get("queries", 0) >= 100) or r.get("mt", {}).get("remote_frees", 0) >= 1, cov, SEQ_ASSUME)

# ---------------------------------------------------------------------------------------------
def setup():
    import compileall
    compileall.compile_dir(os.path.join(VERIF, "vf"), quiet=1)
    os.makedirs(core.EVIDENCE_DIR, exist_ok=True)
    try:
        build.build_many([("drv_seq", "rel"), ("drv_seq", "dbg"), ("drv_seq", "sec"), ("drv_mt", "rel-h"), ("drv_mt", "dbg-h"), ("drv_mt", "tsan-h"), ("drv_seq", "asan")])
        build.static_driver("drv_arith", "rel"); build.static_driver("drv_opts", "rel")
        build.prune_old()
    except build.BuildError as e:
        print(e); return 2
    print("setup ok")
    return 0

def replay(path):
    with open(path) as fh: rp = json.load(fh)
    exe = rp["cmd"][0]
    # rebuild the binary from the current tree (the cache directory may have changed)
    base = os.path.basename(exe)
    if "." in base and base.split(".", 1)[0] in build.DRIVERS:
        name, variant = base.split(".", 1)
        rp["cmd"][0] = build.driver(name, variant)
    c = Case(rp.get("label", "replay"), rp["cmd"], env=rp.get("env"), timeout=600, crash_refutes=[rp["property"]], meta=rp.get("meta"),
             stdin=(rp["stdin"].encode("latin1") if rp.get("stdin") else None))
    core.run_case(c)
    st, f = core.classify(c, rp["property"])
    print(c.stdout_tail[-3000:]); print(c.stderr_tail[-2000:], file=sys.stderr)
    print("replay: %s %s" % (st, (f.key + " :: " + f.detail) if f else ""))
    return 1 if st == "violation" else (0 if st in ("ok", "collateral") else 2)
