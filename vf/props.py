"""Per-property checks. Each returns the process exit code and rewrites /verif/evidence/<id>.json."""
import os, sys, json, time, subprocess, itertools, random
from . import build, core
from .core import Case, Verdict, case_seed

VERIF = core.VERIF
CHECKS = {}

def check(prop):
    def deco(fn):
        CHECKS[prop] = fn
        return fn
    return deco

def traits_args(variant):
    t = build.variant_traits(variant)
    return ["--variant", variant, "--padding", int(t["padding"]), "--debug", int(t["debug"]), "--secure", int(t["secure"])]

def san_env(variant, prop, label):
    """sanitizer runtime options: reports are fatal and land on stderr"""
    base = variant.replace("-h", "")
    e = {}
    if base in ("asan", "asant", "casan"):
        e["ASAN_OPTIONS"] = "abort_on_error=0:halt_on_error=1:detect_leaks=0:exitcode=23:allocator_may_return_null=1:detect_stack_use_after_return=0"
        e["UBSAN_OPTIONS"] = "print_stacktrace=1:halt_on_error=1:exitcode=24"
    if base in ("tsan", "ctsan"):
        e["TSAN_OPTIONS"] = "halt_on_error=1:exitcode=66:second_deadlock_stack=1:history_size=4"
    return e

# ---------------------------------------------------------------------------------------------
# generic sequential check
# ---------------------------------------------------------------------------------------------
def seq_cases(prop, profile, variants, ncases, ops, seed, extra_args=(), env=None, timeout=180, crash_refutes=None, label_prefix="", start_index=0, per_case=None):
    """ncases cases per variant; per_case(i, variant) may return (extra args, extra env)"""
    bins = build.build_many([("drv_seq", v) for v in variants])
    cases = []
    for v in variants:
        for i in range(ncases):
            s = case_seed(seed, prop, start_index + i)     # the same seeds for every variant: a history is run on every build
            args = [bins[("drv_seq", v)], "--profile", profile, "--prop", prop, "--seed", s, "--ops", ops] + traits_args(v) + list(extra_args)
            e = dict(env or {}); e.update(san_env(v, prop, ""))
            if per_case:
                a2, e2 = per_case(i, v)
                args += list(a2); e.update(e2)
            cases.append(Case("%s%s-%s-%s-%d" % (label_prefix, prop, profile, v, s), args, env=e, timeout=timeout,
                              crash_refutes=(crash_refutes if crash_refutes is not None else [prop]), meta={"variant": v, "profile": profile, "seed": s, "ops": ops}))
    return cases

def sample_of(c, keys=("profile", "variant", "seed", "ops_done", "hash", "allocs", "frees", "reallocs")):
    r = c.result or {}
    s = {k: r.get(k) for k in keys if k in r}
    s["cmd"] = " ".join(c.cmd[:1] and [os.path.basename(c.cmd[0])] + c.cmd[1:])
    if c.env: s["env"] = {k: v for k, v in c.env.items() if k.startswith("MIMALLOC_")}
    return s

def finish(prop, tier, seed, level, verdict, cases, t0, rule, nontrivial_fn, extra_cov, assumptions, min_nontrivial=2):
    evals = len(cases)
    distinct = set()
    for c in cases:
        r = c.result
        if r is None: continue
        try:
            if nontrivial_fn(r, c): distinct.add((c.meta.get("variant"), r.get("hash", c.label), json.dumps(c.env, sort_keys=True)))
        except Exception:
            pass
    cov = {"evaluations": evals, "distinct_nontrivial": len(distinct), "rule": rule,
           "samples": [sample_of(c) for c in cases[:3]] + [sample_of(c) for c in cases[-1:]]}
    cov.update(extra_cov)
    cov["cases_ok"] = verdict.ok
    cov["collateral_trips"] = len(verdict.collateral)
    cov["known_finding_hits"] = len(verdict.known)
    rc = verdict.report()
    if rc == 0 and len(distinct) < min_nontrivial:
        print("INCONCLUSIVE: only %d non-trivial cases were observed (rule: %s)" % (len(distinct), rule))
        rc = 2
    core.write_evidence(prop, tier, seed, level, cov, time.time() - t0, len(verdict.violations), assumptions)
    print("%s %s tier=%s seed=%d: %d cases, %d ok, %d violations, %d known, %d collateral, %d harness failures, %.1fs -> exit %d" %
          (prop, "HELD" if rc == 0 else ("VIOLATED" if rc == 1 else "INCONCLUSIVE"), tier, seed, evals, verdict.ok, len(verdict.violations), len(verdict.known),
           len(verdict.collateral), len(verdict.harness), time.time() - t0, rc))
    return rc

def seq_cov(cases):
    cov = {
        "ops_executed": core.sum_field(cases, "ops_done"),
        "allocations": core.sum_field(cases, "allocs"), "frees": core.sum_field(cases, "frees"),
        "reallocs": {"total": core.sum_field(cases, "reallocs"), "in_place": core.sum_field(cases, "realloc_inplace"), "moved": core.sum_field(cases, "realloc_moved"), "null": core.sum_field(cases, "realloc_null")},
        "entry_point_calls": core.merge_counts(cases, "eps"),
        "max_bins_hit_in_a_case": max([ (c.result or {}).get("bins_hit", 0) for c in cases ] or [0]),
        "page_kind_allocs_small_medium_large_huge": [sum((c.result or {}).get("kinds", [0, 0, 0, 0])[k] for c in cases) for k in range(4)],
        "blocks_verified": core.sum_field(cases, "verified_blocks"), "bytes_verified": core.sum_field(cases, "verified_bytes"),
        "heap_walks": core.sum_field(cases, "walks"), "walk_blocks": core.sum_field(cases, "walk_blocks"), "conservation_checks": core.sum_field(cases, "conservation_checks"),
        "allocator_counters": core.merge_counts(cases, "mi"), "os_calls": core.merge_counts(cases, "os"),
        "variants": sorted(set(c.meta.get("variant") for c in cases)),
    }
    return cov

SEQ_ASSUME = ["the shadow model and pattern oracles of /verif/harness are correct", "gcc 12 code generation for the variants built",
              "only the executions listed were explored: nothing is proved about other histories"]

def tier_n(tier, quick, thorough):
    return quick if tier == "quick" else thorough

@check("C01")
def c01(tier, seed):
    t0 = time.time(); prop = "C01"
    variants = ["rel", "dbg", "sec"] + (["asant"] if tier == "thorough" else [])
    cases = seq_cases(prop, "general", variants, tier_n(tier, 40, 600), tier_n(tier, 4000, 10000), seed)
    v = Verdict(prop)
    for c in core.run_cases(cases): v.add(c)
    def nontrivial(r, c):
        k = r.get("kinds", [0, 0, 0, 0]); mi = r.get("mi", {})
        return r.get("allocs", 0) >= 500 and sum(1 for x in k if x > 0) >= 3 and r.get("drains", 0) >= 1 and (mi.get("pages_retire", 1) >= 1 or c.meta["variant"] == "dbg")
    return finish(prop, tier, seed, "exploration", v, cases, t0,
                  "a case = one generated single-thread API history (all allocation/realloc/free/heap entry points, boundary-biased sizes, phase-wise free orders) on one build variant; "
                  "non-trivial = >=500 successful allocations over >=3 page kinds with >=1 drain-and-refill phase; distinct = (variant, hash of executed op list)",
                  nontrivial, seq_cov(cases), SEQ_ASSUME)

@check("C03")
def c03(tier, seed):
    t0 = time.time(); prop = "C03"
    variants = ["rel", "dbg", "sec"]
    cases = seq_cases(prop, "aligned", variants, tier_n(tier, 32, 500), tier_n(tier, 3000, 8000), seed)
    # the debug-build rejection of pointers that are not word aligned is exercised by a dedicated case (known finding)
    cases += seq_cases(prop, "aligned", ["dbg"], 1, 600, seed, extra_args=["--debug", 0], label_prefix="unaligned-", start_index=100000)
    v = Verdict(prop)
    for c in core.run_cases(cases): v.add(c)
    cov = seq_cov(cases)
    cov["aligned_allocations"] = core.sum_field(cases, "aligned"); cov["interior_pointers_seen_by_walk"] = core.sum_field(cases, "interior")
    cov["alignment_histogram"] = core.merge_counts(cases, "align_hist")
    return finish(prop, tier, seed, "exploration", v, cases, t0,
                  "a case = one generated history dominated by aligned entry points (alignment 1B..128MiB, offsets 0/random/>=n/odd/multiples) incl. realloc with the same alignment and all free variants; "
                  "non-trivial = >=300 aligned allocations over >=8 distinct alignments; distinct = (variant, op-list hash)",
                  lambda r, c: r.get("aligned", 0) >= 300 and len(r.get("align_hist", {})) >= 8, cov, SEQ_ASSUME)

@check("C04")
def c04(tier, seed):
    t0 = time.time(); prop = "C04"
    variants = ["rel", "dbg", "sec"]
    cases = seq_cases(prop, "zero", variants, tier_n(tier, 32, 600), tier_n(tier, 4000, 10000), seed, extra_args=["--threads", 1])
    v = Verdict(prop)
    for c in core.run_cases(cases): v.add(c)
    cov = seq_cov(cases)
    cov.update({"zeroing_calls_checked": core.sum_field(cases, "zero_checked"), "zero_bytes_scanned": core.sum_field(cases, "zero_bytes"),
                "zeroed_blocks_reusing_dirty_addresses": core.sum_field(cases, "zero_reused_dirty"),
                "growth_steps_in_place": core.sum_field(cases, "zgrow_inplace"), "growth_steps_moved": core.sum_field(cases, "zgrow_moved"),
                "remote_free_batches": core.sum_field(cases, "remote_batches"), "thread_exits": core.sum_field(cases, "thread_exits")})
    return finish(prop, tier, seed, "exploration", v, cases, t0,
                  "a case = one history that dirties blocks of all classes over their full usable size, frees them (locally, from another thread, by heap destroy, after thread exit), "
                  "requests zeroed blocks and grows zero-initialised blocks in monotone rezalloc/recalloc chains; non-trivial = >=200 zeroing calls with >=20 on previously dirty addresses "
                  "and >=10 growth steps; distinct = (variant, op-list hash)",
                  lambda r, c: r.get("zero_checked", 0) >= 200 and r.get("zero_reused_dirty", 0) >= 20 and (r.get("zgrow_inplace", 0) + r.get("zgrow_moved", 0)) >= 10, cov, SEQ_ASSUME)

@check("C05")
def c05(tier, seed):
    t0 = time.time(); prop = "C05"
    variants = ["rel", "dbg", "sec"]
    cases = seq_cases(prop, "realloc", variants, tier_n(tier, 32, 600), tier_n(tier, 4000, 10000), seed)
    v = Verdict(prop)
    for c in core.run_cases(cases): v.add(c)
    cov = seq_cov(cases)
    cov["expand"] = {"ok": core.sum_field(cases, "expand_ok"), "null": core.sum_field(cases, "expand_null")}
    return finish(prop, tier, seed, "exploration", v, cases, t0,
                  "a case = one history dominated by the realloc family (shrink to 1, ~50%, equal, +-1, x1.5-x4, across class/page-kind/huge boundaries, every realloc entry point, mi_expand) "
                  "with prefix/conservation/old-block oracles; non-trivial = >=600 realloc calls with both in-place and moved outcomes; distinct = (variant, op-list hash)",
                  lambda r, c: r.get("reallocs", 0) >= 600 and r.get("realloc_inplace", 0) >= 20 and r.get("realloc_moved", 0) >= 20, cov, SEQ_ASSUME)

@check("C12")
def c12(tier, seed):
    t0 = time.time(); prop = "C12"
    variants = ["rel", "dbg"] + (["sec"] if tier == "thorough" else [])
    cases = seq_cases(prop, "walk", variants, tier_n(tier, 32, 600), tier_n(tier, 4000, 10000), seed)
    v = Verdict(prop)
    for c in core.run_cases(cases): v.add(c)
    cov = seq_cov(cases)
    return finish(prop, tier, seed, "exploration", v, cases, t0,
                  "a case = one history leaving pages empty / striped / full / single-block huge, with a full heap-walk comparison against the shadow model every 64 operations "
                  "(every live block once, enclosing range, no dead block, area.used, early stop); non-trivial = >=40 walks visiting >=5000 blocks; distinct = (variant, op-list hash)",
                  lambda r, c: r.get("walks", 0) >= 40 and r.get("walk_blocks", 0) >= 5000, cov, SEQ_ASSUME)

# ---------------------------------------------------------------------------------------------
def setup():
    import compileall
    compileall.compile_dir(os.path.join(VERIF, "vf"), quiet=1)
    os.makedirs(core.EVIDENCE_DIR, exist_ok=True)
    try:
        build.build_many([("drv_seq", "rel"), ("drv_seq", "dbg"), ("drv_seq", "sec")])
        build.prune_old()
    except build.BuildError as e:
        print(e); return 2
    print("setup ok")
    return 0

def replay(path):
    with open(path) as fh: rp = json.load(fh)
    exe = rp["cmd"][0]
    # rebuild the binary from the current tree (the cache directory may have changed)
    base = os.path.basename(exe)
    if "." in base and base.split(".", 1)[0] in build.DRIVERS:
        name, variant = base.split(".", 1)
        rp["cmd"][0] = build.driver(name, variant)
    c = Case(rp.get("label", "replay"), rp["cmd"], env=rp.get("env"), timeout=600, crash_refutes=[rp["property"]], meta=rp.get("meta"),
             stdin=(rp["stdin"].encode("latin1") if rp.get("stdin") else None))
    core.run_case(c)
    st, f = core.classify(c, rp["property"])
    print(c.stdout_tail[-3000:]); print(c.stderr_tail[-2000:], file=sys.stderr)
    print("replay: %s %s" % (st, (f.key + " :: " + f.detail) if f else ""))
    return 1 if st == "violation" else (0 if st in ("ok", "collateral") else 2)
