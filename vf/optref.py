"""Reference parser for MIMALLOC_<NAME> environment values (the documented grammar):
booleans (exactly 1/0, true/false, yes/no, on/off in any letter case, or the empty string = true), decimal integers with saturation,
sizes with K/M/G/T (+ optional iB/B) for the options kept in KiB, clamped at the maximum allocation size; anything else is malformed and leaves the default."""
import re
LONG_MAX = 2**63 - 1; LONG_MIN = -2**63; SIZE_MAX = 2**64 - 1; PTRDIFF_MAX = 2**63 - 1
TRUE_LIST = ("1", "TRUE", "YES", "ON"); FALSE_LIST = ("0", "FALSE", "NO", "OFF")
_num = re.compile(r'[ \t\n\v\f\r]*([+-]?)([0-9]+)')

def ascii_upper(s):
    return "".join(chr(ord(c) - 32) if 'a' <= c <= 'z' else c for c in s)

def expected(default, s, kib, max_alloc=PTRDIFF_MAX):
    """returns (value, wellformed); a string longer than the 64-byte value buffer is malformed (the default stays)"""
    if len(s) > 64: return default, False
    up = ascii_upper(s)
    if up == "" or up in TRUE_LIST: return 1, True
    if up in FALSE_LIST: return 0, True
    m = _num.match(up)
    if not m: return default, False
    val = int(m.group(1) + m.group(2))
    val = max(LONG_MIN, min(LONG_MAX, val))          # strtol saturates
    rest = up[m.end():]
    if kib:
        size = 0 if val < 0 else val
        overflow = False
        if rest[:1] == 'K': rest = rest[1:]
        elif rest[:1] == 'M': size *= 1024; rest = rest[1:]
        elif rest[:1] == 'G': size *= 1024 ** 2; rest = rest[1:]
        elif rest[:1] == 'T': size *= 1024 ** 3; rest = rest[1:]
        else: size = (size + 1023) // 1024
        if size > SIZE_MAX: overflow = True
        if rest[:2] == 'IB': rest = rest[2:]
        elif rest[:1] == 'B': rest = rest[1:]
        if overflow or size > max_alloc: size = max_alloc // 1024     # saturation at the allocator's maximum allocation size
        val = min(size, LONG_MAX)
    if rest == "": return val, True
    return default, False
