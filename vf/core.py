"""Case runner, verdicts, known findings, evidence."""
import json, os, re, subprocess, sys, time, hashlib, signal, shlex
from concurrent.futures import ThreadPoolExecutor

VERIF = os.path.dirname(os.path.dirname(os.path.abspath(__file__)))
# VERIF_OUT redirects evidence and replay files (used when the checks are tried against a scratch copy with a seeded change,
# so that the committed evidence of the real tree is not overwritten)
_OUT = os.environ.get("VERIF_OUT") or VERIF
EVIDENCE_DIR = os.path.join(_OUT, "evidence")
REPLAY_DIR = os.path.join(_OUT, "replays")
KNOWN_FILE = os.path.join(VERIF, "known_findings.json")
NPROC = int(os.environ.get("VERIF_JOBS", "0")) or (os.cpu_count() or 8)

def case_seed(verif_seed, prop, index):
    h = hashlib.sha256(("%d/%s/%d" % (verif_seed, prop, index)).encode()).digest()
    return int.from_bytes(h[:6], "big") + 1

class Case:
    """one process execution"""
    def __init__(self, label, cmd, env=None, timeout=120, crash_refutes=(), meta=None, stdin=None):
        self.label = label; self.cmd = [str(c) for c in cmd]; self.env = dict(env or {}); self.timeout = timeout
        self.crash_refutes = list(crash_refutes); self.meta = dict(meta or {}); self.stdin = stdin
        # filled by run
        self.exit = None; self.result = None; self.stderr_tail = ""; self.stdout_tail = ""; self.timed_out = False; self.wall = 0.0
        self.reruns = 0

    def full_env(self):
        e = dict(os.environ)
        # keep the environment of cases free of stray allocator options
        for k in list(e):
            if k.startswith("MIMALLOC_"):
                del e[k]
        e.update(self.env)
        return e

def _run_once(c, timeout):
    t0 = time.time()
    c.timed_out = False
    try:
        p = subprocess.Popen(c.cmd, env=c.full_env(), stdout=subprocess.PIPE, stderr=subprocess.PIPE, stdin=(subprocess.PIPE if c.stdin is not None else subprocess.DEVNULL),
                             start_new_session=True)
        try:
            out, err = p.communicate(input=c.stdin, timeout=timeout)
        except subprocess.TimeoutExpired:
            try: os.killpg(p.pid, signal.SIGKILL)
            except OSError: pass
            out, err = p.communicate()
            c.timed_out = True
        c.exit = p.returncode
    except OSError as ex:
        c.exit = 127; out = b""; err = str(ex).encode()
    c.wall = time.time() - t0
    out = out.decode("utf-8", "replace"); err = err.decode("utf-8", "replace")
    c.stdout_tail = out[-6000:]; c.stderr_tail = err[-6000:]
    c.result = None
    for line in reversed(out.splitlines()):
        if line.startswith("VFRESULT "):
            try: c.result = json.loads(line[9:])
            except ValueError: c.result = None
            break
    return c

_TSCALE = float(os.environ.get("VERIF_TIMEOUT_SCALE", "1") or 1)      # only used when the checks are tried against a seeded change that hangs (tools/): shorter waits

def run_case(c):
    if _TSCALE != 1: c.timeout = max(5, int(c.timeout * _TSCALE))
    _run_once(c, c.timeout)
    if c.timed_out:   # re-run once with a doubled budget before calling it a hang
        c.reruns = 1
        _run_once(c, c.timeout * 2)
    return c

def run_cases(cases, jobs=None, progress=None):
    jobs = jobs or NPROC
    done = []
    with ThreadPoolExecutor(max_workers=jobs) as ex:
        for c in ex.map(run_case, cases):
            done.append(c)
            if progress: progress(c)
    return done

# ---------------------------------------------------------------------------------------------
# verdicts
# ---------------------------------------------------------------------------------------------
class Finding:
    def __init__(self, prop, key, detail, case, refutes, kind):
        self.prop = prop; self.key = key; self.detail = detail; self.case = case; self.refutes = refutes; self.kind = kind

_ASSERT_RE = re.compile(r"mimalloc: assertion failed: at \"([^\"]+)\":(\d+), (\w+)\s*\n?\s*assertion: \"([^\"]*)\"")
_SAN_RE = re.compile(r"SUMMARY: (\w+Sanitizer): ([^\n]*)")
_UBSAN_RE = re.compile(r"([^\s:]+):(\d+):\d+: runtime error: ([^\n]*)")

def crash_signature(c):
    """a stable short description of how a process died without reporting a result"""
    text = c.stderr_tail + "\n" + c.stdout_tail
    m = _ASSERT_RE.search(text)
    if m: return "assert:%s:%s" % (os.path.basename(m.group(1)), m.group(3)), "assertion \"%s\" failed at %s:%s (%s)" % (m.group(4), m.group(1), m.group(2), m.group(3))
    m = _SAN_RE.search(text)
    if m:
        s = m.group(2)
        fn = re.search(r" in (\S+)", s)
        kind = s.split()[0] if s else "report"
        return "%s:%s:%s" % (m.group(1), kind, fn.group(1) if fn else "?"), "%s: %s" % (m.group(1), s)
    m = _UBSAN_RE.search(text)
    if m: return "ubsan:%s" % os.path.basename(m.group(1)), "UBSan %s:%s: %s" % (m.group(1), m.group(2), m.group(3))
    if c.timed_out: return "hang", "no result within %ds (re-run once with a doubled budget)" % (c.timeout * 2)
    if c.exit is not None and c.exit < 0: return "signal:%d" % (-c.exit), "killed by signal %d" % (-c.exit)
    return "exit:%s" % c.exit, "exit status %s without a result line" % c.exit

def classify(c, prop):
    """returns (status, Finding|None): status in ok | violation | collateral | harness"""
    r = c.result
    variant = c.meta.get("variant", "?")
    if r is not None and "trip" in r:
        t = r["trip"]
        refutes = t.get("refutes", [])
        if t.get("oracle") == "harness":
            return "harness", Finding(prop, "harness", t.get("detail", ""), c, [], "harness")
        what = t.get("what", "?")
        key = "%s:%s:%s" % (t.get("oracle", "?"), variant, what)
        if t.get("oracle") == "crash":
            # an assertion of the allocator: identify the site (file + function) instead of the operation that happened to run
            m = re.search(r"assertion failed: at '([^']+)':\d+, (\w+)", t.get("detail", ""))
            if m:
                key = "crash:%s:assert:%s:%s" % (variant, os.path.basename(m.group(1)), m.group(2)[:48])
                if "invalid (unaligned) pointer" in t.get("detail", ""): key += ":unaligned-pointer"
                if c.meta.get("dedicated"): key += ":" + what        # dedicated case of a recorded finding: the key names the step as well, so the entry matches nothing else
        f = Finding(prop, key, t.get("detail", ""), c, refutes, "trip")
        return ("violation" if prop in refutes else "collateral"), f
    if r is not None and c.exit == 0 and not c.timed_out:
        return "ok", None
    # died without a result
    if c.exit == -9 and not c.timed_out:
        # SIGKILL never comes from the code under test (its own failures are SIGSEGV/SIGABRT/...): the kernel's out-of-memory killer or an outside actor ended the case
        return "harness", Finding(prop, "harness:sigkill", "case was killed with SIGKILL by something outside the check (out of memory?): inconclusive", c, [], "harness")
    sig, desc = crash_signature(c)
    if c.exit == 127 or (c.exit not in (None, 0) and not c.timed_out and sig.startswith("exit:") and c.exit in (2, 126, 127)):
        return "harness", Finding(prop, "harness:" + sig, desc + "\n" + c.stderr_tail[-800:], c, [], "harness")
    key = "crash:%s:%s" % (variant, sig)
    f = Finding(prop, key, desc, c, c.crash_refutes, "crash")
    return ("violation" if prop in c.crash_refutes else "collateral"), f

def load_known():
    try:
        with open(KNOWN_FILE) as fh:
            return json.load(fh).get("findings", [])
    except (OSError, ValueError):
        return []

def match_known(f, known):
    for k in known:
        if k.get("status") != "known": continue          # a `fixed` entry suppresses nothing
        if f.prop not in k.get("properties", [k.get("property")]): continue
        pat = k.get("key_regex")
        if pat and re.search(pat, f.key): return k
    return None

def write_replay(prop, c, f):
    d = os.path.join(REPLAY_DIR, prop); os.makedirs(d, exist_ok=True)
    name = re.sub(r"[^A-Za-z0-9_.-]", "_", c.label)[:120] + ".json"
    path = os.path.join(d, name)
    with open(path, "w") as fh:
        json.dump({"property": prop, "key": f.key, "detail": f.detail, "label": c.label, "cmd": c.cmd, "env": c.env, "meta": c.meta, "stdin": (c.stdin.decode("latin1") if c.stdin else None),
                   "exit": c.exit, "result": c.result, "stderr_tail": c.stderr_tail[-3000:],
                   "how": "re-run with: ./check replay " + path}, fh, indent=1)
    return path

class Verdict:
    def __init__(self, prop):
        self.prop = prop; self.violations = []; self.known = []; self.collateral = []; self.harness = []; self.ok = 0; self.cases = 0
        self._known = load_known(); self._seen_keys = set(); self._known_printed = set()
    def add(self, c):
        self.cases += 1
        st, f = classify(c, self.prop)
        if st == "ok": self.ok += 1
        elif st == "harness": self.harness.append(f)
        elif st == "collateral":
            self.collateral.append(f)
        else:
            k = match_known(f, self._known)
            if k is not None:
                self.known.append((k, f))
            else:
                self.violations.append(f)
        return st
    def report(self, out=sys.stdout):
        """prints the verdict lines; returns the exit code"""
        for k, f in self.known:
            if k["id"] in self._known_printed: continue
            self._known_printed.add(k["id"])
            print("KNOWN-FINDING: property=%s %s [%s]" % (self.prop, k.get("what", k["id"]), f.key), file=out)
        coll = {}
        for f in self.collateral: coll.setdefault(f.key, f)
        for key, f in coll.items():
            print("COLLATERAL oracle=%s refutes=%s (not a verdict on %s): %s" % (key, ",".join(f.refutes), self.prop, f.detail[:300]), file=out)
        seen = set()
        for f in self.violations:
            path = write_replay(self.prop, f.case, f)
            if f.key in seen: continue
            seen.add(f.key)
            print("VIOLATION property=%s replay=%s" % (self.prop, path), file=out)
            print("  key=%s\n  %s" % (f.key, f.detail[:1200]), file=out)
        for f in self.harness[:5]:
            print("HARNESS-FAILURE %s: %s" % (f.key, f.detail[:1500]), file=out)
        if self.violations: return 1
        if self.harness: return 2
        return 0

# ---------------------------------------------------------------------------------------------
# evidence
# ---------------------------------------------------------------------------------------------
def write_evidence(prop, tier, seed, level, coverage, wall_s, violations, assumptions):
    os.makedirs(EVIDENCE_DIR, exist_ok=True)
    ev = {"property_id": prop, "tier": tier, "seed": int(seed), "level": level, "coverage": coverage,
          "assumptions": assumptions, "wall_s": round(wall_s, 2), "violations": int(violations)}
    path = os.path.join(EVIDENCE_DIR, prop + ".json")
    tmp = path + ".tmp"
    with open(tmp, "w") as fh:
        json.dump(ev, fh, indent=1, sort_keys=False)
    os.replace(tmp, path)
    return path

def sum_field(cases, *path):
    tot = 0
    for c in cases:
        r = c.result
        if r is None: continue
        v = r
        for p in path:
            if isinstance(v, dict) and p in v: v = v[p]
            else: v = None; break
        if isinstance(v, (int, float)): tot += v
    return tot

def merge_counts(cases, field):
    out = {}
    for c in cases:
        r = c.result
        if r is None or field not in r or not isinstance(r[field], dict): continue
        for k, v in r[field].items():
            if isinstance(v, (int, float)): out[k] = out.get(k, 0) + v
            elif isinstance(v, list):
                cur = out.setdefault(k, [0] * len(v))
                for i, x in enumerate(v): cur[i] += x
    return out
