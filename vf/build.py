"""Build cache: compiles mimalloc (one TU, src/static.c) per variant from /repo's *current working tree*
and links the harness drivers against it.  Objects live under /verif/.build/<tree+flags hash>/ so a changed
tree can never reuse a stale object."""
import hashlib, os, subprocess, sys, shutil, time, threading
from concurrent.futures import ThreadPoolExecutor

VERIF = os.path.dirname(os.path.dirname(os.path.abspath(__file__)))
REPO = os.environ.get("VERIF_REPO", "/repo")
HARNESS = os.path.join(VERIF, "harness")
BUILD_ROOT = os.path.join(VERIF, ".build")
HOOKS_DEF = '-DMI_VERIF_HOOKS="%s"' % os.path.join(HARNESS, "vf_hooks.h")
WRAP = "-Wl,--wrap=mmap,--wrap=munmap,--wrap=mprotect,--wrap=madvise,--wrap=clock_gettime"

# VERIF_COV=1: line/branch coverage of the allocator under the checks (tools/coverage.py); separate build directory, never used by a registered command
COV = os.environ.get("VERIF_COV") == "1"
COVF = ["--coverage", "-fprofile-update=atomic"] if COV else []      # atomic counters: no ThreadSanitizer reports about the counters themselves

COMMON_C = ["-std=gnu11", "-g", "-fno-omit-frame-pointer", "-I" + os.path.join(REPO, "include")]

# variant -> (compiler, mimalloc flags, sanitizer class used for the harness objects)
VARIANTS = {
    "rel":   ("gcc", ["-O2", "-DNDEBUG", "-DMI_STAT=1"], "plain"),
    "dbg":   ("gcc", ["-O1", "-DMI_DEBUG=3"], "plain"),
    "sec":   ("gcc", ["-O2", "-DNDEBUG", "-DMI_SECURE=4", "-DMI_STAT=1"], "plain"),
    "tsan":  ("gcc", ["-O1", "-DNDEBUG", "-DMI_TSAN=1", "-fsanitize=thread"], "tsan"),
    "asan":  ("gcc", ["-O1", "-DNDEBUG", "-fsanitize=address,undefined", "-fno-sanitize-recover=all"], "asan"),
    "asant": ("gcc", ["-O1", "-DMI_DEBUG=1", "-DMI_TRACK_ASAN=1", "-fsanitize=address,undefined", "-fno-sanitize-recover=all"], "asan"),
    "ctsan": ("clang", ["-O1", "-DNDEBUG", "-DMI_TSAN=1", "-fsanitize=thread"], "ctsan"),
    "casan": ("clang", ["-O1", "-DNDEBUG", "-fsanitize=address,undefined", "-fno-sanitize-recover=all", "-fno-sanitize=object-size"], "casan"),
}
for _v in list(VARIANTS):
    cc, fl, sc = VARIANTS[_v]
    # hooked variants: statistics off, so that switch points are spent on the allocator's protocols and not on counters
    VARIANTS[_v + "-h"] = (cc, [f for f in fl if not f.startswith("-DMI_STAT")] + ["-DMI_STAT=0", HOOKS_DEF], sc)

SAN_FLAGS = {
    "plain": [],
    "tsan": ["-fsanitize=thread"],
    "asan": ["-fsanitize=address,undefined", "-fno-sanitize-recover=all"],
    "ctsan": ["-fsanitize=thread"],
    "casan": ["-fsanitize=address,undefined", "-fno-sanitize-recover=all", "-fno-sanitize=object-size"],
}

def variant_traits(variant):
    base = variant.replace("-h", "")
    return {
        "padding": base in ("dbg", "sec", "asant"),
        "debug": base in ("dbg", "asant"),
        "secure": base == "sec",
        "hooks": variant.endswith("-h"),
    }

_tree_hash_cache = {}
def tree_hash():
    """sha256 over every file in /repo/src and /repo/include (current working tree)"""
    key = REPO
    if key in _tree_hash_cache:
        return _tree_hash_cache[key]
    h = hashlib.sha256()
    for top in ("src", "include"):
        for root, dirs, files in sorted(os.walk(os.path.join(REPO, top))):
            dirs.sort()
            for f in sorted(files):
                p = os.path.join(root, f)
                h.update(os.path.relpath(p, REPO).encode())
                with open(p, "rb") as fh:
                    h.update(fh.read())
    _tree_hash_cache[key] = h.hexdigest()
    return _tree_hash_cache[key]

def harness_hash():
    h = hashlib.sha256()
    for root, dirs, files in sorted(os.walk(HARNESS)):
        dirs.sort()
        for f in sorted(files):
            with open(os.path.join(root, f), "rb") as fh:
                h.update(f.encode()); h.update(fh.read())
    return h.hexdigest()

def build_dir():
    d = os.path.join(BUILD_ROOT, hashlib.sha256((tree_hash() + harness_hash()).encode()).hexdigest()[:20] + ("-cov" if COV else ""))
    os.makedirs(d, exist_ok=True)
    return d

class BuildError(Exception):
    pass

_locks = {}
_locks_mu = threading.Lock()
def _lock_for(path):
    with _locks_mu:
        return _locks.setdefault(path, threading.Lock())

def _run(cmd, out):
    """compile to a temp name then rename, so concurrent processes never see a partial file"""
    tmp = out + ".tmp%d" % os.getpid()
    cmd = [c if c != "@OUT@" else tmp for c in cmd]
    r = subprocess.run(cmd, stdout=subprocess.PIPE, stderr=subprocess.STDOUT, text=True)
    if r.returncode != 0:
        try: os.unlink(tmp)
        except OSError: pass
        raise BuildError("build failed: %s\n%s" % (" ".join(cmd), r.stdout[-4000:]))
    os.replace(tmp, out)

def mimalloc_obj(variant, extra_flags=(), tag=""):
    cc, flags, _ = VARIANTS[variant]
    out = os.path.join(build_dir(), "mi_%s%s.o" % (variant, tag))
    with _lock_for(out):
        if not os.path.exists(out):
            _run([cc] + COMMON_C + flags + COVF + list(extra_flags) + ["-c", os.path.join(REPO, "src", "static.c"), "-o", "@OUT@"], out)
    return out

def harness_obj(src, sanclass, extra_flags=(), tag=""):
    """compile one harness source (C or C++) for a sanitizer class"""
    base = os.path.splitext(os.path.basename(src))[0]
    out = os.path.join(build_dir(), "h_%s_%s%s.o" % (base, sanclass, tag))
    clang = sanclass.startswith("c")
    with _lock_for(out):
        if not os.path.exists(out):
            if src.endswith(".cpp"):
                cc = ["clang++" if clang else "g++", "-std=gnu++17"]
            else:
                cc = ["clang" if clang else "gcc", "-std=gnu11"]
            _run(cc + ["-O1", "-g", "-fno-omit-frame-pointer", "-I" + os.path.join(REPO, "include"), "-I" + HARNESS] + SAN_FLAGS[sanclass] + (["-DVF_COV"] if COV else []) + list(extra_flags) +
                 ["-c", os.path.join(HARNESS, src), "-o", "@OUT@"], out)
    return out

DRIVERS = {
    "drv_seq": ["drv_seq.cpp", "seq_malformed.cpp", "seq_harden.cpp", "seq_os.cpp", "seq_arena.cpp", "vf_common.c", "vf_os.cpp"],
    "drv_mt":  ["drv_mt.cpp", "vf_common.c", "vf_os.cpp", "vf_sched.c"],
}

def driver(name, variant):
    """returns the path of driver `name` linked against mimalloc variant `variant`"""
    cc, flags, sanclass = VARIANTS[variant]
    out = os.path.join(build_dir(), "%s.%s" % (name, variant))
    with _lock_for(out):
        if os.path.exists(out):
            return out
        objs = [harness_obj(s, sanclass) for s in DRIVERS[name]]
        mi = mimalloc_obj(variant)
        clang = sanclass.startswith("c")
        _run(["clang++" if clang else "g++"] + SAN_FLAGS[sanclass] + COVF + ["-o", "@OUT@"] + objs + [mi, WRAP, "-lpthread", "-ldl", "-rdynamic"], out)
    return out

def static_driver(name, variant, extra_flags=()):
    """a C driver that #includes src/static.c itself (access to static functions); linked with vf_common only"""
    cc, flags, sanclass = VARIANTS[variant]
    out = os.path.join(build_dir(), "%s.%s" % (name, variant))
    with _lock_for(out):
        if os.path.exists(out):
            return out
        common = harness_obj("vf_common.c", sanclass)
        obj = out + ".o"
        _run([cc] + COMMON_C + flags + COVF + list(extra_flags) + ["-I" + os.path.join(REPO, "src"), "-I" + HARNESS, "-Wno-unused-function", "-c", os.path.join(HARNESS, name + ".c"), "-o", "@OUT@"], obj)
        _run([cc] + SAN_FLAGS[sanclass] + COVF + ["-o", "@OUT@", obj, common, "-lpthread", "-ldl", "-rdynamic"], out)
    return out

OVR_SO_FLAGS = ["-fPIC", "-fvisibility=hidden", "-ftls-model=initial-exec", "-DMI_MALLOC_OVERRIDE", "-DMI_SHARED_LIB", "-DMI_SHARED_LIB_EXPORT"]
def override_lib(kind="rel"):
    """the drop-in override: shared library for LD_PRELOAD (kind rel | dbg) """
    out = os.path.join(build_dir(), "libmi_ovr_%s.so" % kind)
    with _lock_for(out):
        if not os.path.exists(out):
            fl = ["-O2", "-DNDEBUG"] if kind == "rel" else ["-O1", "-DMI_DEBUG=2"]
            _run(["gcc"] + COMMON_C + fl + COVF + OVR_SO_FLAGS + ["-shared", os.path.join(REPO, "src", "static.c"), "-o", "@OUT@", "-lpthread"], out)
    return out
def override_obj():
    """the static override object (like CMake's mimalloc-obj target)"""
    out = os.path.join(build_dir(), "mi_ovr_static.o")
    with _lock_for(out):
        if not os.path.exists(out):
            _run(["gcc"] + COMMON_C + COVF + ["-O2", "-DNDEBUG", "-DMI_MALLOC_OVERRIDE", "-c", os.path.join(REPO, "src", "static.c"), "-o", "@OUT@"], out)
    return out
def ovr_program(name, static=False):
    """test programs that use only the platform's allocation entry points (no mimalloc headers)"""
    src = os.path.join(HARNESS, "ovr", name)
    cxx = name.endswith(".cpp")
    out = os.path.join(build_dir(), os.path.splitext(name)[0] + ("_static" if static else ""))
    with _lock_for(out):
        if not os.path.exists(out):
            cc = ["g++", "-std=gnu++17"] if cxx else ["gcc", "-std=gnu11"]
            if static:
                _run(cc + COVF + ["-O1", "-g", "-w", "-o", "@OUT@", override_obj(), src, "-lpthread", "-ldl", "-rdynamic"], out)   # the override object comes first on the link line
            else:
                _run(cc + ["-O1", "-g", "-w", "-o", "@OUT@", src, "-ldl"], out)
    return out

def build_many(pairs, jobs=8):
    """pairs: list of (driver name, variant); builds in parallel, returns dict"""
    res = {}
    with ThreadPoolExecutor(max_workers=jobs) as ex:
        futs = {ex.submit(driver, n, v): (n, v) for (n, v) in pairs}
        for f, k in futs.items():
            res[k] = f.result()
    return res

def prune_old(max_age_s=8 * 3600):
    """remove build directories of other trees that have not been used for a while (disk space); never the current one"""
    if not os.path.isdir(BUILD_ROOT):
        return
    cur = os.path.basename(build_dir())
    now = time.time()
    try: os.utime(build_dir(), None)      # mark the current tree's directory as in use
    except OSError: pass
    for d in os.listdir(BUILD_ROOT):
        p = os.path.join(BUILD_ROOT, d)
        if not os.path.isdir(p) or d == cur:
            continue
        try:
            newest = max([os.path.getmtime(p)] + [os.path.getmtime(os.path.join(p, f)) for f in os.listdir(p)])
        except OSError:
            continue
        if now - newest > max_age_s:
            shutil.rmtree(p, ignore_errors=True)
