#!/usr/bin/env python3
"""One-off (round 6, the last two hours: C04, C05, C07, C13, C19 once more, 35-minute agents): files the new seeded changes of the scratch worktrees
/tmp/wt8/Cxx/MUTANT (created at /repo HEAD 3b70e1f) as /verif/seeded/<Cxx-r6-n>/.  8 of the 13 delivered changes repeat kept ones (listed in SKIPPED)."""
import json, os, re, shutil, glob
WT = "/tmp/wt8"; OUT = "/verif/seeded"; LOG = "/tmp/vt/mutlog6"
T = [
 ("C04", 3, "alloc.c _mi_heap_realloc_zero: the length of the zero fill of a moved block is computed from `keep` instead of `start`: the last 8 bytes of the new block's usable size stay dirty",
  "mi_rezalloc / mi_recalloc that MOVES into a previously dirtied block, with a new size that ends within the last word of its size class (128, 1024, 65536) or a later in-place growth to the end of the block", "", [], ""),
 ("C05", 2, "alloc-aligned.c mi_heap_realloc_zero_aligned_at copies the old contents BEFORE the zero fill, which deliberately starts one word before the kept range: the last 8 preserved bytes are zeroed",
  "the rezalloc/recalloc _aligned(_at) forms with alignment > 8, on a move, with non-zero data in the last kept word (every shrinking move; growing moves when the old size is within 8 bytes of the usable size, or any in a padded build)", "", [], ""),
 ("C07", 1, "segment.c mi_segment_commit sets the commit mask BEFORE the OS commit: after a refused commit the span counts as committed, the next use builds its free list in inaccessible memory",
  "segments that commit on demand (arena_eager_commit=0, eager_commit=0) and one refused mprotect(READ|WRITE) at the first use of a span", "-O2 -DNDEBUG -Dmmap=my_mmap -Dmunmap=my_munmap -Dmprotect=my_mprotect -Dmadvise=my_madvise -I<dir of the demo>", [], ""),
 ("C07", 3, "os.c mi_os_prim_alloc_aligned records the over-allocated start instead of the aligned pointer as base of the mapping (fallback path): freeing later unmaps the prefix gap that was trimmed long ago, with whatever was mapped there since",
  "a refused address-hinted aligned mmap (or blocks > 1 GiB / alignments > 32 MiB), OS-backed memory that is really unmapped on free, and another mapping placed in the trimmed gap in between", "-O2 -DNDEBUG -Dmmap=my_mmap -Dmunmap=my_munmap -Dmprotect=my_mprotect -Dmadvise=my_madvise -I<dir of the demo>", ["C11"], ""),
 ("C19", 2, "alloc-posix.c mi_pvalloc passes the requested size instead of the page-rounded size to the aligned allocation: pvalloc(n) no longer provides roundup(n, page) usable bytes",
  "a size that is not a multiple of the page size and whose over-allocated size class does not happen to cover the rounded size (pvalloc(100): every second block has 2048 or 3072 usable bytes)", "whole program with LD_PRELOAD", [], ""),
]
SKIPPED = {
 "C04-r6-1": "same effect and site as the kept change `page.c huge zero allocation zeroes size - padding bytes instead of the usable block size`",
 "C04-r6-2": "same change as the kept `mi_heap_realloc_zero_aligned_at zeroes a moved block only up to newsize`",
 "C05-r6-1": "same effect as the kept `realloc(p,0) returns the new minimal block without freeing p`",
 "C05-r6-3": "same change as C05-r2-2 (mi_reallocarr overwrites the caller's pointer before the failure check)",
 "C07-r6-2": "same change as the kept `_mi_arena_free skips un-marking the committed bits when committed_size == 0` (reported again: live-block-fault, crash)",
 "C13-r6-1": "same change as the kept `mi_arena_try_alloc_at commits stat_commit_size instead of commit_size` (reported again by C13 and C14)",
 "C19-r6-1": "same change as C19-r3-2 (mi_new_aligned_nothrow passes nothrow=false)",
 "C19-r6-3": "same change as C19-3 (mi_posix_memalign accepts alignments below sizeof(void*))",
}
def confirm_from_log(prop, n):
    out = {}
    for suffix in (".reconfirm", ".log"):
        p = os.path.join(LOG, "%s_p%d%s" % (prop, n, suffix))
        if not os.path.exists(p): continue
        t = open(p).read()
        m = re.search(r"DEMO unpatched: (.*)", t); m2 = re.search(r"DEMO patched:\s+(.*)", t)
        if m and m2 and "pass=0" not in m.group(1):
            out["demo_unchanged_tree"] = m.group(1); out["demo_with_change"] = m2.group(1)
            out["ctest_with_change"] = re.findall(r"CTEST run \d: (.*)", t)
            break
    if "ctest_with_change" not in out:
        p = os.path.join(LOG, "%s_p%d.log" % (prop, n))
        if os.path.exists(p): out["ctest_with_change"] = re.findall(r"CTEST run \d: (.*)", open(p).read())
    return out
def main():
    for (prop, n, change, needs, flags, also, strengthened) in T:
        d = os.path.join(WT, prop, "MUTANT"); sid = "%s-r6-%d" % (prop, n); o = os.path.join(OUT, sid)
        os.makedirs(o, exist_ok=True)
        shutil.copy(os.path.join(d, "patch.diff" if n == 1 else "patch%d.diff" % n), os.path.join(o, "patch.diff"))
        suf = "" if n == 1 else str(n); demo = None
        for cand in ("demo%s.c" % suf, "demo%s.cpp" % suf, "demo.c"):
            if os.path.exists(os.path.join(d, cand)): demo = cand; break
        if demo: shutil.copy(os.path.join(d, demo), os.path.join(o, "demo" + os.path.splitext(demo)[1]))
        for h in glob.glob(os.path.join(d, "*.h")): shutil.copy(h, o)
        if os.path.exists(os.path.join(d, "notes.md")): shutil.copy(os.path.join(d, "notes.md"), os.path.join(o, "notes.md"))
        meta = {"id": sid, "property": prop, "change": change, "needs_to_manifest": needs, "also_checks": also,
                "written_by": "a fresh sub-agent (sixth round) that was given only the text of property %s and a scratch git worktree of /repo at 3b70e1f (section `Mutant %d` / patch%s of notes.md is its own description)" % (prop, n, suf),
                "demonstration": {"file": ("demo" + os.path.splitext(demo)[1]) if demo else None, "build": "gcc %s -I<tree>/include demo.c <tree>/src/static.c -lpthread" % (flags or "-O2 -DNDEBUG"), "exit": "0 = property held, non-zero = broken"},
                "confirmed_here": dict({"how": "tools/confirm_mutant.sh in a scratch worktree of /repo (removed afterwards): demonstration 5x on the unchanged tree, apply the change, demonstration 5x, cmake build + ctest twice"}, **confirm_from_log(prop, n)),
                "checks_strengthened": strengthened or None}
        json.dump(meta, open(os.path.join(o, "meta.json"), "w"), indent=1)
    json.dump(SKIPPED, open(os.path.join(OUT, "round6_not_filed.json"), "w"), indent=1)
    print("filed", len(T), "round-6 changes;", len(SKIPPED), "not filed")
main()
