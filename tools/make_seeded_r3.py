#!/usr/bin/env python3
"""One-off (round 3, the six properties not covered by round 2): files the third batch of seeded changes (scratch worktrees /tmp/wt3/Cxx/MUTANT, created at /repo HEAD 6901080) as /verif/seeded/<Cxx-r2-n>/.
Changes that merely repeat one already kept from round 1 and one that does not compile in a release build are not filed (listed in SKIPPED)."""
import json, os, re, shutil, glob
WT = "/tmp/wt3"; OUT = "/verif/seeded"; LOG = "/tmp/vt/mutlog3"
T = [
 ("C01", 1, "segment.c mi_commit_mask_create drops the `count >= 64` special case: a commit/purge mask loses every 64-slice field that lies completely inside its range, so commits no longer clear pending purge bits in the middle of a re-used large span",
  "a block of more than 4 MiB (up to 16 MiB) in an ordinary segment on an area that was freed shortly before in smaller pieces, the segment kept alive by another block, then a purge (delay expiry or forced collect): the middle of the live block is purged", "", ["C13"], ""),
 ("C03", 1, "alloc-aligned.c fast path of mi_heap_malloc_zero_aligned_at tests free % a == offset % a instead of (free + offset) % a == 0",
  "size <= 1024, 64 <= alignment <= size, an offset that is a multiple of 16 but neither 0 nor a/2 mod a, a size class whose block size is not a multiple of the alignment, and a page of that class already in the heap", "", [], ""),
 ("C03", 2, "page-queue.c mi_page_queue_remove clears the whole flags byte instead of only the in-full bit: a page that leaves a queue with live blocks forgets that it holds interior-aligned blocks",
  "over-allocated interior pointers, then the page leaves its queue while they are live (thread exit + adoption, or an older fuller page is moved to the front), then free/usable_size of an interior pointer", "", ["C01"], ""),
 ("C04", 1, "segment.c mi_segment_span_allocate sets page->is_zero_init from the segment's memid: revives the shortcut that skips the memset for pages carved from a span that an earlier page already dirtied",
  "a segment from never-used memory that stays alive, a page of it fully freed and its span re-carved before the purge, a zeroing allocation before that page's first free-list collection", "", [], ""),
 ("C04", 2, "alloc.c _mi_heap_realloc_zero returns mi_heap_malloc for a NULL pointer, dropping the zero flag",
  "rezalloc / recalloc (and their heap / small-alignment forms) with p == NULL on recycled dirty memory", "", [],
  "missed (the histories never passed NULL to the realloc family): one allocation in 8 now goes through the realloc family with a NULL pointer"),
 ("C04", 4, "alloc-aligned.c mi_heap_realloc_zero_aligned_at zeroes a moved block only up to newsize instead of its usable size (the non-aligned twin stays correct)",
  "alignment > 8 and a chain of two growths: the first moves into a recycled dirty block with slack, the second fits that slack", "", [], ""),
 ("C06", 1, "alloc-posix.c mi_pvalloc replaces the overflow guard before rounding by a limit check after rounding: the page round-up wraps to 0 and a tiny block is returned",
  "mi_pvalloc with a size within one OS page of SIZE_MAX", "", [], ""),
 ("C06", 3, "alloc-aligned.c the zero / power-of-two alignment check moves behind the small-block fast path",
  "a non-power-of-two alignment with size <= 1024, alignment <= size and a page of that size class with a non-empty free list already in the heap", "", [], ""),
 ("C15", 4, "heap.c mi_heaps_are_compatible also accepts a backing heap without arena preference: mi_heap_delete of an arena-bound heap moves its pages into the thread's default heap",
  "an arena-bound heap with live blocks is deleted; afterwards the same thread's default heap allocates the same size classes", "", [],
  "missed (the thread that deleted its bound heap terminated right away): C15's threads now allocate the same size classes from their default heap after the delete"),
 ("C19", 1, "alloc-override.c guard of the aligned_alloc forward tests _ISOC11_SOURCE: in a C build of the override the forward disappears and glibc serves aligned_alloc while mimalloc serves free/realloc",
  "a C-compiled override and a program that calls aligned_alloc and then frees, resizes or queries the block", "LD_PRELOAD", [], ""),
 ("C19", 2, "alloc.c mi_new_aligned_nothrow passes nothrow=false to the new-handler retry: the aligned nothrow operator new forms abort instead of returning nullptr",
  "operator new(size, align_val_t, nothrow) with a failing allocation and no new-handler", "LD_PRELOAD", [], ""),
]
SKIPPED = {
 "C01-r3-2": "same change as C10-r2-1", "C01-r3-3": "same change as C01-2", "C03-r3-3": "same change as C03-3 / C16-2", "C04-r3-3": "same change as C04-2", "C06-r3-2": "same change as C06-2",
 "C15-r3-1": "same change as C15-1", "C15-r3-2": "same change as C15-3", "C15-r3-3": "same change as C15-2", "C19-r3-3": "same change as C19-3",
}
def confirm_from_log(prop, n):
    out = {}
    for suffix in (".reconfirm", ".log"):
        p = os.path.join(LOG, "%s_p%d%s" % (prop, n, suffix))
        if not os.path.exists(p): continue
        t = open(p).read()
        m = re.search(r"DEMO unpatched: (.*)", t); m2 = re.search(r"DEMO patched:\s+(.*)", t)
        if m and m2 and "pass=0" not in m.group(1):
            out["demo_unchanged_tree"] = m.group(1); out["demo_with_change"] = m2.group(1)
            out["ctest_with_change"] = re.findall(r"CTEST run \d: (.*)", t)
            break
    if "ctest_with_change" not in out:
        p = os.path.join(LOG, "%s_p%d.log" % (prop, n))
        if os.path.exists(p): out["ctest_with_change"] = re.findall(r"CTEST run \d: (.*)", open(p).read())
    return out
def main():
    for (prop, n, change, needs, flags, also, strengthened) in T:
        d = os.path.join(WT, prop, "MUTANT"); sid = "%s-r3-%d" % (prop, n); o = os.path.join(OUT, sid)
        os.makedirs(o, exist_ok=True)
        shutil.copy(os.path.join(d, "patch.diff" if n == 1 else "patch%d.diff" % n), os.path.join(o, "patch.diff"))
        suf = "" if n == 1 else str(n); demo = None
        for cand in ({}.get((prop, n), "demo%s.c" % suf), "demo%s.cpp" % suf, "demo.c"):
            if os.path.exists(os.path.join(d, cand)): demo = cand; break
        if demo: shutil.copy(os.path.join(d, demo), os.path.join(o, "demo" + os.path.splitext(demo)[1]))
        for h in glob.glob(os.path.join(d, "*.h")): shutil.copy(h, o)
        if os.path.exists(os.path.join(d, "notes.md")): shutil.copy(os.path.join(d, "notes.md"), os.path.join(o, "notes.md"))
        meta = {"id": sid, "property": prop, "change": change, "needs_to_manifest": needs, "also_checks": also,
                "written_by": "a fresh sub-agent (third round) that was given only the text of property %s and a scratch git worktree of /repo at 6901080 (section `Mutant %d` / patch%s of notes.md is its own description)" % (prop, n, suf),
                "demonstration": {"file": ("demo" + os.path.splitext(demo)[1]) if demo else None, "build": "gcc %s -I<tree>/include demo.c <tree>/src/static.c -lpthread" % (flags or "-O2 -DNDEBUG"), "exit": "0 = property held, non-zero = broken"},
                "confirmed_here": dict({"how": "tools/confirm_mutant.sh in a scratch worktree of /repo (removed afterwards): demonstration 5x on the unchanged tree, apply the change, demonstration 5x, cmake build + ctest twice"}, **confirm_from_log(prop, n)),
                "checks_strengthened": strengthened or None}
        json.dump(meta, open(os.path.join(o, "meta.json"), "w"), indent=1)
    json.dump(SKIPPED, open(os.path.join(OUT, "round3_not_filed.json"), "w"), indent=1)
    print("filed", len(T), "round-3 changes;", len(SKIPPED), "not filed")
main()
