#!/usr/bin/env python3
"""Writes /verif/MANIFEST.json from the table below (one place to keep it consistent with vf/props.py)."""
import json, os, sys
VERIF = os.path.dirname(os.path.dirname(os.path.abspath(__file__)))

LEVEL_NOTE = ("trusted base: the harness (shadow model, pattern oracles, OS shim, schedule controller), gcc 12 / clang 14 code generation and sanitizer runtimes, Linux 6.x mmap/madvise/mincore semantics; "
              "nothing is proved: the verdict covers exactly the executions listed in the evidence file")

CHECKS = {
 "C01": ("drv_seq general profile", "shadow-model runtime monitor over generated API histories (exact interval index, content patterns, conservation, heap walk) on release, debug(MI_DEBUG=3) and secure builds; ASan-tracked build in the thorough tier",
         "Runtime monitoring of generated single-thread histories: every allocation is checked against an exact interval index of live blocks, every live block carries a unique byte pattern verified at free/realloc/periodically, "
         "zero-size uniqueness, crash handler; 3 build variants x 40 histories x 4000 ops (quick). Exploration is the right level: the property quantifies over all histories, a monitor decides the ones driven.", "3 C01"),
 "C03": ("drv_seq aligned profile", "runtime monitor: returned address / usable size / alignment arithmetic checks + shadow model on histories dominated by aligned entry points, interior pointers through all free/realloc/usable_size paths",
         "Every returned pointer is checked for usable size >= n, 16/8-byte alignment (plain) or (p+offset) % alignment == 0 (aligned entry points, alignments 1B..128MiB, offsets 0/random/>=n/odd), "
         "same-alignment realloc keeps alignment, interior pointers are freed/reallocated/queried like ordinary ones with the neighbours' contents and the conservation count as oracle.", "3 C03"),
 "C04": ("drv_seq zero profile", "runtime monitor: byte scans of zero-initialised ranges after dirty reuse (local free, remote free, heap destroy, thread exit) and along monotone rezalloc/recalloc growth chains",
         "Blocks of all classes are dirtied over their full usable size and freed in several ways; every zeroing entry point's result is scanned over the requested size; zero-tracked blocks are grown in monotone chains "
         "(in place and moving) and [old n, new n) is scanned. Decided on the release build too (no padding: in-place growth path).", "3 C04"),
 "C05": ("drv_seq realloc profile", "runtime monitor: shadow model + conservation count around every realloc-family call, prefix comparison against the old block's pattern, mi_expand contract",
         "Old/new size pairs across class, page-kind and huge boundaries for every realloc entry point; prefix preserved, old block released exactly when the pointer changed (overlap oracle + allocated-block count), "
         "failure semantics (NULL keeps the block, reallocf frees it), mi_expand never moves and succeeds up to usable size on no-padding builds.", "3 C05"),
 "C06": ("drv_seq malformed profile", "runtime monitor over an argument grid (overflowing count*size, sizes > PTRDIFF_MAX, invalid alignments) at 4 heap states; UBSan/ASan build for the size arithmetic",
         "The full grid (~9000 malformed calls per case) is executed for every entry point at a fresh, busy, busier and drained heap; after every call: NULL / errno / untouched out-parameter, allocated-block count unchanged, "
         "realloc victim intact, only EOVERFLOW/ENOMEM reported; well-formed requests of the surrounding history must succeed unless the OS ledger shows a refusal.", "3 C06"),
 "C07": ("drv_seq faults profile + OS shim", "fault enumeration: the k-th mmap/munmap/mprotect/madvise call of a workload fails (once, or persistently until a heal point) in a fresh process per position; shadow-model, crash, post-heal battery and give-back oracles",
         "Clean runs measure the OS calls of 6-8 workload/option setups; then one process per fault position and class (the first three, the last and a random sample of positions per call class: 10 in the quick tier, 150 in the thorough tier; every position when the workload makes fewer calls). "
         "A plan counts as covered only if its fault really fired (INJECTED counter).", "3 C07"),
 "C02": ("drv_mt xfree scenario + vf_sched", "schedule-controlled execution of real threads (every mi_atomic op / yield / lock a switch point; targeted, uniform and PCT policies; spurious weak-CAS failures), parallel runs with injected delays, ThreadSanitizer; pattern + lifetime-replay oracles",
         "~13000 executions of 24 tiny programs (1 owner, 2-3 freeing threads) under ENUMERATED preemptions (script policy: every single preemption of a freeing thread, every pair within 3 switch points x every choice of who runs in the windows, sampled owner preemptions / spurious CAS failures); 1200 baton schedules (2-4 threads, 40-300 ops each) on release and debug builds + 12 parallel delay/off runs (4-12 threads, 20-60k ops) + 6 TSan runs per quick run; every block carries a unique-id pattern verified by its current holder; "
         "all alloc/free events are replayed in timestamp order against an interval map (a block handed out while an intersecting one is live is a violation).", "3 C02"),
 "C08": ("drv_mt prodcons scenario + vf_sched", "schedule-controlled producer/consumer executions; heap walk at quiescence (no area may remain after one forced collect), per-round area series (bounded memory) and an exact reuse scenario (area count before remote frees vs after re-allocating as many blocks, own and adopted pages)",
         "Tiny programs with enumerated preemptions (see C02) whose owner heap must count no used block at the end; remote frees into a heap being deleted (heap-delete scenario) must not be lost either; one owner heap, 1-7 remotely freeing consumers, <= L outstanding blocks; first remote free into full pages, frees racing the owner's list take-over and collects are hit constantly under the targeted policy.", "3 C08"),
 "C09": ("drv_mt exit scenario + vf_sched", "schedule-controlled thread termination (natural exit with the destructor running concurrently, or mi_thread_done as a scheduled step) with live blocks handed to survivors and successors adopting abandoned segments; abandoned walk / OS ledger at the end",
         "T slots x several generations of threads under 5 option settings (reclaim-on-free, forced abandonment, OS segments, reclaim percentage); blocks of terminated threads are read and freed by others; finally (all other threads terminated, main and one fresh thread per sub-process force-collected) nothing abandoned may be left, no arena block may still be in use and no OS segment may stay mapped.", "3 C09"),
 "C14": ("drv_mt arena scenario + vf_sched", "schedule-controlled concurrent multi-block claims in one exclusive arena (targeted at bitmap.c / arena.c), stamps + lifetime replay + range check, capacity probes at quiescence",
         "Arenas of 96-160 blocks over PROT_NONE address space; claims of 1-7 blocks straddling bitmap fields, failing when full, rolling back, with purges running; afterwards the whole arena and exactly block_count single-block segments must be allocatable.", "3 C14"),
 "C10": ("drv_seq heaps profile (+ drv_mt heap-delete scenario)", "runtime monitor: shadow model with heap attribution, ownership-query cross-check against every heap, conservation after destroy, default-heap checks; concurrent part under the schedule controller",
         "Sequential histories over up to 8 first-class heaps in any order of new/alloc/delete/destroy/set_default with ownership queries on live blocks; blocks of exited threads are adopted meanwhile; tagged-heap pattern (a terminated thread's tagged pages are adopted while a destroyable heap with the same tag exists, then that heap is destroyed); concurrent part: heap delete (untagged: merge path, tagged: abandon path) racing remote frees under the schedule controller incl. the simulated store buffer, ending with quiescence checks. Known finding K2 (blocks of a deleted tagged heap freed by the same thread) is exercised by one dedicated case per release-like variant and printed as KNOWN-FINDING.", "3 C10"),
 "C11": ("drv_seq ledger profile + OS shim", "OS-ledger monitor (mmap/munmap/mprotect/madvise shim + mincore) over repeated allocate-everything/free-everything rounds",
         "5 workloads (small, large, huge, aligned-huge, threads with exit) x 4 option settings x 2 builds, 7 repetitions each (40 in the thorough tier): no OS region >= 1 MiB outside arenas may survive free-all + forced collects, "
         "arena memory must not stay resident, mapped/resident bytes and arena blocks in use must not grow from repetition 3 on; workload 5: storms of 8 threads terminating at the same moment (thread metadata cache).", "3 C11"),
 "C12": ("drv_seq walk profile", "runtime monitor: set comparison of mi_heap_visit_blocks output with the shadow model every 64 operations (and mi_abandoned_visit_blocks where forced abandonment is configured)",
         "Every live block reported exactly once with an enclosing range, no dead block, per-area used count, early stop (from block and area callbacks) honoured; structured hole patterns; abandoned walks incl. early stop then complete walk; abandoned-groups pattern (threads alive together terminate with live blocks, groups freed from the middle) with and without arenas and reclaim-on-free.", "3 C12"),
 "C13": ("drv_seq under option vectors", "pairwise (thorough: 3-wise) covering array over 13 commit/purge/arena options x history profiles, virtual clock, purge-range callback against the shadow model",
         "Covering array plus the complete cross of purge_delay x purge_decommits x eager_commit x {arena eager, arena lazy, no arena}; each option vector re-runs the C01/C03/C04/C05/C12 oracles; every madvise(DONTNEED/FREE)/mprotect(PROT_NONE) range is checked against live blocks before it is executed; debug builds really revoke access on decommit.", "3 C13"),
 "C15": ("drv_seq arena profile", "runtime monitor: address-range checks on every returned pointer against mi_arena_area / the region given to mi_manage_os_memory_ex, canary zones, threads terminating with live blocks inside exclusive arenas",
         "1-3 arenas over regions of awkward geometry, bound and unbound heaps allocating the same size classes, bound heaps filled until they refuse (NULL, never memory from elsewhere), adoption of abandoned arena segments "
         "(forced collects, reclaim-on-free, forced abandonment): bound heap => inside its arena, any other heap => outside every exclusive arena.", "3 C15"),
 "C16": ("drv_arith (includes src/static.c)", "exhaustive / boundary enumeration of the compiled size-class and address arithmetic against reference arithmetic (128-bit multiply, plain division), UBSan/ASan build; address recovery on real pages",
         "All sizes 0..2*MI_MEDIUM_OBJ_SIZE_MAX and every boundary up to PTRDIFF_MAX; span bins 0..512; mi_fast_divide for all bin sizes x offsets; utilities on grids + random inputs; _mi_ptr_segment / _mi_segment_page_of / "
         "_mi_page_ptr_unalign on real pages of all 48 small/medium bins at >200 slice positions, large and huge pages, aligned pointers; 4 build variants.", "3 C16"),
 "C19": ("ovr/ovr_matrix.cpp, ovr/ovr_c.c under LD_PRELOAD and the static override object", "runtime monitor inside overriding processes (29 allocating x 20 releasing/resizing entry points incl. every operator new/delete form and glibc's __libc_* aliases x sizes x alignments, libc/libstdc++ internal allocators), dynamic-linker binding log (LD_DEBUG=bindings, LD_BIND_NOW), whole programs with/without preload",
         "Every pointer from every C/C++ entry point must be memory of the override (mi_is_in_heap_region, mi_usable_size, malloc_usable_size) and survive any other entry point; every binding of an allocation symbol from any object must go to the override library; "
         "a debug override library reports any foreign pointer; python/sort/ls/gcc/awk behave identically under the preload.", "3 C19"),
 "C20": ("drv_opts (includes src/static.c) + vf/optref.py", "differential check of option parsing against a reference grammar (9000 (option, value) pairs per run over all 37 options and their legacy names), ASan/UBSan on the formatter with exactly sized buffers, every mi_stats_get_json buffer size, all print functions",
         "Environment strings: 73 hand-written forms rotated over all options + 2000 generated (well-formed per grammar, malformed, around the 64-byte limit, up to 8 KiB); set/get round trips; 4*10^5 _mi_snprintf calls into exactly sized libc buffers; "
         "mi_stats_get_json for every size 0..len+64; >16 KiB of delayed output.", "3 C20"),
 "C17": ("drv_seq hardening profile", "runtime monitor with injected program errors (double free, overflow byte, forged free-list link) and the registered error callback as observer; shadow-model oracles stay on afterwards in the secure build",
         "~25 attacks per secure-build case inside ordinary histories, one per debug-build case; expected error code must be delivered, no block handed out twice, no address outside OS regions of the allocator.", "3 C17"),
 "C18": ("drv_seq purge profile + OS shim + virtual clock", "OS-ledger monitor under a virtual clock: committed-and-resident bytes after the delay expired with ordinary activity, compared with what a forced collect returns",
         "purge_delay in {-1,0,5,10,100} x decommit/reset x arena multiplier x {pages, segments, everything}; violation = more than 35% (65% page scenario) of the freed bytes still committed, or any purge with delay -1, or none with delay 0. Exact scenarios: whole segments freed at different virtual times into 1-9 arenas over several rounds (arenas), a page freed inside a segment that keeps getting new pages (trickle), hole patterns in the pending-purge mask of one segment (holes): every range the harness knows to be unused for longer than the delay must have 0 committed resident bytes.", "3 C18"),
}

NOT_YET = {}

def main():
    checks = []
    for pid in sorted(CHECKS):
        eng, tech, text, ref = CHECKS[pid]
        cat = "fault_enumeration" if pid == "C07" else "exploration"
        checks.append({
            "property_id": pid,
            "quick_cmd": "./check %s --tier quick" % pid,
            "thorough_cmd": "./check %s --tier thorough" % pid,
            "evidence_file": "evidence/%s.json" % pid,
            "replay_cmd_template": "./check replay {path}",
            "engine": eng,
            "level_claimed": {"category": cat, "text": text, "design_ref": "DESIGN.md section " + ref},
            "level_note": LEVEL_NOTE,
            "technique": tech,
        })
    na = [{"property_id": p, "reason": r} for p, r in sorted(NOT_YET.items())]
    m = {
        "version": 1,
        "setup_cmd": "./check setup",
        "hooks": {
            "guard": "MI_VERIF_HOOKS",
            "enable": "-DMI_VERIF_HOOKS='\"/verif/harness/vf_hooks.h\"' (variants ending in -h in vf/build.py); the header is included at two guarded points of include/mimalloc/atomic.h",
            "baseline_off_cmd": "cmake --build /repo/_build && ctest --test-dir /repo/_build -j8 --timeout 900",
            "source_commits": ["adc873f"],
            "add_only": True,
        },
        "engines": [
            {"name": "drv_seq", "path": "harness/drv_seq.cpp", "serves_properties": ["C01", "C03", "C04", "C05", "C06", "C07", "C10", "C11", "C12", "C13", "C15", "C17", "C18"],
             "kind_free_text": "single-thread API history driver with an exact shadow model, linked against each build variant of mimalloc (src/static.c) and the OS shim"},
            {"name": "drv_mt", "path": "harness/drv_mt.cpp", "serves_properties": ["C02", "C08", "C09", "C10", "C14"],
             "kind_free_text": "multi-thread driver: real pthreads under the schedule controller (baton / delay modes through the MI_VERIF_HOOKS points) and ThreadSanitizer"},
            {"name": "vf_os", "path": "harness/vf_os.cpp", "serves_properties": ["C07", "C11", "C13", "C18"], "kind_free_text": "linker-wrapped mmap/munmap/mprotect/madvise/clock_gettime: ledger, fault plans, virtual clock"},
            {"name": "vf_sched", "path": "harness/vf_sched.c", "serves_properties": ["C02", "C08", "C09", "C10", "C14"], "kind_free_text": "schedule controller"},
        ],
        "checks": checks,
        "notes": "Runtime monitoring and sanitizers only. See DESIGN.md; known_findings.json lists the genuine defects found: F1-F39 repaired by fix: commits in /repo; K1-K7 recorded as known findings (not small/safe to repair), each exercised by a dedicated case whose key the entry matches exactly; seeded/ holds the confirmed seeded changes of seven rounds of sub-agents and the outcome of the checks against them (seeded/RESULTS.json, DESIGN.md 7.1); benign/ holds property-preserving changes on which every check must stay silent (tools/run_benign.sh, DESIGN.md 7.4); tools/coverage.py reports which allocator lines the checks drive (coverage/SUMMARY.md, DESIGN.md 7.3).",
        "not_applicable": na,
    }
    with open(os.path.join(VERIF, "MANIFEST.json"), "w") as fh:
        json.dump(m, fh, indent=1)
    print("wrote MANIFEST.json with %d checks, %d not_applicable" % (len(checks), len(na)))

if __name__ == "__main__":
    main()
