#!/usr/bin/env python3
"""tools/coverage.py [--tier quick] [--props C01,C02,...] [--keep] [--out coverage/]
Which lines, branches and functions of the allocator do the registered checks actually drive?

Runs the checks with VERIF_COV=1 (every mimalloc variant, the static drivers and the override library are compiled with
`--coverage` into a separate build directory <hash>-cov; evidence and replays go to a scratch directory, so the committed
evidence is not touched), then runs gcov on every allocator object, merges the counts of all build variants per source line
and writes
   <out>/SUMMARY.md      per source file: lines / branches / functions executed; the functions never entered; per function
                         the number of lines never executed (largest first)
   <out>/uncovered.txt   every line of src/*.c and include/mimalloc/*.h that no check executed in any variant (with source text)
This is a *workload* diagnostic (DESIGN.md section 7.3): a line that never ran cannot have been judged by any monitor.  It is
not a check and decides nothing."""
import os, sys, json, subprocess, glob, gzip, shutil, tempfile, time, collections

VERIF = os.path.dirname(os.path.dirname(os.path.abspath(__file__)))
sys.path.insert(0, VERIF)

def main(argv):
    tier = "quick"; props = None; keep = False; out = os.path.join(VERIF, "coverage"); skip_run = False
    i = 1
    while i < len(argv):
        a = argv[i]
        if a == "--tier": tier = argv[i + 1]; i += 1
        elif a == "--props": props = argv[i + 1].split(","); i += 1
        elif a == "--keep": keep = True
        elif a == "--out": out = argv[i + 1]; i += 1
        elif a == "--skip-run": skip_run = True     # only re-evaluate the counters that are already there
        i += 1
    os.environ["VERIF_COV"] = "1"
    from vf import build, props as P
    props = props or sorted(P.CHECKS)
    bdir = build.build_dir()
    scratch = tempfile.mkdtemp(prefix="vfcov_")
    results = {}
    if not skip_run:
        for f in glob.glob(os.path.join(build.BUILD_ROOT, "*-cov", "*.gcda")): os.unlink(f)
        for p in props:
            t0 = time.time()
            env = dict(os.environ, VERIF_COV="1", VERIF_OUT=scratch, VERIF_TIER=tier)
            r = subprocess.run([os.path.join(VERIF, "check"), p, "--tier", tier], env=env, stdout=subprocess.PIPE, stderr=subprocess.STDOUT, text=True)
            results[p] = (r.returncode, int(time.time() - t0))
            print("coverage run %s exit=%d %ds" % (p, r.returncode, time.time() - t0), flush=True)
            if r.returncode != 0: print(r.stdout[-1500:])
    # gcov over every instrumented object of the allocator
    repo = os.path.realpath(build.REPO)
    lines = collections.defaultdict(lambda: collections.defaultdict(int))       # file -> line -> count (summed over variants)
    branches = collections.defaultdict(lambda: collections.defaultdict(lambda: [0, 0]))   # file -> line -> [taken arcs, arcs] (max over variants)
    funcs = collections.defaultdict(lambda: collections.defaultdict(int))       # file -> (name, start_line) -> count
    per_variant = {}
    gw = tempfile.mkdtemp(prefix="vfgcov_")
    # every coverage build directory (the harness may have been edited while the checks ran: a new directory per harness hash; same allocator tree)
    for gcda in sorted(glob.glob(os.path.join(build.BUILD_ROOT, "*-cov", "*.gcda"))):
        base = os.path.basename(os.path.dirname(gcda))[:6] + "/" + os.path.basename(gcda)
        r = subprocess.run(["gcov", "--json-format", "--stdout", "-b", gcda], cwd=gw, stdout=subprocess.PIPE, stderr=subprocess.DEVNULL)
        if r.returncode != 0 or not r.stdout: continue
        try: data = json.loads(r.stdout)
        except ValueError: continue
        nexec = 0
        for f in data.get("files", []):
            fn = os.path.realpath(os.path.join(data.get("current_working_directory", "."), f["file"]))
            if not fn.startswith(repo + "/"): continue
            rel = os.path.relpath(fn, repo)
            for fu in f.get("functions", []): funcs[rel][(fu["name"], fu["start_line"], fu["end_line"])] += fu["execution_count"]
            for ln in f.get("lines", []):
                lines[rel][ln["line_number"]] += ln["count"]
                if ln["count"]: nexec += 1
                br = ln.get("branches") or []
                if br:
                    cur = branches[rel][ln["line_number"]]
                    tk = sum(1 for b in br if b["count"] > 0)
                    if len(br) >= cur[1] and (len(br) > cur[1] or tk > cur[0]): cur[0], cur[1] = tk, len(br)
        per_variant[base] = nexec
    shutil.rmtree(gw, ignore_errors=True)
    os.makedirs(out, exist_ok=True)
    tot = [0, 0, 0, 0, 0, 0]
    rows = []; never = []; partial = []
    for rel in sorted(lines):
        L = lines[rel]; n = len(L); x = sum(1 for c in L.values() if c)
        B = branches[rel]; bn = sum(v[1] for v in B.values()); bx = sum(v[0] for v in B.values())
        F = funcs[rel]; fnn = len(F); fx = sum(1 for c in F.values() if c)
        rows.append((rel, x, n, bx, bn, fx, fnn))
        for k, v in zip(range(6), (x, n, bx, bn, fx, fnn)): tot[k] += v
        for (name, s, e), c in sorted(F.items(), key=lambda kv: kv[0][1]):
            if c == 0: never.append((rel, name, s, e))
            else:
                miss = [l for l in range(s, e + 1) if l in L and L[l] == 0]
                if miss: partial.append((len(miss), rel, name, s, miss))
    with open(os.path.join(out, "SUMMARY.md"), "w") as fh:
        fh.write("# Coverage of the allocator under the %s tier of the checks %s\n\n" % (tier, ",".join(props)))
        fh.write("Generated by tools/coverage.py (gcov, counts merged over all build variants: %s).\n" % ", ".join("%s %d lines" % kv for kv in sorted(per_variant.items())))
        fh.write("Tree: /repo at %s. Check exits: %s\n\n" % (subprocess.run(["git", "-C", repo, "rev-parse", "--short", "HEAD"], stdout=subprocess.PIPE, text=True).stdout.strip(),
                                                               ", ".join("%s=%d (%ds)" % (p, rc, t) for p, (rc, t) in sorted(results.items()))))
        fh.write("| file | lines executed | branches (arcs) taken | functions entered |\n|---|---|---|---|\n")
        for (rel, x, n, bx, bn, fx, fnn) in rows:
            fh.write("| %s | %d / %d (%.0f%%) | %d / %d (%.0f%%) | %d / %d |\n" % (rel, x, n, 100.0 * x / max(1, n), bx, bn, 100.0 * bx / max(1, bn), fx, fnn))
        fh.write("| **total** | %d / %d (%.1f%%) | %d / %d (%.1f%%) | %d / %d |\n\n" % (tot[0], tot[1], 100.0 * tot[0] / max(1, tot[1]), tot[2], tot[3], 100.0 * tot[2] / max(1, tot[3]), tot[4], tot[5]))
        fh.write("## Functions never entered (%d)\n\n" % len(never))
        for (rel, name, s, e) in never: fh.write("* %s:%d `%s` (%d lines)\n" % (rel, s, name, e - s + 1))
        fh.write("\n## Functions entered but with lines never executed (largest first)\n\n")
        for (k, rel, name, s, miss) in sorted(partial, reverse=True)[:120]:
            fh.write("* %s:%d `%s`: %d lines never executed (%s)\n" % (rel, s, name, k, ",".join(map(str, miss[:24])) + ("…" if len(miss) > 24 else "")))
    with open(os.path.join(out, "uncovered.txt"), "w") as fh:
        for rel in sorted(lines):
            try: src = open(os.path.join(repo, rel), errors="replace").read().split("\n")
            except OSError: continue
            for l in sorted(lines[rel]):
                if lines[rel][l] == 0 and l - 1 < len(src): fh.write("%s:%d: %s\n" % (rel, l, src[l - 1].rstrip()[:160]))
    print("total: lines %d/%d  branches %d/%d  functions %d/%d   -> %s" % (tot[0], tot[1], tot[2], tot[3], tot[4], tot[5], os.path.join(out, "SUMMARY.md")))
    shutil.rmtree(scratch, ignore_errors=True)
    if not keep and not skip_run:
        for d in glob.glob(os.path.join(build.BUILD_ROOT, "*-cov")): shutil.rmtree(d, ignore_errors=True)
    return 0

if __name__ == "__main__":
    sys.exit(main(sys.argv))
