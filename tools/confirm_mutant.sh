#!/bin/bash
# tools/confirm_mutant.sh <patch.diff> <demo source> [extra compiler flags...]
# Confirms a seeded change in a scratch worktree of /repo (removed afterwards): it applies, the tree builds, the repository's
# test suite passes with it, and the demonstration fails with the change and passes without it.
set -u
patch=$(readlink -f "$1"); demo=$(readlink -f "$2"); shift 2
flags="${*:--O2 -DNDEBUG}"
wt=$(mktemp -d /tmp/cm_XXXXXX); rmdir "$wt"
git -C /repo worktree add -q --detach "$wt" HEAD || exit 3
cd "$wt"
cxx=gcc; case "$demo" in *.cpp) cxx="g++ -std=gnu++17";; esac
build_demo() { # $1 = output
  if grep -q 'src/static.c"' "$demo"; then
    sed "s#/tmp/wt[0-9]\?/C[0-9]*/#$wt/#g" "$demo" > "$wt/_demo_src.${demo##*.}"
    $cxx $flags -I"$wt/include" "$wt/_demo_src.${demo##*.}" -o "$1" -lpthread -ldl 2>&1 | tail -3
  else
    sed "s#/tmp/wt[0-9]\?/C[0-9]*/#$wt/#g" "$demo" > "$wt/_demo_src.${demo##*.}"
    gcc $flags -I"$wt/include" -c "$wt/src/static.c" -o "$wt/_mi.o" 2>&1 | tail -3
    $cxx $flags -I"$wt/include" "$wt/_demo_src.${demo##*.}" "$wt/_mi.o" -o "$1" -lpthread -ldl 2>&1 | tail -3
  fi
}
run_demo() { local ok=0 bad=0; for i in 1 2 3 4 5; do timeout 300 "$1" >/dev/null 2>&1; if [ $? -eq 0 ]; then ok=$((ok+1)); else bad=$((bad+1)); fi; done; echo "pass=$ok fail=$bad"; }
build_demo "$wt/_demo_clean"; echo "DEMO unpatched: $(run_demo $wt/_demo_clean)"
git apply "$patch" || { echo "PATCH-DOES-NOT-APPLY"; cd /; git -C /repo worktree remove --force "$wt"; exit 3; }
echo "PATCH files: $(git diff --stat | tail -1)"
build_demo "$wt/_demo_patched"; echo "DEMO patched:   $(run_demo $wt/_demo_patched)"
cmake -G Ninja -B _b -DCMAKE_BUILD_TYPE=RelWithDebInfo . >/dev/null 2>&1 && cmake --build _b >/dev/null 2>&1 || echo "BUILD-FAILED"
for i in 1 2; do echo "CTEST run $i: $(ctest --test-dir _b -j4 --timeout 600 2>&1 | grep 'tests passed')"; done
cd /; git -C /repo worktree remove --force "$wt"
