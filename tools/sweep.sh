#!/bin/bash
# tools/sweep.sh <seed> [props...]: run the quick checks with one VERIF_SEED, evidence redirected to a scratch directory; prints one line per check
seed="$1"; shift
props="$@"; [ -z "$props" ] && props="C01 C02 C03 C04 C05 C06 C07 C08 C09 C10 C11 C12 C13 C14 C15 C16 C17 C18 C19 C20"
out=$(mktemp -d /tmp/sweep_XXXXXX)
for p in $props; do
  t0=$(date +%s)
  VERIF_SEED=$seed VERIF_OUT=$out ./check $p --tier "${TIER:-quick}" > $out/$p.log 2>&1; rc=$?
  echo "seed=$seed $p exit=$rc $(( $(date +%s) - t0 ))s $(tail -1 $out/$p.log | cut -c1-160)"
  [ $rc -ne 0 ] && grep -A2 '^VIOLATION\|^HARNESS\|^INCONCLUSIVE' $out/$p.log | head -12 | cut -c1-300
done
rm -rf $out
