#!/usr/bin/env python3
"""One-off (round 4, the five concurrency properties once more, after the enumerated schedules and the store-buffer simulation had been added): files the third batch of seeded changes (scratch worktrees /tmp/wt4/Cxx/MUTANT, created at /repo HEAD 6901080) as /verif/seeded/<Cxx-r2-n>/.
Changes that merely repeat one already kept from round 1 and one that does not compile in a release build are not filed (listed in SKIPPED)."""
import json, os, re, shutil, glob
WT = "/tmp/wt4"; OUT = "/verif/seeded"; LOG = "/tmp/vt/mutlog4"
T = [
 ("C02", 2, "page-queue.c _mi_page_queue_append calls _mi_page_try_use_delayed_free instead of _mi_page_use_delayed_free: mi_heap_delete no longer waits out a remote free in the DELAYED_FREEING state, it gives up after four yields",
  "the first remote free into a page of a heap is descheduled between loading page->xheap and its CAS on the heap's delayed list while the owner deletes that heap (and the heap descriptor's memory is re-used)", "", ["C10"],
  "a heap-delete race: reported by C10 (block-lost-after-heap-delete, debug assertion, TSan), not by C02's own scenarios, which do not delete heaps"),
 ("C02", 3, "arena-abandon.c mi_arena_segment_os_clear_abandoned reads the list links before it takes the lock: list membership is judged from stale values, two heaps can adopt the same OS segment",
  "disallow_arena_alloc=1 and reclaim-on-free, at least two abandoned OS segments, a thread descheduled between reading the links and the try-lock while another completes its reclaim", "", ["C09"],
  "reported by C09 (thread-exit scenario and tiny exit programs: TSan race, debug assertions, crash), not by the smaller sample of the same scenarios that C02 runs"),
 ("C08", 2, "free.c mi_free_block_delayed_mt installs (NULL, DELAYED_FREEING) for the first remote free instead of keeping the current list head: remote frees already on the page's thread-free list are wiped",
  "a page in NO_DELAYED_FREE state with remote frees on its thread-free list; the owner's _mi_free_delayed_block re-arms USE_DELAYED_FREE; another remote free arrives before the owner's collect a few instructions later", "", [], ""),
 ("C08", 3, "page.c _mi_heap_delayed_free_partial: the take-over CAS of the heap's delayed list uses a separate `expected` variable, so after a retry the owner processes the stale head while the list was set to NULL",
  "a first remote free into some page of the heap landing between the owner's load and its CAS on the delayed list (most visible with one-block pages)", "", [], ""),
 ("C10", 1, "page-queue.c _mi_page_queue_append waits for `no DELAYED_FREEING in flight` BEFORE it publishes the new heap in page->xheap (the two steps are swapped)",
  "a page of the deleted heap in the full queue; a remote free sets DELAYED_FREEING and reads the old heap in the gap between the deleter's flag check and its exchange, and pushes on the old heap's delayed list after the deleter read it", "", [], ""),
 ("C10", 2, "heap.c mi_heap_page_never_delayed_free (abandon path of mi_heap_delete for tagged / arena-bound heaps) uses the try variant that gives up after four yields: the page is not marked never-delayed-free",
  "a heap that cannot be merged into the backing heap (heap tag) with a full page; a remote free holds DELAYED_FREEING during the deleter's poll; the next remote free into the page is lost (or the first stays on the freed heap's list)", "", [],
  "missed (the concurrent heap-delete scenario only deleted untagged heaps): one round in four now deletes a tagged heap (all its blocks freed by the other threads) and the scenario ends with the quiescence checks (nothing abandoned, no arena block in use)"),
 ("C14", 1, "bitmap.c roll-back of a cross-word claim clears the bits of the first word with a plain load and store instead of the CAS loop: a concurrent claim or free in that word is lost",
  "an arena larger than 2 GiB and three threads: A claims across words and must roll back, C claims or frees another block of the first word between A's load and A's store", "-O2 -DNDEBUG -I<dir of the demo>", [], ""),
 ("C14", 3, "bitmap.c _mi_bitmap_try_claim (used by the purger) checks `bits already set` once before the CAS loop and not again after a failed CAS",
  "a purge pass concurrent with claims on one bitmap word: a worker's claim lands inside the purger's run between the purger's load and its CAS", "-O2 -DNDEBUG -I<dir of the demo>", [], ""),
]
SKIPPED = {
 "C02-r4-1": "same change as C02-r2-1", "C08-r4-1": "same idea as C08-1 (list head read once before the take-over CAS)", "C09-r4-1": "same change as C09-1", "C09-r4-2": "same change as C10-r2-3",
 "C09-r4-3": "same change as C12-r2-4", "C10-r4-3": "same change as C10-r2-3", "C14-r4-2": "same effect as C14-r2-2 (the purger's temporary claim leaves bits set when it fails)",
}
def confirm_from_log(prop, n):
    out = {}
    for suffix in (".reconfirm", ".log"):
        p = os.path.join(LOG, "%s_p%d%s" % (prop, n, suffix))
        if not os.path.exists(p): continue
        t = open(p).read()
        m = re.search(r"DEMO unpatched: (.*)", t); m2 = re.search(r"DEMO patched:\s+(.*)", t)
        if m and m2 and "pass=0" not in m.group(1):
            out["demo_unchanged_tree"] = m.group(1); out["demo_with_change"] = m2.group(1)
            out["ctest_with_change"] = re.findall(r"CTEST run \d: (.*)", t)
            break
    if "ctest_with_change" not in out:
        p = os.path.join(LOG, "%s_p%d.log" % (prop, n))
        if os.path.exists(p): out["ctest_with_change"] = re.findall(r"CTEST run \d: (.*)", open(p).read())
    return out
def main():
    for (prop, n, change, needs, flags, also, strengthened) in T:
        d = os.path.join(WT, prop, "MUTANT"); sid = "%s-r4-%d" % (prop, n); o = os.path.join(OUT, sid)
        os.makedirs(o, exist_ok=True)
        shutil.copy(os.path.join(d, "patch.diff" if n == 1 else "patch%d.diff" % n), os.path.join(o, "patch.diff"))
        suf = "" if n == 1 else str(n); demo = None
        for cand in ({("C14", 3): "demo2.c", ("C08", 2): "demo.c", ("C08", 3): "demo.c"}.get((prop, n), "demo%s.c" % suf), "demo%s.cpp" % suf, "demo.c"):
            if os.path.exists(os.path.join(d, cand)): demo = cand; break
        if demo: shutil.copy(os.path.join(d, demo), os.path.join(o, "demo" + os.path.splitext(demo)[1]))
        for h in glob.glob(os.path.join(d, "*.h")): shutil.copy(h, o)
        if os.path.exists(os.path.join(d, "notes.md")): shutil.copy(os.path.join(d, "notes.md"), os.path.join(o, "notes.md"))
        meta = {"id": sid, "property": prop, "change": change, "needs_to_manifest": needs, "also_checks": also,
                "written_by": "a fresh sub-agent (fourth round) that was given only the text of property %s and a scratch git worktree of /repo at 6901080 (section `Mutant %d` / patch%s of notes.md is its own description)" % (prop, n, suf),
                "demonstration": {"file": ("demo" + os.path.splitext(demo)[1]) if demo else None, "build": "gcc %s -I<tree>/include demo.c <tree>/src/static.c -lpthread" % (flags or "-O2 -DNDEBUG"), "exit": "0 = property held, non-zero = broken"},
                "confirmed_here": dict({"how": "tools/confirm_mutant.sh in a scratch worktree of /repo (removed afterwards): demonstration 5x on the unchanged tree, apply the change, demonstration 5x, cmake build + ctest twice"}, **confirm_from_log(prop, n)),
                "checks_strengthened": strengthened or None}
        json.dump(meta, open(os.path.join(o, "meta.json"), "w"), indent=1)
    json.dump(SKIPPED, open(os.path.join(OUT, "round4_not_filed.json"), "w"), indent=1)
    print("filed", len(T), "round-4 changes;", len(SKIPPED), "not filed")
main()
