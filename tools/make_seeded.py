#!/usr/bin/env python3
"""One-off: files the seeded changes delivered by the sub-agents (scratch worktrees under /tmp/wt/Cxx/MUTANT) as /verif/seeded/<id>/.
patch.diff = the change; demo.* = the agent's demonstration; notes.md = the agent's own description; meta.json = what it breaks,
what it needs to manifest, what was run here to confirm it.  (Results of the checks against each change: tools/run_seeded.py.)"""
import json, os, re, shutil, sys
WT = "/tmp/wt"; OUT = "/verif/seeded"; LOG = "/tmp/vt/mutlog"
T = [
 # id, prop, n, change, needs, demo flags / how, strengthened
 ("C01", 1, "page.c _mi_page_unfull clears the whole flags byte (full_aligned = 0) instead of only the in-full bit, so the page forgets that it holds interior-aligned blocks",
  "a page with over-allocated aligned blocks that becomes full, is parked in the full queue, and gets un-fulled by a free while other aligned blocks are live; then free/usable_size/realloc of one of those", "", ""),
 ("C01", 2, "heap.c mi_heap_absorb loops i < MI_BIN_FULL: pages in the full queue are not migrated on mi_heap_delete",
  "a non-backing heap with at least one completely full page in the full queue, mi_heap_delete while those blocks are live, then frees of them after the heap descriptor was reused", "", ""),
 ("C03", 1, "free.c _mi_page_ptr_unalign masks the pointer itself instead of its offset from page_start for power-of-two block sizes (and page.c no longer exempts huge pages)",
  "a power-of-two sized block whose page start is not aligned to the block size (huge page behind the segment header; alignment == 16 MiB) used through an interior pointer", "", ""),
 ("C03", 2, "alloc-aligned.c over-allocates only size + alignment - 16 bytes",
  "an over-allocated aligned request whose block start is less than 16-byte aligned relative to the alignment (offsets that are not multiples of 16, small blocks in 8-byte aligned classes)", "", ""),
 ("C03", 3, "segment.c mi_segment_span_allocate: the back-pointer slices of a large span are set for i < extra instead of i <= extra",
  "an interior pointer into the last of the first MI_MAX_SLICE_OFFSET_COUNT slices of a page: mi_malloc_aligned(n, 16 MiB) (alignment == MI_BLOCK_ALIGNMENT_MAX exactly)", "", ""),
 ("C04", 1, "alloc.c _mi_heap_realloc_zero zeroes only up to newsize instead of the usable size of the new block (undoes part of fix F1)",
  "a rezalloc/recalloc that moves the block, followed by an in-place growth into the slack between requested and usable size, on memory that was dirty before", "", ""),
 ("C04", 2, "page.c huge zero allocation zeroes size - padding bytes instead of the usable block size",
  "a zeroing allocation of a huge block from re-used dirty arena memory where the usable size exceeds the requested size, the slack then being relied on by a later in-place rezalloc", "", ""),
 ("C05", 1, "alloc.c realloc(p,0) returns the new minimal block without freeing p",
  "new size exactly 0 with a non-NULL pointer through a non-zeroing entry point, and an observer of the release (live block count / the old block still allocated)", "", "C05 gained must-fail re-allocations earlier; this one was caught without changes"),
 ("C05", 2, "alloc-aligned.c mi_heap_realloc_zero_aligned_at frees the old block also when the new allocation failed",
  "an aligned realloc (alignment > 8) on the move path whose inner allocation fails (size > PTRDIFF_MAX, non power-of-two alignment, huge alignment with offset, OS refusal); then the original is used", "",
  "missed at first: C05 gained must-fail re-allocations (oversize, bad alignment, count*size forms) whose original block is verified afterwards"),
 ("C06", 1, "alloc-aligned.c size check uses size + alignment - 1 (wraps around for sizes near SIZE_MAX)",
  "an aligned request with size within alignment-1 of SIZE_MAX: the sum wraps, the check passes and a tiny block is returned for a gigantic request", "", ""),
 ("C06", 2, "page.c mi_find_page checks the padded size instead of the requested size against MI_MAX_ALLOC_SIZE",
  "a build with padding (MI_SECURE=4 / MI_DEBUG) and a request in (PTRDIFF_MAX - padding, PTRDIFF_MAX] or one whose padded size wraps", "-O2 -DNDEBUG -DMI_SECURE=4", ""),
 ("C07", 1, "page.c _mi_malloc_generic retries after a failed allocation with huge_alignment 0",
  "an allocation with alignment > 16 MiB whose mmap is refused once: the retry returns an ordinary block and the caller's aligned pointer lies far outside it", "-O2 -DNDEBUG -Dmmap=my_mmap -Dmprotect=my_mprotect -Dmadvise=my_madvise -Dmunmap=my_munmap", ""),
 ("C07", 2, "arena.c mi_arena_try_alloc_at ignores a failed commit (initially_committed stays true)",
  "arenas that are not eagerly committed (arena_eager_commit=0) and a refused mprotect of the arena block when a committed segment is requested", "-O2 -DNDEBUG -Dmmap=my_mmap -Dmprotect=my_mprotect -Dmadvise=my_madvise -Dmunmap=my_munmap", ""),
 ("C08", 1, "page.c _mi_page_thread_free_collect returns early on an empty list using a plain read taken before the CAS loop",
  "a remote free that lands between the owner's read of the list head and its use: the owner misses it at the moment that decides whether the page is all free / full", "", ""),
 ("C08", 2, "heap.c mi_heap_absorb drains the delayed-free list of the absorbing heap instead of the absorbed one",
  "mi_heap_delete of a heap with full pages while other threads do the first remote free into those pages (blocks parked on the deleted heap's delayed list are lost)", "",
  "caught by the heap-delete oracle, which C08 now also runs (remote frees into a heap being deleted must not be lost)"),
 ("C09", 1, "heap.c mi_heap_collect_ex (abandon) drains the delayed frees before marking the pages never-delayed-free",
  "thread exit with full pages racing the first remote free into such a page inside the window between the drain and the marking", "", ""),
 ("C09", 2, "arena-abandon.c: an abandoned OS segment that is the only entry of abandoned_os_list is not recognised as a member",
  "arena allocation disabled or exhausted (OS segments), visit_abandoned enabled, exactly one abandoned OS segment at the time of reclaim", "", ""),
 ("C09", 3, "arena-abandon.c mi_arena_segment_clear_abandoned_at re-marks a foreign sub-process' segment in blocks_inuse instead of blocks_abandoned",
  "two sub-processes sharing an arena; a thread of one scans past a segment abandoned by the other: that segment can never be adopted or released again", "",
  "release builds missed it (only the MI_DEBUG assertion fired): the exit scenario now ends with one fresh thread per sub-process force-collecting and demands that no arena block stays in use"),
 ("C10", 1, "heap.c mi_heap_absorb drains all delayed frees of the deleted heap before (instead of after) its pages are appended",
  "mi_heap_delete racing the first remote free into a full page of that heap: the free lands on the deleted heap's delayed list after it was drained", "", ""),
 ("C10", 2, "heap.c mi_heap_absorb loops i < MI_BIN_FULL (same change as C01-2)",
  "a heap with pages in the full queue is deleted; ownership queries, frees and conservation of the migrated blocks", "", ""),
 ("C11", 2, "arena-abandon.c: single-entry abandoned_os_list (same change as C09-2)",
  "OS segments (no arena), visit_abandoned, one abandoned segment: it is never reclaimed, so its mapping is never unmapped", "", ""),
 ("C11", 3, "os.c _mi_os_alloc_aligned maps the rounded-up good size but records the un-rounded size in the memid (undoes part of fix F5)",
  "an OS allocation whose size is not a multiple of the good-size granularity: the later munmap leaves the tail mapped", "", ""),
 ("C12", 1, "heap.c _mi_heap_area_visit_blocks advances the block pointer only inside the `free map word == 0` shortcut branch wrongly (skips after a fully live word)",
  "a page that is not full, with an aligned run of 64 consecutive live blocks followed by further live blocks", "",
  "missed at first: C12 gained hole patterns (runs of >= 64 live blocks with a hole elsewhere) in many-block pages"),
 ("C12", 2, "arena-abandon.c mi_abandoned_visit_blocks: when the visitor stops the walk the current segment is not marked abandoned again",
  "visit_abandoned, abandoned segments, a walk whose visitor returns false followed by a complete walk", "",
  "missed at first: C12 gained abandoned walks with an early stop followed by a complete walk"),
 ("C13", 1, "segment.c mi_segment_commit clears the pending purge bits only in the branch that did not have to commit",
  "lazily committed segments (eager_commit=0, arena_eager_commit=0) with purge_delay > 0: a freed page's delayed purge survives the re-use of its slices by a larger page and later decommits live memory", "", ""),
 ("C13", 2, "segment.c mi_segment_os_alloc commits the segment only for huge-aligned requests instead of whenever `required > 0`",
  "a huge block (> 16 MiB) with ordinary alignment while eager commit is off and the backing memory is not committed (arena_eager_commit=0 or OS segments)", "", ""),
 ("C14", 1, "bitmap.c cross-word claim: the check of the final word is hoisted out of the CAS retry loop",
  "an arena with more than 64 blocks, 3+ block requests, and another thread claiming the low bits of the next word between the load and the CAS", "", ""),
 ("C14", 2, "bitmap.c roll-back of a partial cross-word claim loops `field-- > initial_field` (off by one: un-claims a word that was not claimed / skips one)",
  "an actual roll-back of a cross-word claim while other claims are live in the first word", "", ""),
 ("C14", 3, "bitmap.c cross-word search accepts a range that needs one more word than the bitmap has",
  "an arena whose block count is a multiple of 64, memory not known to be zero, the last word free only at its top and a request larger than that", "",
  "missed at first: the arena scenario now also uses arenas with 64-multiple block counts over memory not promised zero"),
 ("C15", 1, "segment.c mi_segment_try_reclaim reclaims a segment visited more than 3 times even when it is not suitable for the heap",
  "an exclusive arena whose segment was abandoned with live blocks, and an ordinary heap that needs a fresh segment four times while it is abandoned", "", ""),
 ("C15", 2, "arena.c _mi_arena_alloc_aligned: an arena-bound request falls back to the OS when the arena search is skipped",
  "an allocation from an arena-bound heap with alignment > 16 MiB (align_offset != 0) or with disallow_arena_alloc", "", ""),
 ("C15", 3, "arena.c mi_manage_os_memory_ex2 rounds the block count up instead of down",
  "a managed region whose size is not a multiple of 32 MiB, filled up to its last partial block", "", ""),
 ("C16", 1, "page-queue.c mi_heap_queue_first_update starts one word too low (overwrites the direct slot of the previous class)",
  "allocate class k, then class k+1, then class k again: a descending or repeated sweep over sizes, never a fresh ascending one", "",
  "missed at first: C16 gained history-dependent sweeps (descending, random, repeated) over a populated heap"),
 ("C16", 2, "segment.c back-pointer slices off by one (same change as C03-3)",
  "an interior pointer into the 256th slice of a huge page: alignment exactly 16 MiB", "", ""),
 ("C17", 1, "free.c double-free check walks local_free twice and never the free list",
  "a second free after the block migrated from local_free to the free list (generic-path allocation or forced collect in between) while it is not the next block handed out", "-O2 -DNDEBUG -DMI_SECURE=4",
  "missed at first: C17 gained a double free after migration to the free list"),
 ("C17", 2, "free.c mi_free_block_mt shrinks the padding before verifying it",
  "a block of 1..7 requested bytes, overflowed in [size, 8), freed by a thread that does not own the page", "-O2 -DNDEBUG -DMI_SECURE=4",
  "missed at first: C17 gained overflows of tiny blocks freed by another thread"),
 ("C17", 3, "free.c mi_list_contains follows links with the unchecked mi_block_nextx",
  "a forged link in a freed block that is reached first by the double-free walk (a second free in the same page) rather than by an allocation", "-O2 -DNDEBUG -DMI_SECURE=4",
  "missed at first: C17 gained a forged link that is met by the double-free walk in a private heap"),
 ("C18", 2, "segment.c _mi_commit_mask_next_run keeps a stale bit offset when it moves on to the next 64-bit field",
  "a pending-purge mask with a run that ends inside a 64-slice group whose rest is not pending, followed by a run in the low part of a later group", "-O2 -DNDEBUG -Dclock_gettime=my_clock_gettime -Dmadvise=my_madvise",
  "caught marginally by the percentage yardstick at first; C18 gained the exact `holes` scenario (hole patterns in one segment, every freed page must be returned)"),
 ("C18", 3, "segment.c mi_segment_commit re-arms the purge timer on every commit call (tests commit_mask instead of purge_mask)",
  "a page freed inside a live segment while the thread keeps allocating new pages in that segment at intervals shorter than the delay", "-O2 -DNDEBUG -Dclock_gettime=my_clock_gettime -Dmadvise=my_madvise",
  "missed at first: C18 gained the exact `trickle` scenario"),
 ("C19", 1, "alloc-override.c: operator new[](size_t, align_val_t, nothrow_t) forwards to the throwing mi_new_aligned",
  "the override build, exactly this operator form, and a failing allocation without a new-handler", "LD_PRELOAD", ""),
 ("C19", 2, "alloc-posix.c mi_pvalloc checks for overflow after rounding up (which already wrapped)",
  "pvalloc with a size within one page of SIZE_MAX", "LD_PRELOAD", ""),
 ("C19", 3, "alloc-posix.c mi_posix_memalign accepts alignments smaller than sizeof(void*)",
  "posix_memalign with alignment 1, 2 or 4: must be EINVAL with the out-parameter untouched", "LD_PRELOAD", ""),
 ("C20", 1, "stats.c mi_heap_buf_print off by one: the terminator can be written at buf[size]",
  "mi_stats_get_json with a caller buffer whose size equals the cumulative length where one internal message ends", "", ""),
 ("C20", 2, "options.c ignores overflow of the T (TiB) suffix multiplication",
  "a KiB-valued option with a T suffix and a number whose product wraps modulo 2^64 to something small", "",
  "missed at first: C20 gained overflow-boundary forms for every suffix"),
 ("C20", 3, "libc.c mi_out_alignright checks only the text, not text + padding, against the buffer end",
  "a right-aligned width field whose text fits in the remaining buffer but whose padded form does not (small buffers through _mi_snprintf)", "", ""),
 ("C02", 1, "free.c mi_free_block_delayed_mt links the block to a fresh read of the list head while the CAS still expects the earlier snapshot (ABA)",
  "three threads on one page: inside one remote free's load..CAS window another thread pushes a block AND the owner collects the list, so the word returns to its first value", "",
  "missed by the randomised schedulers: C02 gained tiny programs whose preemptions are enumerated (two preemptions of one freeing thread within 3 of its switch points, every choice of who runs in between)"),
 ("C02", 2, "free.c reset of the DELAYED_FREEING state rebuilds the word from a fresh read of the list head (ABA)",
  "first remote free into a page in use-delayed state; inside its reset window another thread pushes directly and the owner collects", "",
  "missed by the randomised schedulers: caught by the enumerated tiny programs (see C02-1)"),
]
OBSOLETE = [
 ("C11", 1, "arena.c mi_arenas_try_purge returns early when the global purge expiry is 0 even for a forced purge",
  "depended on defect F15 (global expiry reset to 0 while an arena still had a purge pending). On the repaired tree the global expiry is 0 only when no arena has anything pending, so the change no longer breaks the property (the agent's demonstration passes with it). The change led to finding F15."),
 ("C18", 1, "arena.c mi_arena_purge_range reports `fully purged` only for runs that start at bit 0",
  "depended on defect F15 as well: the stale re-armed per-arena expiry only stranded later purges because the global expiry was reset to 0 regardless. On the repaired tree the arena is simply visited again (the demonstration passes)."),
]
def find_demo(d, n):
    suf = "" if n == 1 else str(n)
    for cand in ("demo%s.c" % suf, "demo%s.cpp" % suf, "demo.c", "demo.cpp"):
        if os.path.exists(os.path.join(d, cand)): return cand
    return None
def confirm_from_log(prop, n):
    p = os.path.join(LOG, "%s_p%d.log" % (prop, n))
    if not os.path.exists(p): return {}
    t = open(p).read()
    out = {}
    m = re.search(r"DEMO unpatched: (.*)", t); out["demo_unchanged_tree"] = m.group(1) if m else None
    m = re.search(r"DEMO patched:\s+(.*)", t); out["demo_with_change"] = m.group(1) if m else None
    out["ctest_with_change"] = re.findall(r"CTEST run \d: (.*)", t)
    return out
def main():
    os.makedirs(OUT, exist_ok=True)
    for (prop, n, change, needs, flags, strengthened) in T:
        d = os.path.join(WT, prop, "MUTANT"); sid = "%s-%d" % (prop, n); o = os.path.join(OUT, sid)
        os.makedirs(o, exist_ok=True)
        pf = "patch.diff" if n == 1 else "patch%d.diff" % n
        shutil.copy(os.path.join(d, pf), os.path.join(o, "patch.diff"))
        demo = find_demo(d, n)
        if demo: shutil.copy(os.path.join(d, demo), os.path.join(o, "demo" + os.path.splitext(demo)[1]))
        if os.path.exists(os.path.join(d, "notes.md")): shutil.copy(os.path.join(d, "notes.md"), os.path.join(o, "notes.md"))
        conf = confirm_from_log(prop, n)
        meta = {"id": sid, "property": prop, "change": change, "needs_to_manifest": needs,
                "written_by": "a fresh sub-agent that was given only the text of property %s and a scratch git worktree of /repo (section `Mutant %d` of notes.md is its own description)" % (prop, n),
                "demonstration": {"file": ("demo" + os.path.splitext(demo)[1]) if demo else None, "build": ("LD_PRELOAD of the override library built from the tree (see notes.md)" if flags == "LD_PRELOAD" else
                                  "gcc %s -I<tree>/include demo.c <tree>/src/static.c -lpthread  (g++ -std=gnu++17 for .cpp)" % (flags or "-O2 -DNDEBUG")), "exit": "0 = property held, non-zero = broken"},
                "confirmed_here": {"how": "tools/confirm_mutant.sh in a scratch worktree of /repo (removed afterwards): demonstration 5x on the unchanged tree, apply the change, demonstration 5x, cmake build + ctest twice",
                                   **conf},
                "checks_strengthened": strengthened or None}
        if flags == "LD_PRELOAD":
            meta["confirmed_here"].update({"demo_unchanged_tree": "exit 0 under LD_PRELOAD of the clean override library", "demo_with_change": "exit 134 (C19-1) / exit 1 (C19-2, C19-3)", "how": "override library built from a scratch copy with and without the change, demos run under LD_PRELOAD; ctest with the change run by the sub-agent (3x passed) and again by tools/run_seeded.py"})
        if prop == "C06" and n == 2:
            meta["confirmed_here"].update({"demo_unchanged_tree": "pass=5 fail=0", "demo_with_change": "pass=0 fail=5 (needs -DMI_SECURE=4; with plain -O2 -DNDEBUG the change has no effect because there is no padding)"})
        json.dump(meta, open(os.path.join(o, "meta.json"), "w"), indent=1)
    ob = os.path.join(OUT, "obsolete"); os.makedirs(ob, exist_ok=True)
    for (prop, n, change, why) in OBSOLETE:
        d = os.path.join(WT, prop, "MUTANT"); sid = "%s-%d" % (prop, n); o = os.path.join(ob, sid); os.makedirs(o, exist_ok=True)
        shutil.copy(os.path.join(d, "patch.diff" if n == 1 else "patch%d.diff" % n), os.path.join(o, "patch.diff"))
        demo = find_demo(d, n)
        if demo: shutil.copy(os.path.join(d, demo), os.path.join(o, "demo" + os.path.splitext(demo)[1]))
        json.dump({"id": sid, "property": prop, "change": change, "status": "not kept as a seeded change", "why": why}, open(os.path.join(o, "meta.json"), "w"), indent=1)
    print("filed", len(T), "changes,", len(OBSOLETE), "obsolete")
main()
