#!/bin/bash
# tools/run_benign.sh <benign/NAME.diff> [Cxx ...]
# The opposite of tools/eval_mutant.sh: applies a change that PRESERVES every property (retuned defaults and constants, reordered
# traversals, reworded diagnostics) to a scratch copy of /repo's sources (never to /repo itself) and runs the quick checks against it.
# Every check must exit 0 without a VIOLATION line: an alarm here is a false alarm of the machinery (DESIGN.md section 7.4).
set -u
patch="$(readlink -f "$1")"; shift
props="$@"; [ -z "$props" ] && props="C01 C02 C03 C04 C05 C06 C07 C08 C09 C10 C11 C12 C13 C14 C15 C16 C17 C18 C19 C20"
scr=$(mktemp -d /tmp/ben_XXXXXX)
cp -r /repo/src /repo/include "$scr"/
( cd "$scr" && patch -p1 -s < "$patch" ) || { echo "PATCH-FAILED"; rm -rf "$scr"; exit 3; }
out="$scr/out"; mkdir -p "$out"; bad=0
for p in $props; do
  t0=$(date +%s)
  VERIF_REPO="$scr" VERIF_OUT="$out" VERIF_SEED="${VERIF_SEED:-1}" /verif/check "$p" --tier "${TIER:-quick}" > "$out/$p.log" 2>&1; rc=$?
  echo "BENIGN $(basename "$patch" .diff) $p exit=$rc $(( $(date +%s) - t0 ))s $(tail -1 "$out/$p.log" | cut -c1-150)"
  if [ $rc -ne 0 ]; then bad=1; grep -B1 -A3 '^VIOLATION\|^HARNESS\|^INCONCLUSIVE\|  key=' "$out/$p.log" | head -40 | cut -c1-500; mkdir -p /tmp/benign_logs; cp "$out/$p.log" /tmp/benign_logs/$(basename "$patch" .diff)_$p.log; fi
done
rm -rf "$scr"
exit $bad
