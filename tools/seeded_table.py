#!/usr/bin/env python3
"""Rewrites the table of DESIGN.md section 7.1 (between the SEEDED-TABLE markers) from seeded/*/meta.json and seeded/RESULTS.json."""
import json, os, re
V = os.path.dirname(os.path.dirname(os.path.abspath(__file__)))
res = json.load(open(os.path.join(V, "seeded", "RESULTS.json")))
rows = []
ids = sorted(d for d in os.listdir(os.path.join(V, "seeded")) if os.path.isfile(os.path.join(V, "seeded", d, "meta.json")))
ncaught = 0
for sid in ids:
    m = json.load(open(os.path.join(V, "seeded", sid, "meta.json")))
    r = res.get(sid, {})
    parts = []
    for chk, v in r.get("checks", {}).items():
        keys = ", ".join("`%s`" % re.sub(r":(rel|dbg|sec|asan|rel-h|dbg-h|tsan-h|ovr-[a-z-]+)(:|$)", r":\2", k).rstrip(":") for k in v["violation_keys"][:2])
        parts.append("%s: %s%s" % (chk, "**caught**" if v["caught"] else "MISSED", (" (" + keys + ")") if keys else ""))
    if r.get("checks", {}).get(m["property"], {}).get("caught") or any(v["caught"] for v in r.get("checks", {}).values()): ncaught += 1
    st = m.get("checks_strengthened") or "—"
    rows.append("| %s | %s | %s | %s | %s |" % (sid, m["change"].replace("|", "/"), m["needs_to_manifest"].replace("|", "/"), "; ".join(parts) or "not run", st.replace("|", "/")))
table = ("%d seeded changes are kept (plus 3 under `seeded/obsolete/`), every one confirmed here (demonstration passes on the unchanged tree and fails with the change; the repository's 61 tests pass with it); "
         "%d are reported as a VIOLATION by the quick tier of their property's check (last run of `tools/run_seeded.py`, results in `seeded/RESULTS.json`). "
         "The last column says which of them the checks missed when first tried and what was added.\n\n"
         "| id | change | needs, to manifest | quick check outcome (first two oracle keys) | check strengthened? |\n|---|---|---|---|---|\n" % (len(ids), ncaught)) + "\n".join(rows) + "\n"
p = os.path.join(V, "DESIGN.md")
s = open(p).read()
if "SEEDED_TABLE_PLACEHOLDER" in s:
    s = s.replace("SEEDED_TABLE_PLACEHOLDER", "<!-- SEEDED-TABLE-BEGIN -->\n" + table + "<!-- SEEDED-TABLE-END -->")
else:
    s = re.sub(r"<!-- SEEDED-TABLE-BEGIN -->.*?<!-- SEEDED-TABLE-END -->", lambda m_: "<!-- SEEDED-TABLE-BEGIN -->\n" + table + "<!-- SEEDED-TABLE-END -->", s, flags=re.S)
open(p, "w").write(s)
print("table with", len(ids), "rows,", ncaught, "caught")
