#!/usr/bin/env python3
"""tools/run_seeded.py [--only ID,ID] [--tier quick] [--ctest] [--seed N] [--results FILE] [--merge F1,F2,...]
Runs the checks against every seeded change in /verif/seeded/<id>/: the change is applied to a scratch copy of /repo's sources (never to /repo),
the check of its property (plus `also_checks` of meta.json) is run with VERIF_REPO/VERIF_OUT pointing at scratch directories, and the outcome
(exit code, violation keys) is written to seeded/RESULTS.json and seeded/RESULTS.md.  --ctest additionally builds the changed tree with cmake in a
scratch git worktree and runs the repository's test suite (expected to pass: that is what makes the change a test-suite-invisible one)."""
import json, os, re, shutil, subprocess, sys, tempfile, time
VERIF = os.path.dirname(os.path.dirname(os.path.abspath(__file__)))
SEEDED = os.path.join(VERIF, "seeded")
def arg(name, d=None):
    return sys.argv[sys.argv.index(name) + 1] if name in sys.argv else d
def main():
    only = arg("--only"); only = set(only.split(",")) if only else None
    tier = arg("--tier", "quick"); seed = arg("--seed", "1")
    res_path = arg("--results", os.path.join(SEEDED, "RESULTS.json"))      # parallel streams write to files of their own; --merge f1,f2,... folds them into RESULTS.json
    results = json.load(open(res_path)) if os.path.exists(res_path) else {}
    if arg("--merge"):
        for f in arg("--merge").split(","):
            if os.path.exists(f): results.update(json.load(open(f)))
        json.dump(results, open(res_path, "w"), indent=1, sort_keys=True)
        only = {"<none>"}       # merge only: run nothing (an empty set would mean "all")
    ids = sorted(d for d in os.listdir(SEEDED) if os.path.isfile(os.path.join(SEEDED, d, "meta.json")))
    for sid in ids:
        if only and sid not in only: continue
        meta = json.load(open(os.path.join(SEEDED, sid, "meta.json")))
        scr = tempfile.mkdtemp(prefix="seed_", dir="/tmp")
        try:
            shutil.copytree("/repo/src", os.path.join(scr, "src")); shutil.copytree("/repo/include", os.path.join(scr, "include"))
            p = subprocess.run(["patch", "-p1", "-s", "-i", os.path.join(SEEDED, sid, "patch.diff")], cwd=scr, capture_output=True, text=True)
            entry = {"property": meta["property"], "tier": tier, "seed": int(seed), "repo_head": subprocess.run(["git", "-C", "/repo", "rev-parse", "--short", "HEAD"], capture_output=True, text=True).stdout.strip(),
                     "verif_head": subprocess.run(["git", "-C", VERIF, "rev-parse", "--short", "HEAD"], capture_output=True, text=True).stdout.strip(), "checks": {}}
            if p.returncode != 0:
                entry["error"] = "patch does not apply: " + (p.stdout + p.stderr)[-300:]
            else:
                for chk in [meta["property"]] + list(meta.get("also_checks", [])):
                    out = os.path.join(scr, "out_" + chk); os.makedirs(out, exist_ok=True)
                    t0 = time.time()
                    r = subprocess.run([os.path.join(VERIF, "check"), chk, "--tier", tier], env=dict(os.environ, VERIF_REPO=scr, VERIF_OUT=out, VERIF_SEED=seed), capture_output=True, text=True)
                    keys = sorted(set(re.findall(r"^  key=(.*)$", r.stdout, re.M)))
                    first = re.search(r"^  key=.*\n  (.*)$", r.stdout, re.M)
                    entry["checks"][chk] = {"exit": r.returncode, "caught": r.returncode == 1, "violation_keys": keys[:8], "first_detail": (first.group(1)[:400] if first else None), "wall_s": round(time.time() - t0, 1)}
                if "--ctest" in sys.argv:
                    wt = tempfile.mkdtemp(prefix="seedwt_", dir="/tmp"); os.rmdir(wt)
                    subprocess.run(["git", "-C", "/repo", "worktree", "add", "-q", "--detach", wt, "HEAD"], check=True)
                    try:
                        subprocess.run(["git", "apply", os.path.join(SEEDED, sid, "patch.diff")], cwd=wt, check=True)
                        b = subprocess.run("cmake -G Ninja -B _b -DCMAKE_BUILD_TYPE=RelWithDebInfo . >/dev/null 2>&1 && cmake --build _b >/dev/null 2>&1", shell=True, cwd=wt)
                        t = subprocess.run("ctest --test-dir _b -j4 --timeout 600 2>&1 | grep 'tests passed'", shell=True, cwd=wt, capture_output=True, text=True)
                        entry["ctest_with_change"] = ("BUILD FAILED" if b.returncode else t.stdout.strip())
                    finally:
                        subprocess.run(["git", "-C", "/repo", "worktree", "remove", "--force", wt])
            results[sid] = entry
            print(sid, {k: (v["exit"], v["violation_keys"][:2]) for k, v in entry["checks"].items()}, entry.get("ctest_with_change", ""), entry.get("error", ""), flush=True)
        finally:
            shutil.rmtree(scr, ignore_errors=True)
        json.dump(results, open(res_path, "w"), indent=1, sort_keys=True)
    # table
    with open(os.path.join(SEEDED, "RESULTS.md"), "w") as f:
        f.write("| change | property | check outcome (exit 1 = VIOLATION reported) | oracle keys that fired |\n|---|---|---|---|\n")
        for sid in sorted(results):
            e = results[sid]
            for chk, v in e.get("checks", {}).items():
                f.write("| %s | %s | %s: exit %d in %ss | %s |\n" % (sid, e["property"], chk, v["exit"], v["wall_s"], "; ".join("`%s`" % k for k in v["violation_keys"][:4])))
    missed = [s for s, e in results.items() if e.get("checks") and not any(v["caught"] for v in e["checks"].values())]
    own = [s for s, e in results.items() if e.get("checks") and not e["checks"][e["property"]]["caught"] and s not in missed]
    print("changes:", len(results), "caught by no check:", missed, "| caught only by another property's check:", own)
main()
