#!/usr/bin/env python3
"""One-off (round 5, after the second bug-hunt round: properties with few kept changes or with oracles added late -- C01, C06, C11, C15, C16, C17, C20): files the
seeded changes of the scratch worktrees /tmp/wt7/Cxx/MUTANT (created at /repo HEAD 8e58ce2) as /verif/seeded/<Cxx-r5-n>/.
Duplicates of kept changes and one change without any effect through the public API are not filed (listed in SKIPPED)."""
import json, os, re, shutil, glob
WT = "/tmp/wt7"; OUT = "/verif/seeded"; LOG = "/tmp/vt/mutlog5"
SEC = "-O2 -DNDEBUG -DMI_SECURE=4"
T = [
 ("C01", 1, "segment.c _mi_segment_page_start_from_slice computes the page size from the un-rounded start offset: `reserved` is one block too many for classes whose offset is not a multiple of 16, the last block of the page lies in the next slice",
  "a page of the 8-byte class (release build) filled to its very last block (8189 live blocks; pages are extended lazily) and a live block at the start of the following slice", "", ["C16"],
  "missed by C01 and C16: histories rarely keep 8189 tiny blocks live, and the C16 enumeration never filled a page completely. C01/C12 histories now fill one page of a tiny class completely every 1 500 operations; C16 fills two pages of every class and checks the blocks at each page end"),
 ("C01", 2, "page.c _mi_page_unfull clears the whole flags byte instead of the in-full bit: a page that leaves the full queue forgets that it holds interior (over-aligned) pointers",
  "an over-aligned block with an interior pointer in a page that becomes full and is un-fulled by a free of another block; then usable_size / free of the interior pointer", "", ["C03"], ""),
 ("C01", 3, "heap.c mi_heap_absorb loops to i < MI_BIN_FULL: the full-page queue of a deleted heap is not transferred, its pages keep pointing at the freed heap object",
  "a heap with a completely full page, mi_heap_delete, a block that re-uses the memory of the heap object, a free of a block of the formerly full page", "", ["C10"], ""),
 ("C06", 1, "page.c _mi_malloc_generic: the guard of the collect-and-retry path is rewritten as size <= MI_MAX_ALLOC_SIZE + MI_PADDING_SIZE and ignores that size+padding wrapped",
  "a build with padding, a request in [SIZE_MAX-7, SIZE_MAX] through a plain entry point; only a side-effect oracle sees it (the result is NULL either way)", SEC, [],
  "caught by the forced-collect oracle added with F34 an hour before this change was written"),
 ("C06", 2, "alloc-aligned.c: the power-of-two test of the alignment moves into the slow path; the small-block fast path runs with an unvalidated alignment",
  "alignment 3,5,6,7,9,12,24 with alignment <= size <= 1024 on a warm heap (a free block of the class whose address happens to be a multiple)", "", [], ""),
 ("C06", 3, "alloc-aligned.c: the too-large test becomes (size + MI_PADDING_SIZE) > MI_MAX_ALLOC_SIZE, which wraps for the last 8 sizes below SIZE_MAX",
  "a build with padding, size in [SIZE_MAX-7, SIZE_MAX], and an offset != 0 or an alignment in (4096, 16 MiB]", SEC, [], ""),
 ("C11", 1, "arena.c mi_arena_try_purge: the scan for a run of purge bits stops one bit early, so bit 63 of a bitmap word is never purged: arena block 63 stays committed for ever",
  "an arena of at least 64 blocks (>= 2 GiB; the automatic ones have 32), a workload that reaches block 63, a delayed or forced purge (purge_delay=0 hides it)", "", ["C18"],
  "missed: no C11 configuration had an arena of more than 32 blocks in use. New workload 6: 72 one-segment blocks live at once with MIMALLOC_ARENA_RESERVE=4GiB (which also showed that the value \"65536\" of the existing small-arena configuration means bytes, not KiB)"),
 ("C11", 2, "arena-abandon.c mi_arena_segment_os_clear_abandoned: the test `or it is the list head` is dropped: an abandoned OS segment that is the only / last entry of the list can never be reclaimed",
  "segments straight from the OS (arenas disallowed), a thread that exits with live blocks, the blocks freed later by another thread, forced collect", "", ["C09"], ""),
 ("C11", 3, "init.c mi_thread_data_zalloc zeroes re-used cached thread metadata with sizeof(*td) and wipes its memid: the later _mi_os_free does nothing, 4 KiB leak per re-used thread",
  "a thread exits, a later thread takes its metadata from the cache and exits too, then a forced collect (or more than 32 exited threads)", "", [], ""),
 ("C15", 1, "segment.c mi_segment_try_reclaim: forced adoption after the third visit no longer tests whether the segment's memory suits the heap",
  "a thread with a heap bound to an exclusive arena exits with live blocks; another thread's default heap needs a fresh segment three separate times", "", [], ""),
 ("C15", 2, "arena.c mi_manage_os_memory_ex2: after aligning an unaligned start upwards the size is not reduced: the arena reaches beyond the memory it was given",
  "a start address that is not 32 MiB aligned, with a gap that crosses a block boundary; the arena filled past its first legitimate block", "", [], ""),
 ("C15", 3, "arena.c _mi_arena_alloc_aligned: the `no OS fallback for a bound heap` test is only made on the path that tried the arenas",
  "an arena-bound heap and an alignment above 16 MiB (the dedicated huge-segment path that the arena code cannot serve)", "", [], ""),
 ("C15", 4, "segment.c mi_segment_reclaim hands tagged pages to the heap with the same tag without testing that heap's arena binding",
  "heap tags, a thread that exits with live blocks in a tagged heap, an adopting thread whose same-tag heap has another arena binding than the memory", "", [], ""),
 ("C16", 1, "page.c mi_page_fresh_alloc: a huge page's block size is the rounded request instead of the whole over-allocated page: _mi_page_ptr_unalign returns a wrong block start",
  "an alignment above 16 MiB with a size such as 12288, 20480 or above 16 KiB; then usable_size / realloc of the pointer", "", ["C03"],
  "missed by C16 (the enumeration had no alignments above 16 MiB), caught by C03; C16 now enumerates alignments 32-128 MiB x 11 sizes"),
 ("C16", 3, "page-queue.c mi_heap_queue_first_update starts one word too early: updating a class's direct-lookup slots overwrites the top slot of the previous class",
  "a request at the top word of its class issued after the next class's queue head was last set (mi_malloc(64) x4, mi_malloc(72), mi_malloc(64)): the class served depends on the history", "", [], ""),
 ("C17", 1, "free.c mi_list_contains: the walk of the double-free check gets a `cycle guard` bounded by page->used (live blocks, not free ones)",
  "the doubly freed block sits deeper in the free list than the page has live blocks (few live, many freed, the second free hits an early-freed block)", SEC, [], ""),
 ("C17", 2, "free.c mi_free_block_mt shrinks the padding to sizeof(mi_block_t) BEFORE the padding check: the check starts at byte 8",
  "a request of 1..7 bytes, a foreign byte at offset size..7, and the free done by a thread that does not own the page", SEC, [], ""),
 ("C17", 3, "internal.h mi_is_in_same_page: upper bound `<=` instead of `<`: a link that decodes to exactly one past the page area is followed",
  "a link forged WITH the page's keys to decode to the first byte after the page area (random garbage never hits it); the address handed out must be checked, the EFAULT still comes one allocation later", SEC, [],
  "missed: the forged links of seq_harden.cpp are random 64-bit values. New driver drv_forge.c (allocator included as one translation unit, secure build) forges links with the page's own keys to decode one past the end of / just before / just beyond the area and demands a report and that only blocks of the heap's own pages are handed out"),
 ("C20", 1, "stats.c mi_heap_buf_print: buffer-full test `used >= size` instead of `used + 1 >= size`: mi_stats_get_json writes the terminator at buf[size] for 77 of the sizes 1..3000",
  "a caller buffer whose size equals the output length at the end of one of the internally printed pieces; a sweep over all sizes with a guard byte", "", [], ""),
 ("C20", 2, "prim.c _mi_prim_getenv: `does not fit` test > instead of >=: values longer than the buffer are cut to 64 characters and parsed",
  "an environment value of 65 or more characters whose first 64 characters are themselves well-formed", "", [],
  "missed: the C20 value list had over-long values only with a malformed prefix. Added: 64 characters (parsed), 65 characters with a well-formed 64-character prefix (default), 2 000 zeros + digit, blanks + digit"),
 ("C20", 3, "options.c mi_option_init marks an option with a malformed value as initialised only AFTER the warning, which itself reads the options verbose / show_errors",
  "a malformed value for MIMALLOC_VERBOSE or MIMALLOC_SHOW_ERRORS: unbounded recursion at load time", "", [], ""),
]
SKIPPED = {
 "C16-r5-2": "same change as C01-r5-1 (page size computed before the start offset is rounded)",
 "C20-r5-4": "libc.c mi_out_alignright guard: no call site in the allocator reaches it (its demonstration drives the internal _mi_snprintf directly), so no public behaviour changes",
}
def confirm_from_log(prop, n):
    out = {}
    for suffix in (".reconfirm", ".log"):
        p = os.path.join(LOG, "%s_p%d%s" % (prop, n, suffix))
        if not os.path.exists(p): continue
        t = open(p).read()
        m = re.search(r"DEMO unpatched: (.*)", t); m2 = re.search(r"DEMO patched:\s+(.*)", t)
        if m and m2 and "pass=0" not in m.group(1):
            out["demo_unchanged_tree"] = m.group(1); out["demo_with_change"] = m2.group(1)
            out["ctest_with_change"] = re.findall(r"CTEST run \d: (.*)", t)
            break
    if "ctest_with_change" not in out:
        p = os.path.join(LOG, "%s_p%d.log" % (prop, n))
        if os.path.exists(p): out["ctest_with_change"] = re.findall(r"CTEST run \d: (.*)", open(p).read())
    return out
def main():
    for (prop, n, change, needs, flags, also, strengthened) in T:
        d = os.path.join(WT, prop, "MUTANT"); sid = "%s-r5-%d" % (prop, n); o = os.path.join(OUT, sid)
        os.makedirs(o, exist_ok=True)
        shutil.copy(os.path.join(d, "patch.diff" if n == 1 else "patch%d.diff" % n), os.path.join(o, "patch.diff"))
        suf = "" if n == 1 else str(n); demo = None
        for cand in ("demo%s.c" % suf, "demo%s.cpp" % suf, "demo.c"):
            if os.path.exists(os.path.join(d, cand)): demo = cand; break
        if demo: shutil.copy(os.path.join(d, demo), os.path.join(o, "demo" + os.path.splitext(demo)[1]))
        for h in glob.glob(os.path.join(d, "*.h")): shutil.copy(h, o)
        if os.path.exists(os.path.join(d, "notes.md")): shutil.copy(os.path.join(d, "notes.md"), os.path.join(o, "notes.md"))
        meta = {"id": sid, "property": prop, "change": change, "needs_to_manifest": needs, "also_checks": also,
                "written_by": "a fresh sub-agent (fifth round) that was given only the text of property %s and a scratch git worktree of /repo at 8e58ce2 (section `Mutant %d` / patch%s of notes.md is its own description)" % (prop, n, suf),
                "demonstration": {"file": ("demo" + os.path.splitext(demo)[1]) if demo else None, "build": "gcc %s -I<tree>/include demo.c <tree>/src/static.c -lpthread" % (flags or "-O2 -DNDEBUG"), "exit": "0 = property held, non-zero = broken"},
                "confirmed_here": dict({"how": "tools/confirm_mutant.sh in a scratch worktree of /repo (removed afterwards): demonstration 5x on the unchanged tree, apply the change, demonstration 5x, cmake build + ctest twice"}, **confirm_from_log(prop, n)),
                "checks_strengthened": strengthened or None}
        json.dump(meta, open(os.path.join(o, "meta.json"), "w"), indent=1)
    json.dump(SKIPPED, open(os.path.join(OUT, "round5_not_filed.json"), "w"), indent=1)
    print("filed", len(T), "round-5 changes;", len(SKIPPED), "not filed")
main()
