#!/usr/bin/env python3
"""One-off (round 7: C01, C03, C08, C09, C11, C12, C13, C18; 35-minute agents with a per-property diversity hint): files the new seeded changes of the scratch worktrees
/tmp/wt10/Cxx/MUTANT (created at /repo HEAD 3b70e1f) as /verif/seeded/<Cxx-r7-n>/.  9 of the 23 delivered changes repeat kept ones (listed in SKIPPED)."""
import json, os, re, shutil, glob
WT = "/tmp/wt10"; OUT = "/verif/seeded"; LOG = "/tmp/r7/confirm"
T = [
 ("C01", 3, "alloc.c mi_heap_strndup sizes the block n+1 instead of len+1: with a limit of SIZE_MAX the size wraps to 0, an 8-byte block is returned and the copy overruns it",
  "mi_strndup(s, SIZE_MAX) (a limit is not a size) with strlen(s) >= 8", "", ["C19"],
  "missed: the histories only used limits up to strlen+16 and the override matrix strlen+10. Added: limits SIZE_MAX, SIZE_MAX-1, SIZE_MAX-7, SIZE_MAX/2(+1), 2^32, 2^48 in one strndup call of six (drv_seq) and (size_t)-1 for a third of the sizes of the override matrix"),
 ("C03", 1, "alloc-aligned.c fast path of mi_heap_malloc_zero_aligned_at (an already aligned free block is reused) passes size instead of padsize to _mi_page_malloc in the non-zeroing arm: the recorded requested size is 8 bytes short",
  "a padded build (MI_SECURE>=3 or MI_DEBUG>=1), size <= 1 KiB, alignment <= size, a page of the class with an aligned free head block, a non-zeroing aligned entry point: mi_usable_size < n and a legal write of n bytes is reported as overflow", "-O2 -DNDEBUG -DMI_SECURE=4", [], ""),
 ("C03", 3, "alloc-aligned.c mi_heap_realloc_zero_aligned_at: the `plain realloc is good enough` shortcut tests alignment <= MI_MAX_ALIGN_SIZE (16) instead of <= sizeof(uintptr_t)",
  "alignment exactly 16, a new size of 1..8 bytes and a realloc that moves (every second 8-byte block is only 8-byte aligned)", "", [], ""),
 ("C08", 1, "page.c _mi_page_thread_free_collect: the length bound of the detached thread-free list is `count >= max_count` instead of `>`: a list of exactly page->capacity blocks is dropped",
  "a completely used page abandoned by a terminated thread whose blocks are ALL freed by other threads before it is adopted (with a live owner the first remote free goes to the heap's delayed list, so the list never holds capacity blocks)", "", ["C02"], ""),
 ("C08", 2, "segment.c mi_segment_reclaim: _mi_page_use_delayed_free(page, MI_USE_DELAYED_FREE, false) instead of override_never=true: adopted pages keep the sticky NEVER_DELAYED_FREE state, remote frees into an adopted page in the full queue never un-full it",
  "a thread exits with live blocks, another thread adopts its (completely used) pages, they move to the full queue, a third thread frees some of their blocks, the owner collects and allocates that size again: the freed blocks are not reused (new pages instead)", "", ["C02"],
  "missed by C08 (the debug assertion in _mi_page_reclaim made C02 report it): no scenario judged reuse after adoption. Added: the exact scenario `reuse-after-remote-free` (drv_seq profile; own and adopted pages, four free patterns, area count before the frees vs after the re-allocation)"),
 ("C09", 2, "segment.c _mi_segment_attempt_reclaim (reclaim-on-free): the same-sub-process test is applied to arena segments only",
  "abandoned_reclaim_on_free=1, OS-allocated segments (arena allocation disabled or arenas too small), and a thread of ANOTHER sub-process freeing one of >= 2 live blocks of a terminated thread", "", ["C11"], ""),
 ("C09", 3, "segment.c mi_segment_try_reclaim: the `if (heap->no_reclaim) return NULL` line is dropped from the allocation-time scan (the twin test on the free path stays): a destroyable heap that needs a fresh segment adopts abandoned pages, mi_heap_destroy then frees the terminated thread's live blocks",
  "a thread exits with live blocks; another thread allocates from a mi_heap_new() heap enough to need a fresh segment; mi_heap_destroy; the damage shows when that memory is reused", "", ["C10"],
  "missed by C09 and C10: heaps of one thread share its segments, so random histories almost never make a first-class heap ask for a fresh segment. Added: the pattern `destroyable heap needs fresh segments (3 x 12 MiB), then mi_heap_destroy` in successor threads of the exit scenario (drv_mt, C09/C02) and in the heaps/general histories (drv_seq, C10/C01)"),
 ("C11", 1, "os.c mi_os_prim_alloc_aligned, over-allocate-and-trim path: mid_size = _mi_align_up(size, alignment) instead of rounding to the page size: the tail after the aligned block is trimmed wrongly / its munmap fails, and it is never unmapped",
  "an OS allocation that takes the over-allocation fallback (alignment > 32 MiB, or an OS allocation > 1 GiB) with a size that is not a multiple of the alignment", "-O2 -DNDEBUG -I<dir of the demo>", [], ""),
 ("C12", 2, "heap.c _mi_heap_area_visit_blocks: the one-block fast path tests page->used == 1 instead of page->capacity == 1: a multi-block page with exactly one live block that is not block 0 reports its first (free) block and never the live one; counts still agree",
  "a hole pattern that leaves exactly one survivor in a page at an index other than 0", "", [], ""),
 ("C12", 3, "heap.c _mi_heap_area_visit_blocks, capacity == 1 path: the visitor's result is dropped (`visitor(...); return true;`): returning false at a block > 64 KiB does not stop the walk",
  "the visitor must return false exactly at a block that has a page of its own (large / huge)", "", [], ""),
 ("C13", 1, "segment.c mi_segment_commit: mi_commit_mask_all_set becomes mi_commit_mask_any_set: a span counts as committed as soon as one of its slices is",
  "lazy commit (arena_eager_commit=0, eager_commit=0), a freed small page whose slice coalesces with the never-committed rest of the segment, then a medium/large allocation from that span that is written in full", "", [], ""),
 ("C13", 2, "segment.c mi_segment_purge calls _mi_os_purge(start, full_size) instead of _mi_os_purge_ex(..., all_committed, ...): a reset is issued on ranges that are only partly committed (undoes the repair F16)",
  "purge_decommits=0, purge_delay=0, eager_commit=0, arena_eager_commit=0 together; two small pages in a lazily committed segment, free one, collect (debug build: SIGSEGV in the zero-fill of _mi_os_reset)", "-O1 -DMI_DEBUG=2", [], ""),
 ("C18", 1, "arena.c _mi_arena_free: mi_arena_schedule_purge is moved into the else of `if (!all_committed)`: a partly committed arena block (a whole freed segment) is marked uncommitted but never scheduled for purge",
  "arena_eager_commit=0 (or an OS without overcommit) and a lazily committed segment (first segment of a thread, or eager_commit=0)", "-O2 -DNDEBUG -I<dir of the demo>", [], ""),
 ("C18", 2, "segment.c mi_segment_purge: the arguments of mi_commit_mask_all_set are swapped when computing all_committed: always false, so purge by reset never resets (the purge-mask bits are cleared anyway, a forced collect does not reset either)",
  "purge_decommits=0; whole free pages after the delay or at delay 0", "-O2 -DNDEBUG -I<dir of the demo>", [], ""),
]
SKIPPED = {
 "C01-r7-1": "same change as C01-1 / C01-r5-2 / C03-r3-2 (a queue move clears the whole flags byte, has_aligned is lost); reported again (overlap, unexpected-error)",
 "C01-r7-2": "same change as C01-2 / C10-2 / C01-r5-3 (mi_heap_absorb loops i < MI_BIN_FULL); reported again by C01 and C10",
 "C03-r7-2": "same change as C03-3 (back-pointer slices of a huge span set for i < extra); reported again (usable-size)",
 "C08-r7-3": "same change as C08-1 (the thread-free list head is read once before the CAS loop); reported again (remote-free-lost)",
 "C09-r7-1": "same change as C09-2 / C11-r5-2 (single-entry abandoned OS list); reported again by C09 and C11",
 "C11-r7-2": "same effect and site as C11-r2-3 (mi_thread_data_free fills a cache slot without a CAS from NULL); reported again (mapped-grows)",
 "C11-r7-3": "same change as C11-r5-1 (mi_arena_try_purge stops one bit early: arena block 63 is never purged); reported again (arena-still-committed)",
 "C12-r7-1": "same change as C12-2 (a stopped abandoned walk does not re-mark the current segment); reported again (walk-misses-live)",
 "C18-r7-3": "same change as C18-3 (mi_segment_commit tests commit_mask instead of purge_mask when extending the expiry); reported again (not-purged-after-delay)",
}
def confirm_from_log(prop, n):
    out = {}
    p = os.path.join(LOG, "%s_p%d.log" % (prop, n))
    if os.path.exists(p):
        t = open(p).read()
        m = re.search(r"DEMO unpatched: (.*)", t); m2 = re.search(r"DEMO patched:\s+(.*)", t)
        if m and m2: out["demo_unchanged_tree"] = m.group(1); out["demo_with_change"] = m2.group(1)
        out["ctest_with_change"] = re.findall(r"CTEST run \d: (.*)", t)
    return out
def main():
    for (prop, n, change, needs, flags, also, strengthened) in T:
        d = os.path.join(WT, prop, "MUTANT"); sid = "%s-r7-%d" % (prop, n); o = os.path.join(OUT, sid)
        os.makedirs(o, exist_ok=True)
        shutil.copy(os.path.join(d, "patch.diff" if n == 1 else "patch%d.diff" % n), os.path.join(o, "patch.diff"))
        suf = "" if n == 1 else str(n); demo = None
        for cand in ("demo%s.c" % suf, "demo%s.cpp" % suf):
            if os.path.exists(os.path.join(d, cand)): demo = cand; break
        if demo: shutil.copy(os.path.join(d, demo), os.path.join(o, "demo" + os.path.splitext(demo)[1]))
        for h in glob.glob(os.path.join(d, "*.h")): shutil.copy(h, o)
        if os.path.exists(os.path.join(d, "notes.md")): shutil.copy(os.path.join(d, "notes.md"), os.path.join(o, "notes.md"))
        c = confirm_from_log(prop, n)
        assert c.get("demo_unchanged_tree", "").startswith("pass=5") and c.get("demo_with_change", "").endswith("fail=5") and len(c.get("ctest_with_change", [])) == 2 and all("100% tests passed" in x for x in c["ctest_with_change"]), (sid, c)
        meta = {"id": sid, "property": prop, "change": change, "needs_to_manifest": needs, "also_checks": also,
                "written_by": "a fresh sub-agent (seventh round) that was given only the text of property %s (plus a one-line hint naming clauses of that text to vary the sites) and a scratch git worktree of /repo at 3b70e1f (section `Mutant %d` / patch%s of notes.md is its own description)" % (prop, n, suf),
                "demonstration": {"file": ("demo" + os.path.splitext(demo)[1]) if demo else None, "build": "gcc %s -I<tree>/include demo.c <tree>/src/static.c -lpthread" % (flags or "-O2 -DNDEBUG"), "exit": "0 = property held, non-zero = broken"},
                "confirmed_here": dict({"how": "tools/confirm_mutant.sh in a scratch worktree of /repo (removed afterwards): demonstration 5x on the unchanged tree, apply the change, demonstration 5x, cmake build + ctest twice"}, **c),
                "checks_strengthened": strengthened or None}
        json.dump(meta, open(os.path.join(o, "meta.json"), "w"), indent=1)
    json.dump(SKIPPED, open(os.path.join(OUT, "round7_not_filed.json"), "w"), indent=1)
    print("filed", len(T), "round-7 changes;", len(SKIPPED), "not filed")
main()
