#!/usr/bin/env python3
"""One-off (round 2): files the second batch of seeded changes (scratch worktrees /tmp/wt2/Cxx/MUTANT, created at /repo HEAD 375091c) as /verif/seeded/<Cxx-r2-n>/.
Changes that merely repeat one already kept from round 1 and one that does not compile in a release build are not filed (listed in SKIPPED)."""
import json, os, re, shutil, glob
WT = "/tmp/wt2"; OUT = "/verif/seeded"; LOG = "/tmp/vt/mutlog2"
T = [
 # prop, n, change, needs, demo build flags, also_checks, strengthened
 ("C02", 1, "arena-abandon.c _mi_arena_segment_clear_abandoned tests the abandoned bit with a plain read and then clears it, ignoring the result of the atomic clear: two threads can both adopt one abandoned segment",
  "abandoned_reclaim_on_free=1; a thread terminated with live blocks; two other threads free blocks of that segment and both read the bit before either clears it; then both allocate",
  "-O2 -DNDEBUG -DMI_VERIF_HOOKS=\"demo_hooks.h\" -I<dir of the demo>", ["C09"],
  "missed by C02 (its scenarios had no thread termination; C09's random schedules hit it in 2 of 1218 cases): C02 now also runs the thread-exit scenario, and C09/C02 gained `tinyx` (tiny thread-exit programs with enumerated preemptions, incl. nested two-victim preemptions)"),
 ("C02", 2, "arena-abandon.c mi_arena_segment_os_clear_abandoned no longer clears abandoned_os_prev after unlinking: a reclaimed non-head OS segment still looks linked and is reclaimed a second time",
  "reclaim-on-free and OS segments (disallow_arena_alloc=1), at least two abandoned OS segments, two threads freeing into the one that is not at the head",
  "-O2 -DNDEBUG -DMI_VERIF_HOOKS=\"demo_hooks.h\" -I<dir of the demo>", ["C09"], "caught (debug assertion) once the exit scenario ran under C02 with the reclaim-on-free + OS-segment option combination"),
 ("C02", 3, "page.c _mi_page_force_abandon: the `page may have been freed` guard is tested before the delayed-free drain that can free the page, so the page is freed twice",
  "target_segments_per_thread >= 2 (or mi_collect_reduce); the owner is at its segment target; the first used page of the segment it abandons has its last block freed by another thread and parked in the owner's delayed list; the owner then needs a fresh segment",
  "", ["C13"], "missed by C02/C09 (no deterministic path to it): the sequential driver gained a force-abandon pattern that runs under C13's per-thread-segment-target vectors (forced abandonment is an option setting) -- caught there"),
 ("C05", 2, "alloc-posix.c mi_reallocarr assigns the result of the inner reallocarray to *p before checking it: a failing call overwrites the caller's pointer with NULL",
  "mi_reallocarr with an overflowing count*size (or a total above PTRDIFF_MAX) and a look at the pointer variable afterwards", "", [], ""),
 ("C05", 3, "page.c mi_page_fresh_alloc decides `huge` by block_size > MI_LARGE_OBJ_SIZE_MAX instead of the page flag: pages that are huge only because of a large alignment lose their block size, usable size drops below the request and realloc copies too little",
  "an aligned block with alignment > 16 MiB and a size between about 64 KiB and 16 MiB, then a moving realloc and a content check past the first 64 KiB", "", [], ""),
 ("C05", 4, "free.c mi_page_usable_aligned_size_of subtracts the alignment adjustment only for huge pages: realloc/expand report `fits in place` up to `adjust` bytes past the real end of an over-allocated aligned block",
  "an aligned block with a non-zero adjustment (alignment does not divide the block size), a new size just above the true capacity but within the overstated one, an oracle that writes the granted size and checks the neighbour", "", [], ""),
 ("C07", 1, "arena.c _mi_arena_free skips un-marking the committed bits when a half-built segment is handed back with committed_size == 0",
  "arena_eager_commit=0; a refused commit (mprotect RW) during a huge block allocation, or two consecutive ones while a normal segment is set up; then the OS grants again and the same arena blocks are re-used: the header write faults", "-O2 -DNDEBUG -I<dir of the demo>", [], ""),
 ("C07", 3, "os.c mi_os_decommit_ex reports `still committed` (needs_recommit = false) when the decommit failed, although secure/debug builds protect the range regardless",
  "a secure or debug build; one refused madvise during a purge, then the same span is re-used and written", "-O2 -DNDEBUG -DMI_SECURE=4 -I<dir of the demo>", [], ""),
 ("C07", 4, "page.c mi_page_queue_find_free_ex passes first_try instead of false to its second try: under persistent refusal mi_malloc never returns NULL but spins",
  "persistent mmap refusal and a small/medium allocation that needs a fresh page", "-O2 -DNDEBUG -I<dir of the demo>", [], ""),
 ("C08", 3, "free.c _mi_free_delayed_block frees the block with check_full = false: a full page whose blocks were freed remotely is not moved out of the full queue, so those blocks are not re-used while the page holds a live block",
  "a page that filled up and went to the full queue; another thread frees some but not all of its blocks; the owner processes the delayed frees and then allocates more of that size class", "", [],
  "missed (every page eventually became empty in the producer/consumer scenario, so nothing grew): the scenario gained a reuse phase -- pages filled, all but one block per page freed remotely, owner collects and allocates the same number again: the heap may not need more areas than before"),
 ("C09", 1, "arena-abandon.c mi_arena_segment_os_clear_abandoned no longer clears abandoned_os_next: a segment popped by a visitor keeps a stale link, a concurrent free passes the `still in the list` test and adopts it while the visitor re-marks it abandoned",
  "OS segments, reclaim-on-free, at least two abandoned OS segments, a free into a segment that another thread has just popped (collect / reclaim scan / abandoned walk)", "", ["C02"], ""),
 ("C09", 3, "segment.c mi_segment_force_abandon: the early-return path no longer resets segment->dont_free, so a force-abandoned segment is never freed when it becomes empty",
  "target_segments_per_thread > 1 or mi_collect_reduce; a thread owning at least two segments; all blocks of the abandoned one freed later", "", [], ""),
 ("C10", 1, "page-queue.c _mi_page_queue_append links the first appended page to pq->first instead of pq->last: pages of the backing heap drop out of its queue",
  "the backing heap owns at least two non-full pages in a size bin, a deleted heap owns a page in the same bin, and later the first migrated page is unlinked because all its blocks were freed", "", [], ""),
 ("C10", 3, "segment.c mi_segment_reclaim tests heap->no_reclaim instead of target_heap->no_reclaim (the tag-matched heap the page goes into): pages of a terminated thread are adopted into a destroyable heap with the same tag (undoes fix F3 for tagged heaps)",
  "heap tags: this thread owns a destroyable heap with tag t, another thread terminates with live blocks in its tag-t heap, this thread adopts (forced collect or reclaim-on-free) through its untagged backing heap and then destroys its tag-t heap", "", ["C09"],
  "missed (no check used heap tags): the heaps profile gained a tagged-heap destroy pattern. (The same change was delivered for C09 as well.)"),
 ("C10", 5, "heap.c mi_heap_page_check_owned computes the page end with the usable block size instead of the block size: blocks in the tail of a page are not `owned` in padded builds",
  "a build with padding (MI_DEBUG or MI_SECURE) and a live block near the end of a filled page", "-O2 -DNDEBUG -DMI_SECURE=4", [], ""),
 ("C11", 3, "init.c mi_thread_data_free claims a cache slot with a relaxed load and a plain store instead of a CAS: two threads terminating together can pick the same slot, one 12 KiB metadata mapping is then lost for good",
  "two or more threads that run the end of mi_thread_done at the same moment (released from a barrier just before they return), many rounds", "-O2 -DNDEBUG -I<dir of the demo>", [],
  "missed (the thread workload let its 4 threads terminate one after the other): C11 gained a workload of storms of 8 threads released together, 40 rounds per repetition"),
 ("C12", 2, "heap.c _mi_heap_area_visit_blocks advances by the usable block size instead of the block size in the full-page shortcut",
  "a padded build (MI_DEBUG / MI_SECURE) and a completely full multi-block page: reported addresses drift 8 bytes per block", "-O2 -DNDEBUG -DMI_SECURE=4", [], ""),
 ("C12", 3, "segment.c mi_segment_visit_page treats a false return of the per-area callback as `skip this area` and goes on",
  "abandoned blocks, a visitor that returns false from an AREA callback, more pages after that area", "", [], ""),
 ("C12", 4, "arena-abandon.c mi_arena_segment_os_mark_abandoned no longer sets abandoned_os_prev: removing an entry from the middle of the abandoned OS list drops every entry in front of it",
  "at least 3 abandoned OS segments at the same time (threads alive together), reclaim-on-free, a free by another thread into the middle entry, then a walk", "", [],
  "missed (threads of the walk profile terminated one after the other, each adopting what the previous one left): C12 gained the abandoned-groups pattern (threads kept alive together by a barrier) and reclaim-on-free configurations"),
 ("C13", 1, "arena.c mi_arena_try_alloc_at commits stat_commit_size instead of commit_size bytes: a partly committed multi-block range is committed only at its front, the tail stays PROT_NONE but is reported committed",
  "arena_eager_commit=0, an allocation spanning more than one arena block whose first block was used before while the next is fresh", "", [], ""),
 ("C13", 2, "segment.c mi_segment_commit returns right after the OS commit and skips clearing the pending purge bits of the range",
  "eager_commit=0 on uncommitted memory, purge_delay > 0: a freed page's delayed purge survives the re-use of its slices by a larger page and later decommits live memory", "", [], ""),
 ("C13", 3, "arena-abandon.c mi_arena_segment_os_clear_abandoned leaves the list tail stale when the abandoned OS list becomes empty",
  "disallow_arena_alloc=1 (or arena_reserve=0) and a thread that terminates holding a live block", "", ["C12", "C09"], ""),
 ("C14", 2, "bitmap.c _mi_bitmap_try_claim becomes a fetch-or: a failed claim of a partly taken range leaves its free bits set (used by the temporary claim of arena purging)",
  "purging enabled and a purge pass concurrent with claims, a run of purgeable blocks partly re-claimed between the purger's read and its try-claim", "", [], ""),
 ("C14", 3, "bitmap.c _mi_bitmap_try_find_claim_field lets a 2-block claim start at bit 63: only that bit is claimed, the range spills into the next word or past the arena",
  "a request of exactly 2 arena blocks in an arena of at least 64 blocks whose word has bit 63 free, bit 62 taken and no lower pair free", "", [], ""),
 ("C16", 1, "heap.c mi_get_fast_divisor drops the + 1 of the magic constant: block indices recovered from addresses are one too low for non-power-of-two block sizes",
  "mi_heap_visit_blocks on a partially free page with a non-power-of-two block size", "", ["C12"], ""),
 ("C16", 3, "init.c size-class table: QNULL(5120) becomes QNULL(5102), so that class's blocks are 40816 bytes while requests up to 40960 bytes still map to it",
  "a request in [40817, 40960] bytes", "", [], ""),
 ("C16", 4, "free.c _mi_page_ptr_unalign computes the modulo in 32 bits",
  "a huge block of 4 GiB or more that is not a power of two, allocated with an alignment that puts the pointer at least (block size mod 4 GiB) into the block", "", ["C03"], ""),
 ("C17", 1, "free.c mi_list_contains bounds its walk by page->used (`guard against cyclic lists`) instead of the capacity",
  "a second free of a block that sits deeper in the page's free lists than the number of blocks still live in that page", "-O2 -DNDEBUG -DMI_SECURE=4", [],
  "missed (the double-free attack always left more live blocks than list entries in front of the victim): C17 gained the deep double free (private heap, 10-31 blocks of one page, all but 1-2 freed, victim first)"),
 ("C18", 1, "arena.c mi_arena_purge skips the OS purge when none of the blocks of a partly committed range is marked committed",
  "a segment that goes back to its arena partly committed (debug/secure builds after page-level decommits, or eager_commit=0 + arena_eager_commit=0) with in-use neighbours", "-O1 -g -DMI_DEBUG=3 -Dclock_gettime=my_clock_gettime -Dmadvise=my_madvise", ["C11"],
  "missed (exact scenarios ran on the release build with eager commit only): `holes` gained phase 2 (whole segments, partly committed), the exact scenarios also run on the debug build and with lazy commit. (The same change was delivered for C11 as well.)"),
 ("C18", 2, "segment.c mi_segment_schedule_purge extends a pending expiry by purge_delay instead of purge_extend_delay for every further free",
  "more than one page freed in the same segment while a purge is pending, and an oracle with a deadline", "-O2 -DNDEBUG -Dclock_gettime=my_clock_gettime -Dmadvise=my_madvise", [], ""),
 ("C18", 3, "os.c the purge_delay < 0 guard is moved from _mi_os_purge_ex into the _mi_os_purge wrapper (segment purges call the _ex form directly)",
  "a segment created while purging was allowed, then mi_option_set(purge_delay, -1) at run time, then frees in that segment", "-O2 -DNDEBUG -Dclock_gettime=my_clock_gettime -Dmadvise=my_madvise", [],
  "missed (options were only ever set at process start): C18 gained the `switch` scenario"),
 ("C18", 4, "segment.c mi_segment_span_free schedules the purge only when the span goes to a queue (sq != NULL), which also excludes abandoned segments",
  "a thread terminates with live blocks, another thread frees them while the segment stays abandoned; non-forced collects afterwards", "-O2 -DNDEBUG -Dclock_gettime=my_clock_gettime -Dmadvise=my_madvise", [],
  "missed (no threads in the purge scenarios): C18 gained the `abandoned` scenario"),
 ("C20", 1, "stats.c mi_stats_get_json no longer zeroes the caller's buffer first: with a buffer of exactly 1 byte nothing is written, not even the terminator",
  "mi_stats_get_json(1, buf) with buf[0] != 0 on entry", "", [], ""),
]
SKIPPED = {
 "C05-r2-1": "realloc(p,0) leaks the old block (different line, same behaviour as C05-1)", "C07-r2-2": "same change as C07-1", "C08-r2-1": "same change as C09-1 (caught by C09)",
 "C08-r2-2": "same idea as C08-1 (list head read once before the take-over CAS loop)", "C09-r2-2": "same change as C10-r2-3", "C10-r2-2": "same change as C10-1", "C10-r2-4": "same change as C10-2 / C01-2",
 "C11-r2-1": "same change as C18-r2-1", "C11-r2-2": "same change as C11-2 / C09-2", "C12-r2-1": "same change as C12-2", "C14-r2-1": "same change as C14-1", "C16-r2-2": "same change as C16-1",
 "C17-r2-2": "same change as C17-2", "C17-r2-3": "does not compile in a release build (page->keys only exists in hardened builds), so the repository's suite cannot be built with it; the attack it suggested "
 "(forged link met by a forced collect) was added to C17 anyway and catches it in the secure build", "C20-r2-2": "same change as C20-2", "C20-r2-3": "same change as C20-3",
}
def confirm_from_log(prop, n):
    out = {}
    for suffix in (".reconfirm", ".log"):
        p = os.path.join(LOG, "%s_p%d%s" % (prop, n, suffix))
        if not os.path.exists(p): continue
        t = open(p).read()
        m = re.search(r"DEMO unpatched: (.*)", t); m2 = re.search(r"DEMO patched:\s+(.*)", t)
        if m and m2 and "pass=0" not in m.group(1):
            out["demo_unchanged_tree"] = m.group(1); out["demo_with_change"] = m2.group(1)
            out["ctest_with_change"] = re.findall(r"CTEST run \d: (.*)", t)
            break
    if "ctest_with_change" not in out:
        p = os.path.join(LOG, "%s_p%d.log" % (prop, n))
        if os.path.exists(p): out["ctest_with_change"] = re.findall(r"CTEST run \d: (.*)", open(p).read())
    return out
def main():
    for (prop, n, change, needs, flags, also, strengthened) in T:
        d = os.path.join(WT, prop, "MUTANT"); sid = "%s-r2-%d" % (prop, n); o = os.path.join(OUT, sid)
        os.makedirs(o, exist_ok=True)
        shutil.copy(os.path.join(d, "patch.diff" if n == 1 else "patch%d.diff" % n), os.path.join(o, "patch.diff"))
        suf = "" if n == 1 else str(n); demo = None
        for cand in ({("C10", 5): "demo4.c"}.get((prop, n), "demo%s.c" % suf), "demo%s.cpp" % suf, "demo.c"):
            if os.path.exists(os.path.join(d, cand)): demo = cand; break
        if demo: shutil.copy(os.path.join(d, demo), os.path.join(o, "demo" + os.path.splitext(demo)[1]))
        for h in glob.glob(os.path.join(d, "*.h")): shutil.copy(h, o)
        if os.path.exists(os.path.join(d, "notes.md")): shutil.copy(os.path.join(d, "notes.md"), os.path.join(o, "notes.md"))
        meta = {"id": sid, "property": prop, "change": change, "needs_to_manifest": needs, "also_checks": also,
                "written_by": "a fresh sub-agent (second round) that was given only the text of property %s and a scratch git worktree of /repo at 375091c (section `Mutant %d` / patch%s of notes.md is its own description)" % (prop, n, suf),
                "demonstration": {"file": ("demo" + os.path.splitext(demo)[1]) if demo else None, "build": "gcc %s -I<tree>/include demo.c <tree>/src/static.c -lpthread" % (flags or "-O2 -DNDEBUG"), "exit": "0 = property held, non-zero = broken"},
                "confirmed_here": dict({"how": "tools/confirm_mutant.sh in a scratch worktree of /repo (removed afterwards): demonstration 5x on the unchanged tree, apply the change, demonstration 5x, cmake build + ctest twice"}, **confirm_from_log(prop, n)),
                "checks_strengthened": strengthened or None}
        json.dump(meta, open(os.path.join(o, "meta.json"), "w"), indent=1)
    json.dump(SKIPPED, open(os.path.join(OUT, "round2_not_filed.json"), "w"), indent=1)
    print("filed", len(T), "round-2 changes;", len(SKIPPED), "not filed")
main()
