#!/bin/bash
# tools/eval_mutant.sh <patch.diff> <Cxx> [Cyy ...]
# Applies a seeded change to a scratch copy of /repo's sources (never to /repo itself), runs the quick checks of the given
# properties against it, and prints their exit codes. Evidence/replays go to a scratch directory.
set -u
patch="$1"; shift
scr=$(mktemp -d /tmp/scr_XXXXXX)
cp -r /repo/src /repo/include "$scr"/
( cd "$scr" && patch -p1 -s < "$patch" ) || { echo "PATCH-FAILED"; rm -rf "$scr"; exit 3; }
out="$scr/out"; mkdir -p "$out"
for p in "$@"; do
  t0=$(date +%s)
  VERIF_REPO="$scr" VERIF_OUT="$out" /verif/check "$p" --tier "${TIER:-quick}" > "$out/$p.log" 2>&1
  rc=$?
  t1=$(date +%s)
  echo "RESULT $p exit=$rc $(($t1-$t0))s $(grep -c '^VIOLATION' "$out/$p.log") violation-keys: $(grep '  key=' "$out/$p.log" | sort | uniq -c | sort -rn | head -4 | tr '\n' ';')"
  grep -m2 -A1 '  key=' "$out/$p.log" | cut -c1-400
done
rm -rf "$scr"
